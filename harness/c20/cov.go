package main

// C20: what the statement-coverage report of the anchored files (notes/coverage/C20.txt, triage in C20-triage.md) showed
// no stream reached.
//
//	which = 6  the REAL Pipeline.In with the options the other pipeline streams leave at their defaults
//	  case = ((max cutoff mark dec T U nsrc nmeta) (streams meta_on pool spread auto) (op ...))
//	    dec      0 raw | 1 json | 2 cri | 3 postgres
//	    streams  0: Pipeline.DisableStreams() before Start
//	    meta_on  1: settings.SourceNameMetaField = "pod"
//	    pool     0 std | 1 low_memory | 2 "" (the default, low memory)
//	    spread   1: Pipeline.UseSpread()
//	    auto     0: the decoder is configured (and a suggestion of another one must be ignored)
//	             1: decoder "auto" + the suggestion of the input (json: no suggestion, the default at Start)
//	             2: decoder "auto", a suggestion of NO first (ignored), the right one, then another one (the first wins)
//	    op = (0) antispam Maintenance | (1 id isNew cur soff hdr #record valid pass meta)
//	      pass  what the input's PassEvent answers; meta -1: the meta of the call has no "pod" entry, k: "pod" = "m<k>"
//	  obs = per op (0) refused | (1 #payload mark) | (2) panic | (3) accepted, never delivered | (4) refused by PassEvent
//	        | (5) In did not return; Maintenance: the counters of the source ids 1..nsrc, then of m0..m<nmeta-1>
//	which = 7  the pipeline's own antispam maintenance goroutine: case = (T U n mi_ms), obs = ((flag ...) (sample ...) final)
//	which = 8  the which = 1 cases judged by the int32 model (clampInt32, wrapping Inc)
//	which = 9  case = ((group_len ...) <which = 1 case>): the ops of a group are executed by different goroutines at once
//
// Regressions these expose: PassEvent not consulted / consulted with streams disabled / its refusal leaking the pool event or
// skipping the antispam count; the source re-keyed by a meta value that is absent, or isNewSource honoured for a meta key
// (a new file of the same pod would reset the pod's counter); a decoder suggestion overriding a configured decoder; the
// POSTGRES branch; the maintenance goroutine not running / running rounds of another shape; the clamp of the ban value;
// the double-checked creation of a source entry losing counts.

import (
	"bytes"
	"encoding/json"
	"fmt"
	"net/http"
	"net/http/httptest"
	"runtime"
	"sort"
	"strconv"
	"strings"
	"sync"
	"sync/atomic"
	"time"
	"unicode/utf8"

	"github.com/ozontech/file.d/cfg/matchrule"
	"github.com/ozontech/file.d/decoder"
	"github.com/ozontech/file.d/metric"
	"github.com/ozontech/file.d/pipeline"
	"github.com/ozontech/file.d/pipeline/antispam"
	"github.com/ozontech/file.d/pipeline/metadata"
	"github.com/ozontech/file.d/plugin/output/devnull"
	"github.com/prometheus/client_golang/prometheus"
	"go.uber.org/zap"

	"verif/harness/hmain"
	"verif/harness/hx"
)

// ---- helpers used by main.go / rules.go ---------------------------------------------------------------------------

var c20DeadFields = []string{"meta", "meta.tag.x", "nope", "meta.absent", ""}

func c20RuleField(j int) string {
	switch j {
	case 0:
		return "event"
	case 1:
		return "source_name"
	case 2:
		return "meta.tag"
	}
	return c20DeadFields[(j-3)%len(c20DeadFields)]
}

// Dump() (the /ban_list page): exactly the sources whose counter reaches the antispammer's threshold are listed
func c20CheckDump(dump string, T, n int, idOf func(int) string, counter func(string) (int32, bool)) {
	if c20W == nil {
		return
	}
	ok := true
	any := false
	for i := 0; i < n; i++ {
		c, has := counter(idOf(i))
		any = any || has
		listed := strings.Contains(dump, "source_id: "+idOf(i)+",")
		if listed != (has && int(c) >= T) {
			ok = false
		}
	}
	if !any && !strings.Contains(strings.ToLower(dump), "no banned") {
		ok = false
	}
	c20W.Oracle("antispam Dump() / ban_list lists exactly the sources whose counter reaches the threshold", ok, dump)
}

// the exceptions as fd reads them: JSON text -> antispam.Exceptions (matchrule.Mode / Cond UnmarshalJSON)
func c20ExceptionsFromJSON(excs []c20Exc) (antispam.Exceptions, bool) {
	var arr []map[string]any
	for i, e := range excs {
		var rules []map[string]any
		for k, r := range e.rules {
			m := map[string]any{"mode": c20ModeName[r.mode], "case_insensitive": r.ci, "invert": r.inv}
			vals := []string{}
			for _, v := range r.vals {
				if !utf8.Valid(v) {
					return nil, false
				}
				vals = append(vals, string(v))
			}
			if len(vals) > 0 || k%2 == 0 { // a rule without values: "values": [] or no "values" at all
				m["values"] = vals
			}
			rules = append(rules, m)
		}
		m := map[string]any{"name": "e" + strconv.Itoa(i), "cond": map[bool]string{false: "and", true: "or"}[e.or], "check_source_name": e.name}
		if len(rules) > 0 || i%2 == 0 {
			if rules == nil {
				rules = []map[string]any{}
			}
			m["rules"] = rules
		}
		arr = append(arr, m)
	}
	raw, err := json.Marshal(arr)
	if err != nil {
		return nil, false
	}
	dec := json.NewDecoder(bytes.NewReader(raw))
	dec.DisallowUnknownFields()
	var out antispam.Exceptions
	if err := dec.Decode(&out); err != nil {
		panic("c20: exceptions JSON rejected: " + err.Error() + " " + string(raw))
	}
	return out, true
}

// ---- which = 6 ------------------------------------------------------------------------------------------------------

type c20Input struct {
	pass  bool
	asked int
	bad   string
	cur   int64
	sid   pipeline.SourceID
}

func (p *c20Input) Start(pipeline.AnyConfig, *pipeline.InputPluginParams) {}
func (p *c20Input) Stop()                                                  {}
func (p *c20Input) Commit(*pipeline.Event)                                 {}
func (p *c20Input) PassEvent(e *pipeline.Event) bool {
	p.asked++
	if e.Offset != p.cur || e.SourceID != p.sid {
		p.bad = fmt.Sprintf("PassEvent saw offset %d source %d, In was given %d / %d", e.Offset, e.SourceID, p.cur, p.sid)
	}
	return p.pass
}

var c20InTimeout = 5 * time.Second

var c20DecName = []string{"raw", "json", "cri", "postgres"}
var c20DecType = []decoder.Type{decoder.RAW, decoder.JSON, decoder.CRI, decoder.POSTGRES}

func c20MetaOf(id int, meta int) metadata.MetaData {
	switch {
	case meta >= 0:
		return metadata.MetaData{"pod": "m" + strconv.Itoa(meta), "extra": "x" + strconv.Itoa(id)}
	case id%2 == 1:
		return metadata.MetaData{"extra": "x" + strconv.Itoa(id)}
	}
	return nil
}

func c20PipeOpts(cs hx.Sx) hx.Sx {
	top := hx.Items(cs)
	it := hx.Items(top[0])
	opt := hx.Items(top[1])
	ops := hx.Items(top[2])
	max := int(hx.Int(it[0]))
	cutoff, mark := hx.Truth(it[1]), hx.Truth(it[2])
	dec := int(hx.Int(it[3]))
	T := int(hx.Int(it[4]))
	nsrc, nmeta := int(hx.Int(it[6])), int(hx.Int(it[7]))
	streams, metaOn := hx.Truth(opt[0]), hx.Truth(opt[1])
	pool, spread, auto := int(hx.Int(opt[2])), hx.Truth(opt[3]), int(hx.Int(opt[4]))

	s := c20Settings()
	s.Capacity = 4 // an event that is refused after it was taken from the pool and not given back wedges In soon
	s.MaxEventSize = max
	s.CutOffEventByLimit = cutoff
	if mark {
		s.CutOffEventByLimitField = "cut"
	}
	s.Decoder = c20DecName[dec]
	if auto > 0 {
		s.Decoder = "auto"
	}
	s.Pool = []pipeline.PoolType{pipeline.PoolTypeStd, pipeline.PoolTypeLowMem, ""}[pool]
	s.Antispam.Threshold = T
	if metaOn {
		s.SourceNameMetaField = "pod"
	}
	c20PipeSeq++
	p := pipeline.New("c20_opts_"+strconv.Itoa(c20PipeSeq), s, prometheus.NewRegistry(), zap.NewNop())
	p.DisableParallelism()
	if !streams {
		p.DisableStreams()
	}
	if spread {
		p.UseSpread()
	}
	other := c20DecType[(dec+1)%len(c20DecType)]
	switch auto {
	case 0:
		p.SuggestDecoder(other) // a configured decoder is not overridden
	case 1:
		if dec != 1 {
			p.SuggestDecoder(c20DecType[dec])
		}
	default:
		p.SuggestDecoder(decoder.NO)
		if dec != 1 {
			p.SuggestDecoder(c20DecType[dec])
			p.SuggestDecoder(other)
		}
	}
	in := &c20Input{}
	p.SetInput(&pipeline.InputPluginInfo{
		PluginStaticInfo:  &pipeline.PluginStaticInfo{Type: "c20"},
		PluginRuntimeInfo: &pipeline.PluginRuntimeInfo{Plugin: in},
	})
	outp, _ := devnull.Factory()
	dn := outp.(*devnull.Plugin)
	p.SetOutput(&pipeline.OutputPluginInfo{
		PluginStaticInfo:  &pipeline.PluginStaticInfo{Type: "devnull"},
		PluginRuntimeInfo: &pipeline.PluginRuntimeInfo{Plugin: dn},
	})
	var curMeta metadata.MetaData
	got := make(chan c20Out, 16)
	dn.SetOutFn(func(e *pipeline.Event) {
		var o c20Out
		if n := e.Root.Dig("cut"); n != nil {
			o.mark = n.AsBool()
			n.Suicide()
		}
		if e.Root.IsArray() { // an array root cannot carry the mark itself, its objects can (as they carry the meta)
			for _, el := range e.Root.AsArray() {
				if n := el.Dig("cut"); el.IsObject() && n != nil {
					o.mark = o.mark || n.AsBool()
					n.Suicide()
				}
			}
		}
		// the meta of the call is added to the event (to every object of an array root): check it and take it out again
		metaOK := true
		keys := make([]string, 0, len(curMeta))
		for k := range curMeta {
			keys = append(keys, k)
		}
		sort.Strings(keys)
		if e.Root.IsArray() {
			for _, el := range e.Root.AsArray() {
				if !el.IsObject() {
					continue
				}
				for _, k := range keys {
					if n := el.Dig(k); n == nil || n.AsString() != curMeta[k] {
						metaOK = false
					} else {
						n.Suicide()
					}
				}
			}
		} else {
			for _, k := range keys {
				if n := e.Root.Dig(k); n == nil || n.AsString() != curMeta[k] {
					metaOK = false
				} else {
					n.Suicide()
				}
			}
		}
		switch {
		case !metaOK:
			o.payload = []byte("META-FIELDS-WRONG " + e.Root.EncodeToString())
		case dec == 1:
			o.payload = []byte(e.Root.EncodeToString())
		default:
			field := "message"
			if dec >= 2 {
				field = "log"
			}
			if n := e.Root.Dig(field); n != nil {
				o.payload = append([]byte(nil), n.AsString()...)
			} else {
				o.payload = []byte("NO-MESSAGE-FIELD")
			}
		}
		got <- o
	})
	p.Start()
	wedged := false
	defer func() {
		if !wedged {
			p.Stop()
		}
	}()
	mux := http.NewServeMux()
	p.SetupHTTPHandlers(mux)

	idOf := func(i int) string {
		if i < nsrc {
			return strconv.Itoa(i + 1)
		}
		return "m" + strconv.Itoa(i-nsrc)
	}
	out := make([]hx.Sx, 0, len(ops))
	for _, op := range ops {
		o := hx.Items(op)
		if wedged {
			out = append(out, hx.L(hx.I(5)))
			continue
		}
		if hx.Int(o[0]) == 0 {
			p.VerifC20AntispamMaintenance()
			cnt := make([]hx.Sx, nsrc+nmeta)
			for i := range cnt {
				if c, ok := p.VerifC20AntispamCounter(idOf(i)); ok {
					cnt[i] = hx.I(int(c))
				} else {
					cnt[i] = hx.I(-1)
				}
			}
			out = append(out, hx.L(cnt...))
			if c20W != nil {
				rec := httptest.NewRecorder()
				mux.ServeHTTP(rec, httptest.NewRequest("GET", "/pipelines/"+p.Name+"/ban_list", nil))
				c20CheckDump(rec.Body.String(), T, nsrc+nmeta, idOf, p.VerifC20AntispamCounter)
			}
			continue
		}
		id := int(hx.Int(o[1]))
		isNew := hx.Truth(o[2])
		cur, soff := hx.Int(o[3]), hx.Int(o[4])
		rec := hx.Bytes(o[6])
		in.pass = hx.Truth(o[8])
		in.cur, in.sid = cur, pipeline.SourceID(id+1)
		meta := c20MetaOf(id, int(hx.Int(o[9])))
		curMeta = meta
		offs := pipeline.NewOffsets(cur, pipeline.SliceFromMap(map[pipeline.StreamName]int64{"": soff, "stdout": soff, "stderr": soff}))
		asked0 := in.asked
		type inRes struct {
			seq uint64
			msg string
		}
		done := make(chan inRes, 1)
		go func() {
			var r inRes
			r.msg = hx.Catch(func() { r.seq = p.In(pipeline.SourceID(id+1), "src"+strconv.Itoa(id), offs, rec, isNew, meta) })
			done <- r
		}()
		var r inRes
		select {
		case r = <-done:
		case <-time.After(c20InTimeout):
			wedged = true
			c20InTimeout = 300 * time.Millisecond // a pipeline that wedges once wedges in every case: do not wait 5 s each time
			out = append(out, hx.L(hx.I(5)))
			continue
		}
		switch {
		case r.msg != "":
			out = append(out, hx.L(hx.I(2)))
		case in.bad != "":
			out = append(out, hx.L(hx.I(9), hx.S(in.bad)))
			in.bad = ""
		case r.seq == pipeline.EventSeqIDError && in.asked > asked0:
			out = append(out, hx.L(hx.I(4)))
		case r.seq == pipeline.EventSeqIDError:
			out = append(out, hx.L(hx.I(0)))
		case streams && in.asked != asked0+1:
			out = append(out, hx.L(hx.I(9), hx.S("accepted without asking the input")))
		case !streams && in.asked != asked0:
			out = append(out, hx.L(hx.I(9), hx.S("the input was asked although streams are disabled")))
		default:
			select {
			case g := <-got:
				out = append(out, hx.L(hx.I(1), hx.B(g.payload), hx.Bool(g.mark)))
			case <-time.After(5 * time.Second):
				out = append(out, hx.L(hx.I(3)))
			}
		}
	}
	return hx.L(out...)
}

// ---- which = 7 ------------------------------------------------------------------------------------------------------

func c20Tick(cs hx.Sx) hx.Sx {
	it := hx.Items(cs)
	T, n := int(hx.Int(it[0])), int(hx.Int(it[2]))
	mi := time.Duration(hx.Int(it[3])) * time.Millisecond
	var res hx.Sx
	for attempt := 0; attempt < 6; attempt++ {
		s := c20Settings()
		s.Antispam.Threshold = T
		s.Antispam.MaintenanceInterval = mi
		s.MaintenanceInterval = mi
		c20PipeSeq++
		p := pipeline.New("c20_tick_"+strconv.Itoa(c20PipeSeq), s, prometheus.NewRegistry(), zap.NewNop())
		p.DisableParallelism()
		p.SetInput(&pipeline.InputPluginInfo{
			PluginStaticInfo:  &pipeline.PluginStaticInfo{Type: "c20"},
			PluginRuntimeInfo: &pipeline.PluginRuntimeInfo{Plugin: &c20Input{pass: true}},
		})
		outp, _ := devnull.Factory()
		dn := outp.(*devnull.Plugin)
		p.SetOutput(&pipeline.OutputPluginInfo{
			PluginStaticInfo:  &pipeline.PluginStaticInfo{Type: "devnull"},
			PluginRuntimeInfo: &pipeline.PluginRuntimeInfo{Plugin: dn},
		})
		got := make(chan struct{}, 64)
		dn.SetOutFn(func(*pipeline.Event) { got <- struct{}{} })
		send := func() hx.Sx {
			seq := p.In(1, "src", pipeline.NewOffsets(0, nil), []byte("a\n"), false, nil)
			if seq == pipeline.EventSeqIDError {
				return hx.I(1)
			}
			select {
			case <-got:
			case <-time.After(5 * time.Second):
				return hx.I(3)
			}
			return hx.I(0)
		}
		t0 := time.Now()
		p.Start() // the maintenance goroutine starts to sleep mi here
		flags := make([]hx.Sx, 0, n)
		for i := 0; i < n; i++ {
			flags = append(flags, send())
		}
		read := func() int {
			if c, ok := p.VerifC20AntispamCounter("1"); ok {
				return int(c)
			}
			return -1
		}
		last := read()
		samples := []hx.Sx{hx.I(last)}
		if time.Since(t0) > mi/2 { // a round may have fallen into the burst (a loaded machine): again
			p.Stop()
			res = hx.L(hx.L(flags...), hx.L(hx.I(-9)), hx.I(-9))
			continue
		}
		deadline := time.Now().Add(200 * mi)
		for last != -1 && time.Now().Before(deadline) {
			time.Sleep(mi / 8)
			if c := read(); c != last {
				samples = append(samples, hx.I(c))
				last = c
			}
		}
		final := send()
		p.Stop()
		return hx.L(hx.L(flags...), hx.L(samples...), final)
	}
	return res
}

// ---- which = 9 ------------------------------------------------------------------------------------------------------

func c20Concurrent(cs hx.Sx) hx.Sx {
	top := hx.Items(cs)
	groups := hx.Items(top[0])
	it := hx.Items(top[1])
	T, MI, U := int(hx.Int(it[0])), hx.Int(it[1]), int(hx.Int(it[2]))
	nsrc := int(hx.Int(it[6]))
	ops := hx.Items(it[7])
	a := antispam.NewAntispammer(&antispam.Options{
		MaintenanceInterval: time.Duration(MI),
		Threshold:           T,
		UnbanIterations:     U,
		Logger:              zap.NewNop(),
		MetricsController:   metric.NewCtl("c20", prometheus.NewRegistry(), time.Minute, 0),
	})
	out := make([]hx.Sx, len(ops))
	one := func(k int) {
		o := hx.Items(ops[k])
		if hx.Int(o[0]) == 0 {
			a.Maintenance()
			cnt := make([]hx.Sx, nsrc)
			for i := 0; i < nsrc; i++ {
				if c, ok := a.VerifC20Counter(strconv.Itoa(i)); ok {
					cnt[i] = hx.I(int(c))
				} else {
					cnt[i] = hx.I(-1)
				}
			}
			out[k] = hx.L(cnt...)
			return
		}
		id := int(hx.Int(o[1]))
		var spam bool
		if msg := hx.Catch(func() {
			spam = a.IsSpam(strconv.Itoa(id), "src"+strconv.Itoa(id), hx.Truth(o[2]), []byte(`{"m":""}`), time.Unix(0, hx.Int(o[3])), nil)
		}); msg != "" {
			out[k] = hx.S(msg)
			return
		}
		out[k] = hx.Bool(spam)
	}
	k := 0
	for _, g := range groups {
		n := int(hx.Int(g))
		if n <= 1 {
			for ; n > 0; n-- {
				one(k)
				k++
			}
			continue
		}
		var wg sync.WaitGroup
		var gate atomic.Bool
		for j := 0; j < n; j++ {
			wg.Add(1)
			go func(k int) {
				defer wg.Done()
				for !gate.Load() {
					runtime.Gosched()
				}
				one(k)
			}(k + j)
		}
		time.Sleep(50 * time.Microsecond)
		gate.Store(true)
		wg.Wait()
		k += n
	}
	for ; k < len(ops); k++ {
		one(k)
	}
	return hx.L(out...)
}

// ---- generators -----------------------------------------------------------------------------------------------------

func c20GenCov(c *hmain.Ctx) {
	r := c.R
	none := hx.L()

	// ---- 16. cfg/matchrule: an unknown mode / cond is a configuration error (UnmarshalJSON default branches)
	{
		var m matchrule.Mode
		var cd matchrule.Cond
		e1 := json.Unmarshal([]byte(`"infix"`), &m)
		e2 := json.Unmarshal([]byte(`"xor"`), &cd)
		e3 := json.Unmarshal([]byte(`"suffix"`), &m)
		c.W.Oracle("matchrule: an unknown mode / cond in the configuration is rejected, a known one accepted",
			e1 != nil && e2 != nil && e3 == nil && m == matchrule.ModeSuffix, fmt.Sprint(e1, e2, e3))
	}

	// ---- 17. exceptions with no rules (never match) and rules with no values (Rule.Prepare leaves them unprepared:
	//          Rule.Match panics when - and only when - the walk of IsSpam over the exceptions and of RuleSet.Match over
	//          the rules REACHES them: an earlier exception that matches, an earlier rule that decides the and / or,
	//          or threshold -1 keep the call alive)
	for i := 0; i < 60*c.Scale; i++ {
		var excs []c20Exc
		for k := r.Range(1, 3); k > 0; k-- {
			e := c20Exc{name: r.Bool(), or: r.Bool()}
			for j := hx.Pick(r, []int{0, 1, 2, 2, 3}); j > 0; j-- {
				rule := c20Rule{mode: r.Intn(3), ci: r.Chance(1, 4), inv: r.Chance(1, 4)}
				if !r.Chance(1, 3) {
					for n := r.Range(1, 2); n > 0; n-- {
						rule.vals = append(rule.vals, []byte(hx.Pick(r, []string{"a", "ab", "b;", "x", ""})))
					}
				}
				e.rules = append(e.rules, rule)
			}
			switch {
			case len(e.rules) == 0:
				c.W.Count("matchrule-empty:exception-without-rules")
			default:
				for _, rl := range e.rules {
					if len(rl.vals) == 0 {
						c.W.Count("matchrule-empty:rule-without-values")
					}
				}
			}
			excs = append(excs, e)
		}
		T := hx.Pick(r, []int{-1, 0, 1, 2, 3})
		var ops []hx.Sx
		for j := r.Range(10, 40); j > 0; j-- {
			if r.Chance(1, 8) {
				ops = append(ops, c20Maint)
				continue
			}
			mk := func() []byte {
				return []byte(hx.Pick(r, []string{"", "a", "ab", "abx", "xab", "b;", "xb;", "x", "ba", "AB", "B;a"}))
			}
			ops = append(ops, c20RuleEv(r.Intn(2), r.Chance(1, 20), int64(j/4), mk(), mk()))
		}
		c.Do("matchrule-empty-sets", 4, c20RulesCase(T, 4, hx.Pick(r, []int{0, 1, 4}), 2, excs, ops), true)
	}

	// ---- 18. antispam rules on every field the antispam data has (event, source_name, meta.<key>) and on fields it
	//          does not have (rules.go Get: "meta" alone, three path elements, an unknown name, an absent meta key, "")
	for i := 0; i < 60*c.Scale; i++ {
		T := hx.Pick(r, []int{-1, 0, 2, 3, 5})
		var rthr []int
		for k := r.Range(3, 8); k > 0; k-- {
			rthr = append(rthr, hx.Pick(r, []int{-1, 0, 2, 3}))
		}
		nsrc := r.Range(1, 3)
		var ops []hx.Sx
		t := int64(0)
		for j := r.Range(10, 80); j > 0; j-- {
			if r.Chance(1, 8) {
				ops = append(ops, c20Maint)
				continue
			}
			if r.Chance(1, 3) {
				t += 3
			}
			id := r.Intn(nsrc)
			byMeta := r.Chance(1, 2)
			rb := c20Bits(len(rthr), func(k int) bool {
				switch {
				case k >= 3:
					return false
				case k == 2:
					return byMeta
				}
				return r.Chance(1, 6)
			})
			if byMeta {
				c.W.Count("antispam-rule-field:meta-matched")
			}
			ops = append(ops, c20Ev(id, r.Chance(1, 30), t, none, rb))
		}
		c.Do("antispam-rule-fields", 1, c20AsCase(T, 4, 4, 1, 0, rthr, nsrc, ops), true)
	}

	// ---- 19. the counter as an int32 (which = 8). (a) ordinary op sequences: the int32 model and the code agree where
	//          the unbounded model does; (b) U * T beyond MaxInt32 (U is an option of the antispammer; the pipeline
	//          passes 4, so T > 2^29 would be needed there): the ban value is clamped to MaxInt32, a slow event or a
	//          round keeps the ban, and the NEXT QUICK EVENT wraps the counter to MinInt32 - the source is let through
	//          again and the next round stores 0 (a latent oddity of the clamp, see notes/coverage/C20-triage.md; it
	//          lets more through, never less, so no clause of the property is touched)
	for i := 0; i < 25*c.Scale; i++ {
		T := r.Range(1, 9)
		U := hx.Pick(r, []int{0, 1, 4})
		nsrc := r.Range(1, 3)
		var ops []hx.Sx
		t := int64(0)
		for j := r.Range(50, 300); j > 0; j-- {
			switch r.Intn(8) {
			case 0:
				ops = append(ops, c20Maint)
				continue
			case 1:
				t += 2
			}
			ops = append(ops, c20Ev(r.Intn(nsrc), r.Chance(1, 30), t, none, none))
		}
		c.Do("antispam-int32-inrange", 8, c20AsCase(T, 2, U, 0, 0, nil, nsrc, ops), true)
	}
	for i := 0; i < 40*c.Scale; i++ {
		T := hx.Pick(r, []int{1, 2, 3, 5})
		U := hx.Pick(r, []int{(1<<31)/T + 1, 1 << 30, 1<<31 - 1, 1 << 31, (1<<31 - 1) / T, (1<<31-1)/T + 1})
		if U*T > 1<<31-1 {
			c.W.Count("antispam-int32-clamp:ban-value-clamped")
		} else {
			c.W.Count("antispam-int32-clamp:ban-value-fits")
		}
		var ops []hx.Sx
		t := int64(0)
		for j := 0; j < T; j++ {
			ops = append(ops, c20Ev(0, false, t, none, none)) // up to the ban
		}
		for j := r.Range(3, 25); j > 0; j-- {
			switch r.Intn(6) {
			case 0, 1:
				ops = append(ops, c20Maint)
			case 2:
				t += 2
				ops = append(ops, c20Ev(0, false, t, none, none)) // slow: the counter is read, not incremented
			case 3:
				ops = append(ops, c20Ev(0, r.Chance(1, 4), t, none, none))
			default:
				ops = append(ops, c20Ev(r.Intn(2), false, t, none, none))
			}
		}
		c.Do("antispam-int32-clamp", 8, c20AsCase(T, 2, U, 0, 0, nil, 2, ops), true)
	}

	// ---- 20. first events of one source id from several goroutines at once (with source_name_meta_field several files
	//          of one pod share an id): the entry is created once and no count is lost. A group of T-1 identical quick
	//          events (any interleaving looks like the sequential run: all below the threshold), then ONE event that
	//          must be the T-th, two rounds that delete the entry, and again.
	for i := 0; i < 12*c.Scale; i++ {
		T := r.Range(3, 9)
		var groups []int
		var ops []hx.Sx
		for g := r.Range(10, 30); g > 0; g-- {
			n := T - 1
			if r.Chance(1, 3) {
				n = r.Range(2, T-1)
			}
			groups = append(groups, n)
			for j := 0; j < n; j++ {
				ops = append(ops, c20Ev(0, false, 0, none, none))
			}
			groups = append(groups, 1, 1, 1, 1, 1, 1, 1)
			ops = append(ops, c20Ev(0, false, 0, none, none), c20Maint, c20Maint, c20Maint, c20Maint, c20Maint, c20Maint)
		}
		c.W.Count("antispam-concurrent:groups")
		c.Do("antispam-concurrent-create", 9, hx.L(hx.List(groups, hx.I), c20AsCase(T, 1, 4, 0, 0, nil, 1, ops)), true)
	}

	// ---- 21. the real pipeline with its other options (which = 6)
	for i := 0; i < 120*c.Scale; i++ {
		dec := r.Intn(4)
		max := hx.Pick(r, []int{0, 9, 12, 16, 20})
		hdr := 0
		var header []byte
		switch dec {
		case 2:
			header = []byte("2016-10-06T00:17:09.669794202Z stdout F ")
		case 3:
			header = []byte("2021-06-22 16:24:27 GMT [7291] => [3-1] client=c,db=d,user=u LOG:  ")
		}
		hdr = len(header)
		if hdr > 0 {
			max = hx.Pick(r, []int{0, hdr + 1, hdr + 4, hdr + 10, hdr + 24}) // a cut keeps the header
		}
		cutoff, mark := r.Bool(), r.Bool()
		T := hx.Pick(r, []int{-1, 0, 2, 3, 5, 8})
		nsrc, nmeta := r.Range(1, 3), r.Range(1, 2)
		streams := !r.Chance(1, 4)
		metaOn := r.Chance(1, 2)
		pool, spread, auto := r.Intn(3), r.Chance(1, 4), r.Intn(3)
		c.W.Count("pipeline-opts-config:decoder-" + c20DecName[dec] + map[int]string{0: "", 1: "-auto", 2: "-auto"}[auto])
		if !streams {
			c.W.Count("pipeline-opts-config:streams-disabled")
		}
		if metaOn {
			c.W.Count("pipeline-opts-config:source-name-meta-field")
		}
		refuser := r.Chance(1, 6) // an input that refuses most events: more than the pool holds
		var ops []hx.Sx
		for j := r.Range(20, 80); j > 0; j-- {
			if r.Chance(1, 9) {
				ops = append(ops, c20Maint)
				continue
			}
			var b []byte
			valid := 1
			arrayRoot := false
			switch dec {
			case 0:
				k := r.Intn(26)
				if max > 0 && r.Chance(1, 2) {
					k = max + r.Range(-2, 2)
				}
				for ; k > 0; k-- {
					b = append(b, "abcdefgh {}\""[r.Intn(12)])
				}
			case 1:
				k := r.Intn(14)
				switch {
				case r.Chance(1, 6): // an array root: the meta goes into each of its objects
					b = append(append([]byte(`[{"m":"`), bytes.Repeat([]byte{'a'}, k%4)...), `"},7,{"n":1}]`...)
					arrayRoot = true
					c.W.Count("pipeline-opts-op:json-array-root")
				default:
					b = append(append([]byte(`{"m":"`), bytes.Repeat([]byte{'a'}, k)...), `"}`...)
				}
				if r.Chance(1, 8) {
					valid = 0
					b = append([]byte(`{"m":"`), bytes.Repeat([]byte{'a'}, k)...) // never closed
				}
			default:
				k := r.Intn(16)
				if max > 0 && r.Chance(1, 2) {
					k = max - hdr + r.Range(-2, 2)
				}
				if r.Chance(1, 8) {
					valid = 0 // no space at all: both decoders fail on it and on every prefix
					b = bytes.Repeat([]byte{'x'}, 30+r.Intn(20))
				} else {
					b = append(b, header...)
					if dec == 2 && r.Chance(1, 4) {
						valid = 2
						b[len(b)-2] = 'P'
					}
					for ; k > 0; k-- {
						b = append(b, "abcdefgh {}\""[r.Intn(12)])
					}
				}
			}
			if r.Chance(2, 3) {
				b = append(b, '\n')
			}
			if arrayRoot && valid == 1 && cutoff && mark && max > 0 && len(b) == max+1 && b[max] == '\n' {
				// the cut takes the newline only, the array is still decodable and must carry the mark in its objects
				// (repaired defect C20-cut-mark-array-root, family 21b below)
				c.W.Count("pipeline-opts-op:json-array-root-cut-keeps-it-decodable")
			}
			if r.Chance(1, 25) {
				b = []byte("\n")[:r.Intn(2)]
				valid = 0
			}
			cur := int64(r.Range(0, 50))
			soff := int64(-1)
			if r.Chance(1, 5) {
				soff = cur + int64(r.Range(-1, 2))
			}
			pass := !r.Chance(1, 4)
			if refuser {
				pass = r.Chance(1, 8)
			}
			meta := -1
			if r.Chance(1, 2) {
				meta = r.Intn(nmeta)
			}
			switch {
			case !pass && streams:
				c.W.Count("pipeline-opts-op:input-says-committed")
			case !pass:
				c.W.Count("pipeline-opts-op:input-would-refuse-but-streams-disabled")
			case metaOn && meta >= 0:
				c.W.Count("pipeline-opts-op:keyed-by-meta")
			case metaOn:
				c.W.Count("pipeline-opts-op:meta-field-absent")
			default:
				c.W.Count("pipeline-opts-op:plain")
			}
			ops = append(ops, hx.L(hx.I(1), hx.I(r.Intn(nsrc)), hx.Bool(r.Chance(1, 12)), hx.Z(cur), hx.Z(soff), hx.I(hdr),
				hx.B(b), hx.I(valid), hx.Bool(pass), hx.I(meta)))
		}
		c.Do("pipeline-in-options", 6, hx.L(
			hx.L(hx.I(max), hx.Bool(cutoff), hx.Bool(mark), hx.I(dec), hx.I(T), hx.I(pipeline.VerifC20UnbanIterations), hx.I(nsrc), hx.I(nmeta)),
			hx.L(hx.Bool(streams), hx.Bool(metaOn), hx.I(pool), hx.Bool(spread), hx.I(auto)),
			hx.L(ops...)), true)
	}

	// ---- 21b. REPAIRED DEFECT C20-cut-mark-array-root (notes/finding-C20-cut-mark-array-root.md, /repo fix db5adcf): an
	//           oversize JSON record that is still decodable after the cut (the cut takes the newline / trailing blanks
	//           only) was delivered WITHOUT the configured mark when its root is an array: In set the mark with
	//           Root.AddFieldNoAlloc, a no-op on a non-object. It now puts the mark into every object of an array root
	//           (as the meta a few lines above). Object roots of the same length are marked as before.
	{
		for _, w := range []string{
			`[{"m":""},7,{"n":1}]` + "\n",
			`[{"m":"aa"},{"n":1}]` + "\n",
			`[{"m":"aaaaaaaaaa"}]` + "\n",
			`{"m":"aaaaaaaaaaaa"}` + "\n", // an object root: marked before the repair too
		} {
			for _, metaOn := range []bool{false, true} {
				op := hx.L(hx.I(1), hx.I(0), hx.Bool(false), hx.Z(0), hx.Z(-1), hx.I(0), hx.B([]byte(w)), hx.I(1), hx.Bool(true), hx.I(0))
				c.Do("pipeline-cut-mark-array-root", 6, hx.L(
					hx.L(hx.I(20), hx.Bool(true), hx.Bool(true), hx.I(1), hx.I(-1), hx.I(pipeline.VerifC20UnbanIterations), hx.I(1), hx.I(1)),
					hx.L(hx.Bool(true), hx.Bool(metaOn), hx.I(0), hx.Bool(false), hx.I(0)),
					hx.L(op, op)), true)
			}
		}
	}

	// ---- 22. the pipeline's own maintenance goroutine (which = 7): a burst, then silence until the entry is gone
	for _, tn := range [][2]int{{3, 5}, {2, 1}, {1, 1}, {4, 4}, {-1, 3}, {2, 7}} {
		if c.Tier != "thorough" && tn[0] == 2 && tn[1] == 7 {
			continue
		}
		c.Do("pipeline-maintenance-tick", 7, hx.L(hx.I(tn[0]), hx.I(pipeline.VerifC20UnbanIterations), hx.I(tn[1]), hx.I(30)), true)
	}
}
