package main

// C20 — admission control. Runs the REAL Pipeline.checkInputBytes, the REAL Antispammer
// (IsSpam with the event time as a parameter, Maintenance called directly: deterministic) and the
// REAL Pipeline.In of a started pipeline with a recording output.
//
//  which=0  case = (#record max cutoff)                obs = (0) refused | (1 #bytes cutoff) | (2) panic
//  which=1  case = (T MI U mode nexc (rule_thr ...) nsrc (op ...))
//             mode 0: rules == nil and nexc exceptions; mode 1: rules with the listed thresholds
//             op = (0) Maintenance | (1 id isNew t (exception_bit ...) (rule_bit ...))
//           obs = per op: IsSpam verdict 0/1 | (counter of every source after the round, -1 = no entry)
//           predicate: the residual-aware ban-onset statement, exceptions/disabled never, unban
//  which=2  as which=1, predicate: the property's own wording of ban onset (known finding)
//  which=3  case = (max cutoff mark dec T U nsrc (op ...)),  dec 0 raw | 1 json | 2 cri
//             op = (0) antispam Maintenance | (1 id isNew cur soff #record valid)
//             valid 0 garbage | 1 well-formed (cri: full row) | 2 cri partial row; soff is the saved
//             offset of every stream name (stdout, stderr and "" — the last one must be ignored)
//           obs = per op: (0) In returned 0 | (1 #payload mark) delivered | (2) panic | (3) accepted
//                 but never delivered;  Maintenance: (counters)
//  which=4  the real Antispammer with exceptions as concrete matchrule rule sets: see rules.go
//  which=5  as which=3 with CRI rows that carry their own time / stream and per-stream saved offsets: see critimes.go
//  which=6  the real pipeline with its other options (PassEvent of the input, DisableStreams, source_name_meta_field, meta,
//           postgres decoder, decoder "auto", pool type, spread), 7 its own maintenance ticker, 8 the int32 model on the
//           which=1 cases, 9 first events of a source from several goroutines: see cov.go

import (
	"bytes"
	"fmt"
	"strconv"
	"time"

	"github.com/ozontech/file.d/cfg/matchrule"
	"github.com/ozontech/file.d/metric"
	"github.com/ozontech/file.d/pipeline"
	"github.com/ozontech/file.d/pipeline/antispam"
	"github.com/ozontech/file.d/pipeline/doif"
	"github.com/ozontech/file.d/plugin/input/fake"
	"github.com/ozontech/file.d/plugin/output/devnull"
	"github.com/prometheus/client_golang/prometheus"
	"go.uber.org/zap"

	"verif/harness/hmain"
	"verif/harness/hx"
)

var c20W *hx.Writer // for oracle checks (nil in --replay)

// ---- which = 0 -----------------------------------------------------------------------------------
type c20Key struct {
	max    int
	cutoff bool
}

var c20Pipes = map[c20Key]*pipeline.Pipeline{}

func c20Settings() *pipeline.Settings {
	return &pipeline.Settings{
		Capacity:            64,
		Decoder:             "raw",
		AvgEventSize:        256,
		MaintenanceInterval: time.Hour,
		EventTimeout:        time.Hour,
		StreamField:         "stream",
		MetaCacheSize:       16,
		Pool:                pipeline.PoolTypeStd,
		Antispam:            pipeline.AntispamSettings{Threshold: -1, MaintenanceInterval: time.Hour},
		Metric: &pipeline.MetricSettings{
			HoldDuration:        pipeline.DefaultMetricHoldDuration,
			MaxLabelValueLength: pipeline.DefaultMetricMaxLabelValueLength,
		},
	}
}

func c20CheckPipe(max int, cutoff bool) *pipeline.Pipeline {
	k := c20Key{max, cutoff}
	if p, ok := c20Pipes[k]; ok {
		return p
	}
	s := c20Settings()
	s.MaxEventSize = max
	s.CutOffEventByLimit = cutoff
	p := pipeline.New("c20_"+strconv.Itoa(len(c20Pipes)), s, prometheus.NewRegistry(), zap.NewNop())
	c20Pipes[k] = p
	return p
}

func c20Admit(cs hx.Sx) hx.Sx {
	it := hx.Items(cs)
	rec := hx.Bytes(it[0])
	max := int(hx.Int(it[1]))
	cutoff := hx.Truth(it[2])
	p := c20CheckPipe(max, cutoff)
	// the record is handed over as the callers do: a window of a larger buffer; the bytes after the
	// window must stay untouched
	const guard = 8
	buf := make([]byte, len(rec)+guard)
	copy(buf, rec)
	for i := len(rec); i < len(buf); i++ {
		buf[i] = 0xEE
	}
	var out []byte
	var cut, ok bool
	if msg := hx.Catch(func() { out, cut, ok = p.VerifC20CheckInputBytes(buf[:len(rec)], "src", nil) }); msg != "" {
		return hx.L(hx.I(2))
	}
	for i := len(rec); i < len(buf); i++ {
		if buf[i] != 0xEE {
			return hx.L(hx.I(9), hx.S("write outside the record"))
		}
	}
	if !ok {
		return hx.L(hx.I(0))
	}
	return hx.L(hx.I(1), hx.B(out), hx.Bool(cut))
}

// ---- which = 1, 2 ----------------------------------------------------------------------------------
func c20ExcToken(i int) string  { return "E" + strconv.Itoa(i) + ";" }
func c20RuleToken(j int) string { return "R" + strconv.Itoa(j) + ";" }

func c20Antispam(cs hx.Sx) hx.Sx {
	it := hx.Items(cs)
	T, MI, U := int(hx.Int(it[0])), hx.Int(it[1]), int(hx.Int(it[2]))
	mode, nexc := int(hx.Int(it[3])), int(hx.Int(it[4]))
	rthr := hx.Items(it[5])
	nsrc := int(hx.Int(it[6]))
	ops := hx.Items(it[7])

	// exception i: "contains E<i>;" — odd i look at the source name, even i at the event
	var exc antispam.Exceptions
	for i := 0; i < nexc; i++ {
		exc = append(exc, antispam.Exception{
			RuleSet: matchrule.RuleSet{
				Name:  "e" + strconv.Itoa(i),
				Cond:  matchrule.CondOr,
				Rules: []matchrule.Rule{{Mode: matchrule.ModeContains, Values: []string{c20ExcToken(i)}}},
			},
			CheckSourceName: i%2 == 1,
		})
	}
	exc.Prepare()
	// rule j: do_if "contains R<j>;" — j = 0 on event, 1 on source_name, 2 on meta.tag; j >= 3: a field the antispam data
	// does not have (c20DeadFields: Get returns nil, the rule can never match although its token is planted everywhere)
	var rules antispam.Rules
	if mode == 1 {
		rules = antispam.Rules{}
		for j, th := range rthr {
			field := c20RuleField(j)
			ck, err := doif.NewFromMap(map[string]any{"op": "contains", "field": field, "values": []any{c20RuleToken(j)}})
			if err != nil {
				panic(err)
			}
			rules = append(rules, antispam.Rule{Name: "r" + strconv.Itoa(j), Threshold: int(hx.Int(th)), DoIfChecker: ck})
		}
	}
	a := antispam.NewAntispammer(&antispam.Options{
		MaintenanceInterval: time.Duration(MI),
		Threshold:           T,
		UnbanIterations:     U,
		Exceptions:          exc,
		Rules:               rules,
		Logger:              zap.NewNop(),
		MetricsController:   metric.NewCtl("c20", prometheus.NewRegistry(), time.Minute, 0),
	})
	out := make([]hx.Sx, 0, len(ops))
	for _, op := range ops {
		o := hx.Items(op)
		if hx.Int(o[0]) == 0 {
			if msg := hx.Catch(a.Maintenance); msg != "" {
				out = append(out, hx.S(msg))
				continue
			}
			cnt := make([]hx.Sx, nsrc)
			for i := 0; i < nsrc; i++ {
				if c, ok := a.VerifC20Counter(strconv.Itoa(i)); ok {
					cnt[i] = hx.I(int(c))
				} else {
					cnt[i] = hx.I(-1)
				}
			}
			out = append(out, hx.L(cnt...))
			c20CheckDump(a.Dump(), T, nsrc, func(i int) string { return strconv.Itoa(i) }, a.VerifC20Counter)
			continue
		}
		id := int(hx.Int(o[1]))
		isNew := hx.Truth(o[2])
		t := hx.Int(o[3])
		name := "src" + strconv.Itoa(id) + "|"
		ev := `{"m":"`
		tag := "t|"
		for i, b := range hx.Items(o[4]) {
			if hx.Truth(b) {
				if i%2 == 1 {
					name += c20ExcToken(i)
				} else {
					ev += c20ExcToken(i)
				}
			}
		}
		unrealisable := false
		for j, b := range hx.Items(o[5]) {
			switch {
			case j >= 3: // a dead field: its token is planted in all three carriers and must still not match
				name += c20RuleToken(j)
				ev += c20RuleToken(j)
				tag += c20RuleToken(j)
				unrealisable = unrealisable || hx.Truth(b)
			case !hx.Truth(b):
			case j == 0:
				ev += c20RuleToken(j)
			case j == 1:
				name += c20RuleToken(j)
			default:
				tag += c20RuleToken(j)
			}
		}
		ev += `"}`
		if unrealisable {
			out = append(out, hx.S("case asks a rule on a missing field to match"))
			continue
		}
		var meta map[string]string
		if len(hx.Items(o[5])) > 2 {
			meta = map[string]string{"tag": tag, "other": c20RuleToken(2)}
		}
		if c20W != nil {
			for i, b := range hx.Items(o[4]) {
				if i < len(exc) {
					data := []byte(ev)
					if exc[i].CheckSourceName {
						data = []byte(name)
					}
					c20W.Oracle("matchrule: exception i matches iff its token was put into the event / source name",
						exc[i].Match(data) == hx.Truth(b), fmt.Sprintf("exception %d on %q / %q", i, ev, name))
				}
			}
		}
		var spam bool
		if msg := hx.Catch(func() { spam = a.IsSpam(strconv.Itoa(id), name, isNew, []byte(ev), time.Unix(0, t), meta) }); msg != "" {
			out = append(out, hx.S(msg))
			continue
		}
		out = append(out, hx.Bool(spam))
	}
	return hx.L(out...)
}

// ---- which = 3 ---------------------------------------------------------------------------------------
type c20Out struct {
	payload []byte
	mark    bool
}

var c20PipeSeq int

func c20Pipeline(cs hx.Sx) hx.Sx {
	it := hx.Items(cs)
	max := int(hx.Int(it[0]))
	cutoff, mark := hx.Truth(it[1]), hx.Truth(it[2])
	dec := int(hx.Int(it[3]))
	T := int(hx.Int(it[4]))
	nsrc := int(hx.Int(it[6]))
	ops := hx.Items(it[7])

	s := c20Settings()
	s.MaxEventSize = max
	s.CutOffEventByLimit = cutoff
	if mark {
		s.CutOffEventByLimitField = "cut"
	}
	if dec == 1 {
		s.Decoder = "json"
	}
	if dec == 2 {
		s.Decoder = "cri"
	}
	s.Antispam.Threshold = T
	v5 := len(it) > 8 // which = 5: (… (op ...) MI), ops carry per-stream saved offsets, the stream and the row time
	if v5 {
		// the event-time window of IsSpam; the pipeline's own maintenance goroutine sleeps for the same duration, so
		// the generator only uses values far above the run time of a case (it never fires)
		s.Antispam.MaintenanceInterval = time.Duration(hx.Int(it[8]))
	}
	c20PipeSeq++
	p := pipeline.New("c20_in_"+strconv.Itoa(c20PipeSeq), s, prometheus.NewRegistry(), zap.NewNop())
	p.DisableParallelism()
	in, _ := fake.Factory()
	p.SetInput(&pipeline.InputPluginInfo{
		PluginStaticInfo:  &pipeline.PluginStaticInfo{Type: "fake"},
		PluginRuntimeInfo: &pipeline.PluginRuntimeInfo{Plugin: in.(*fake.Plugin)},
	})
	outp, _ := devnull.Factory()
	dn := outp.(*devnull.Plugin)
	p.SetOutput(&pipeline.OutputPluginInfo{
		PluginStaticInfo:  &pipeline.PluginStaticInfo{Type: "devnull"},
		PluginRuntimeInfo: &pipeline.PluginRuntimeInfo{Plugin: dn},
	})
	got := make(chan c20Out, 16)
	dn.SetOutFn(func(e *pipeline.Event) {
		var o c20Out
		if n := e.Root.Dig("cut"); n != nil {
			o.mark = n.AsBool()
			n.Suicide()
		}
		if dec == 0 || dec == 2 {
			field := "message"
			if dec == 2 {
				field = "log"
			}
			if n := e.Root.Dig(field); n != nil {
				o.payload = append([]byte(nil), n.AsString()...)
			} else {
				o.payload = []byte("NO-MESSAGE-FIELD")
			}
		} else {
			o.payload = []byte(e.Root.EncodeToString())
		}
		got <- o
	})
	p.Start()
	defer p.Stop()

	out := make([]hx.Sx, 0, len(ops))
	for _, op := range ops {
		o := hx.Items(op)
		if hx.Int(o[0]) == 0 {
			p.VerifC20AntispamMaintenance()
			cnt := make([]hx.Sx, nsrc)
			for i := 0; i < nsrc; i++ {
				if c, ok := p.VerifC20AntispamCounter(strconv.Itoa(i + 1)); ok {
					cnt[i] = hx.I(int(c))
				} else {
					cnt[i] = hx.I(-1)
				}
			}
			out = append(out, hx.L(cnt...))
			continue
		}
		id := int(hx.Int(o[1]))
		isNew := hx.Truth(o[2])
		cur := hx.Int(o[3])
		var rec []byte
		var offs pipeline.Offsets
		if v5 {
			so := hx.Items(o[4])
			rec = hx.Bytes(o[7])
			m := map[pipeline.StreamName]int64{}
			for k, name := range []pipeline.StreamName{"stdout", "stderr", ""} {
				if v := hx.Int(so[k]); v != -2 { // -2: the stream has no saved offset
					m[name] = v
				}
			}
			offs = pipeline.NewOffsets(cur, pipeline.SliceFromMap(m))
		} else {
			soff := hx.Int(o[4])
			rec = hx.Bytes(o[5])
			offs = pipeline.NewOffsets(cur, pipeline.SliceFromMap(map[pipeline.StreamName]int64{"": soff, "stdout": soff, "stderr": soff}))
		}
		var seq uint64
		if msg := hx.Catch(func() {
			seq = p.In(pipeline.SourceID(id+1), "src"+strconv.Itoa(id), offs, rec, isNew, nil)
		}); msg != "" {
			out = append(out, hx.L(hx.I(2)))
			continue
		}
		if seq == pipeline.EventSeqIDError {
			out = append(out, hx.L(hx.I(0)))
			continue
		}
		select {
		case g := <-got:
			out = append(out, hx.L(hx.I(1), hx.B(g.payload), hx.Bool(g.mark)))
		case <-time.After(5 * time.Second):
			out = append(out, hx.L(hx.I(3)))
		}
	}
	return hx.L(out...)
}

func c20Exec(which int, cs hx.Sx) hx.Sx {
	switch which {
	case 0:
		return c20Admit(cs)
	case 1, 2:
		return c20Antispam(cs)
	case 3, 5:
		return c20Pipeline(cs)
	case 4:
		return c20RulesExec(cs)
	case 6:
		return c20PipeOpts(cs)
	case 7:
		return c20Tick(cs)
	case 8:
		return c20Antispam(cs)
	case 9:
		return c20Concurrent(cs)
	}
	panic("c20: unknown which")
}

// ---- generators ----------------------------------------------------------------------------------------
func c20AsCase(T int, MI int64, U, mode, nexc int, rthr []int, nsrc int, ops []hx.Sx) hx.Sx {
	return hx.L(hx.I(T), hx.Z(MI), hx.I(U), hx.I(mode), hx.I(nexc), hx.List(rthr, hx.I), hx.I(nsrc), hx.L(ops...))
}

func c20Bits(n int, f func(i int) bool) hx.Sx {
	xs := make([]hx.Sx, n)
	for i := range xs {
		xs[i] = hx.Bool(f(i))
	}
	return hx.L(xs...)
}

func c20Ev(id int, isNew bool, t int64, eb, rb hx.Sx) hx.Sx {
	return hx.L(hx.I(1), hx.I(id), hx.Bool(isNew), hx.Z(t), eb, rb)
}

var c20Maint = hx.L(hx.I(0))

// the residual scenario: T+e quick events (banned at the T-th), U rounds (unbanned, residual e),
// then T-e quick events: the last one is flagged
func c20Residual(T, U, e int) hx.Sx {
	none := hx.L()
	var ops []hx.Sx
	for i := 0; i < T+e; i++ {
		ops = append(ops, c20Ev(0, false, 0, none, none))
	}
	for i := 0; i < U; i++ {
		ops = append(ops, c20Maint)
	}
	for i := 0; i < T-e; i++ {
		ops = append(ops, c20Ev(0, false, 0, none, none))
	}
	return c20AsCase(T, 1, U, 0, 0, nil, 1, ops)
}

func c20Gen(c *hmain.Ctx) {
	c20W = c.W
	r := c.R
	none := hx.L()

	// ---- 1. checkInputBytes, exhaustive small scope: every record over {a,\n} up to length L x max 0..L+1 x cutoff
	L := 6
	if c.Tier == "thorough" {
		L = 9
	}
	var rec func(b []byte)
	rec = func(b []byte) {
		for max := 0; max <= L+1; max++ {
			for cut := 0; cut < 2; cut++ {
				c.Do("admit-exhaustive", 0, hx.L(hx.B(b), hx.I(max), hx.I(cut)), max > 0 && len(b) > max)
			}
		}
		if len(b) < L {
			rec(append(b[:len(b):len(b)], 'a'))
			rec(append(b[:len(b):len(b)], '\n'))
		}
	}
	rec(nil)

	// ---- 2. checkInputBytes, sizes around the limit x trailing newline x cutoff
	limits := []int{1, 2, 3, 5, 8, 16, 64, 100, 1000, 4096}
	for i := 0; i < 3000*c.Scale; i++ {
		max := hx.Pick(r, limits)
		n := max + r.Range(-3, 3)
		switch r.Intn(8) {
		case 0:
			n = r.Intn(3 * max)
		case 1:
			n = max + 1
		case 2:
			n = max
		}
		if n < 0 {
			n = 0
		}
		b := make([]byte, n)
		for j := range b {
			b[j] = "abcdefgh{}\":, \r"[r.Intn(15)]
			if r.Chance(1, 40) {
				b[j] = '\n'
			}
		}
		nl := r.Bool()
		if nl && n > 0 {
			b[n-1] = '\n'
		}
		cut := r.Bool()
		if r.Chance(1, 10) {
			max = 0
		}
		c.Do("admit-around-limit", 0, hx.L(hx.B(b), hx.I(max), hx.Bool(cut)), max > 0 && n > max)
		switch {
		case max == 0:
			c.W.Count("admit:no-limit")
		case n > max && cut && nl:
			c.W.Count("admit:oversize-cut-newline")
		case n > max && cut:
			c.W.Count("admit:oversize-cut")
		case n > max:
			c.W.Count("admit:oversize-refused")
		case n == max:
			c.W.Count("admit:at-limit")
		default:
			c.W.Count("admit:below-limit")
		}
	}
	// ---- 3. adversarial settings / records: negative limit (bytes[:max] panics), only newlines, huge
	for i := 0; i < 300*c.Scale; i++ {
		var b []byte
		switch r.Intn(4) {
		case 0:
			b = bytes.Repeat([]byte{'\n'}, r.Intn(5))
		case 1:
			b = bytes.Repeat([]byte{0xff, 0, '\n'}, r.Intn(4))
		case 2:
			b = bytes.Repeat([]byte{'x'}, r.Intn(20000))
		default:
			b = []byte("ab\n")[:r.Intn(4)]
		}
		max := hx.Pick(r, []int{-1, -5, 0, 1, 2, 19999, 20000})
		c.Do("admit-adversarial", 0, hx.L(hx.B(b), hx.I(max), hx.Bool(r.Bool())), max < 0)
		if max < 0 {
			c.W.Count("admit:negative-limit")
		}
	}

	// ---- 4. antispam, exhaustive small scope: one source, every op sequence up to length K over
	//         {quick event, slow event, new-source event, Maintenance} x T in 1..3 x U in 1..2
	K := 6
	if c.Tier == "thorough" {
		K = 8
	}
	for T := 1; T <= 3; T++ {
		for U := 1; U <= 2; U++ {
			var seq func(ops []hx.Sx, t int64, kinds int)
			seq = func(ops []hx.Sx, t int64, kinds int) {
				if len(ops) > 0 {
					c.Do("antispam-exhaustive", 1, c20AsCase(T, 2, U, 0, 0, nil, 1, ops), kinds&9 == 9 && len(ops) > T)
				}
				if len(ops) >= K {
					return
				}
				base := ops[:len(ops):len(ops)]
				seq(append(base, c20Ev(0, false, t, none, none)), t, kinds|1)
				seq(append(base, c20Ev(0, false, t+2, none, none)), t+2, kinds|2)
				seq(append(base, c20Ev(0, true, t, none, none)), t, kinds|4)
				seq(append(base, c20Maint), t, kinds|8)
			}
			seq(nil, 0, 0)
		}
	}

	// ---- 5. antispam, random op sequences: several sources, gaps around MI, rounds at random
	nops := 0
	for i := 0; i < 120*c.Scale; i++ {
		T := r.Range(1, 12)
		U := 4
		if r.Chance(1, 4) {
			U = r.Range(0, 5)
		}
		MI := hx.Pick(r, []int64{1, 5, 100, 1000000000})
		nsrc := r.Range(1, 4)
		n := r.Range(100, 1500)
		pm := hx.Pick(r, []int{20, 8, 3}) // one op in pm is a round
		var ops []hx.Sx
		t := int64(r.Intn(1000))
		burst := 0
		bursty := 0
		for j := 0; j < n; j++ {
			if r.Intn(pm) == 0 {
				ops = append(ops, c20Maint)
				c.W.Count("antispam-op:maintenance")
				if r.Chance(1, 6) { // a silent stretch: several rounds in a row
					for k := r.Range(1, U+2); k > 0; k-- {
						ops = append(ops, c20Maint)
					}
				}
				continue
			}
			if burst == 0 && r.Chance(1, 10) {
				burst = r.Range(T, 3*T+2)
				bursty = r.Intn(nsrc)
			}
			id := r.Intn(nsrc)
			var gap int64
			switch r.Intn(7) {
			case 0:
				gap = MI
			case 1:
				gap = MI - 1
			case 2:
				gap = MI + 1
			case 3:
				gap = -int64(r.Intn(3))
			case 4:
				gap = MI * int64(r.Range(2, 5))
			default:
				gap = 0
			}
			if burst > 0 {
				burst--
				id = bursty
				if r.Chance(4, 5) {
					gap = 0
				}
			}
			t += gap
			isNew := r.Chance(1, 25)
			if isNew {
				c.W.Count("antispam-op:new-source-event")
			} else if gap < MI {
				c.W.Count("antispam-op:quick-event")
			} else {
				c.W.Count("antispam-op:slow-event")
			}
			ops = append(ops, c20Ev(id, isNew, t, none, none))
		}
		nops += len(ops)
		c.Do("antispam-random", 1, c20AsCase(T, MI, U, 0, 0, nil, nsrc, ops), true)
	}
	c.W.Dist["antispam-random:ops"] = nops

	// ---- 6. exceptions and rules (thresholds -1 / 0 included), a few sources
	for i := 0; i < 400*c.Scale; i++ {
		T := hx.Pick(r, []int{-1, 0, 1, 2, 3, 5, 8})
		mode := r.Intn(2)
		nexc := r.Intn(4)
		var rthr []int
		if mode == 1 {
			for k := r.Range(1, 3); k > 0; k-- {
				rthr = append(rthr, hx.Pick(r, []int{-1, 0, 2, 4}))
			}
		}
		nsrc := r.Range(1, 3)
		uniformRules := r.Bool() // the rule an event matches is a function of its source
		var ops []hx.Sx
		t := int64(0)
		for j := r.Range(10, 120); j > 0; j-- {
			if r.Chance(1, 8) {
				ops = append(ops, c20Maint)
				continue
			}
			id := r.Intn(nsrc)
			if r.Chance(1, 3) {
				t += 3
			}
			eb := c20Bits(nexc, func(int) bool { return r.Chance(1, 5) })
			rb := c20Bits(len(rthr), func(k int) bool {
				if uniformRules {
					return k == id
				}
				return r.Chance(1, 3)
			})
			ops = append(ops, c20Ev(id, r.Chance(1, 30), t, eb, rb))
		}
		c.W.Count(fmt.Sprintf("antispam-config:mode%d-threshold%d", mode, T))
		stream := "antispam-exceptions-rules"
		if mode == 1 && !uniformRules {
			stream = "antispam-mixed-rules" // one source's events fall under different rules
		}
		c.Do(stream, 1, c20AsCase(T, 4, 4, mode, nexc, rthr, nsrc, ops), nexc > 0 || mode == 1)
	}

	// ---- 7. adversarial configurations: thresholds < -1, U = 0, MI <= 0, time going backwards
	for i := 0; i < 200*c.Scale; i++ {
		T := hx.Pick(r, []int{-3, -1, 0, 1, 2, 7})
		U := hx.Pick(r, []int{0, 0, 1, 4})
		MI := hx.Pick(r, []int64{-5, 0, 1, 3})
		nsrc := r.Range(1, 2)
		var ops []hx.Sx
		t := int64(0)
		for j := r.Range(5, 80); j > 0; j-- {
			if r.Chance(1, 5) {
				ops = append(ops, c20Maint)
				continue
			}
			t += int64(r.Range(-4, 4))
			ops = append(ops, c20Ev(r.Intn(nsrc), r.Chance(1, 10), t, none, none))
		}
		c.Do("antispam-adversarial", 1, c20AsCase(T, MI, U, 0, 0, nil, nsrc, ops), true)
	}

	// ---- 8. the residual re-ban scenario under the property's own wording (which=2: known finding)
	//         and, for the same cases, under the residual-aware statement (which=1: must hold)
	for T := 2; T <= 12; T++ {
		for _, U := range []int{1, 2, 4} {
			for _, e := range []int{1, T / 2, T - 1} {
				if e < 1 || e >= T {
					continue
				}
				cs := c20Residual(T, U, e)
				c.Do("residual-reban", 2, cs, true)
				c.Do("residual-weak", 1, cs, true)
			}
		}
	}

	// ---- 9. the real pipeline: In of a started pipeline, recording output
	for i := 0; i < 150*c.Scale; i++ {
		max := hx.Pick(r, []int{0, 9, 12, 16, 20})
		cutoff, mark := r.Bool(), r.Bool()
		dec := r.Intn(3)
		if dec == 2 {
			max = hx.Pick(r, []int{0, 41, 44, 50, 64}) // a cut keeps the 40-byte row header
		}
		T := hx.Pick(r, []int{-1, -1, 0, 3, 5, 8})
		if r.Chance(1, 40) {
			max = -2
		}
		nsrc := r.Range(1, 3)
		var ops []hx.Sx
		for j := r.Range(20, 90); j > 0; j-- {
			if r.Chance(1, 9) {
				ops = append(ops, c20Maint)
				c.W.Count("pipeline-op:maintenance")
				continue
			}
			var b []byte
			valid := 1
			if dec == 2 {
				// <30-byte time> SP std(out|err) SP (F|P) SP log
				k := r.Intn(16)
				if max > 0 && r.Chance(1, 2) {
					k = max - 40 + r.Range(-2, 2)
				}
				if r.Chance(1, 8) {
					valid = 0 // no space at all: DecodeCRI fails on it and on every prefix
					b = bytes.Repeat([]byte{'x'}, 30+k)
				} else {
					b = []byte("2016-10-06T00:17:09.669794202Z ")
					b = append(b, hx.Pick(r, []string{"stdout ", "stderr "})...)
					if r.Chance(1, 4) {
						valid = 2
						b = append(b, "P "...)
					} else {
						b = append(b, "F "...)
					}
					for ; k > 0; k-- {
						b = append(b, "abcdefgh {}\""[r.Intn(12)])
					}
				}
			} else if dec == 1 {
				// {"m":"aaa"} is 8 + k bytes
				k := r.Intn(14)
				b = append([]byte(`{"m":"`), bytes.Repeat([]byte{'a'}, k)...)
				if r.Chance(1, 8) {
					valid = 0 // never closed: no prefix of it is a JSON value
				} else {
					b = append(b, `"}`...)
				}
			} else {
				k := r.Intn(26)
				if max > 0 && r.Chance(1, 2) {
					k = max + r.Range(-2, 2)
				}
				for ; k > 0; k-- {
					b = append(b, "abcdefgh {}\""[r.Intn(12)])
				}
			}
			if r.Chance(2, 3) {
				b = append(b, '\n')
			}
			if r.Chance(1, 25) {
				b = []byte("\n")[:r.Intn(2)]
				valid = 0
			}
			cur := int64(r.Range(0, 50))
			soff := int64(-1)
			if r.Chance(1, 4) {
				soff = int64(r.Range(0, 60))
			} else if r.Chance(1, 3) {
				soff = cur + int64(r.Range(-1, 1)) // the boundary of currentOffset < streamOffset
			}
			switch {
			case len(b) <= 1:
				c.W.Count("pipeline-op:empty")
			case max > 0 && len(b) > max && cutoff:
				c.W.Count("pipeline-op:oversize-cut")
			case max > 0 && len(b) > max:
				c.W.Count("pipeline-op:oversize-nocut")
			case soff > 0 && cur < soff && dec == 2:
				c.W.Count("pipeline-op:committed-offset-cri")
			case soff > 0 && cur < soff:
				c.W.Count("pipeline-op:committed-offset-not-cri")
			default:
				c.W.Count("pipeline-op:plain")
			}
			ops = append(ops, hx.L(hx.I(1), hx.I(r.Intn(nsrc)), hx.Bool(r.Chance(1, 30)), hx.Z(cur), hx.Z(soff), hx.B(b), hx.I(valid)))
		}
		c.Do("pipeline-in", 3, hx.L(hx.I(max), hx.Bool(cutoff), hx.Bool(mark), hx.I(dec), hx.I(T),
			hx.I(pipeline.VerifC20UnbanIterations), hx.I(nsrc), hx.L(ops...)), true)
	}

	// new streams go last so that the random streams above keep their cases for a given seed
	c20GenRules(c)    // 10..14: matchrule shapes, threshold width
	c20GenCriTimes(c) // 15: the real pipeline, CRI rows with their own times / streams / saved offsets
	c20GenCov(c)      // 16..: what the coverage report showed no stream reached (cov.go)
}

func main() {
	hmain.Run(&hmain.Prop{ID: "C20",
		Rule: "admit-exhaustive: every record over {a,\\n} up to the tier's length x every limit 0..L+1 x cutoff; antispam-exhaustive: every op sequence over {quick, slow, new-source event, Maintenance} up to the tier's length x T in 1..3 x U in 1..2 on the real Antispammer; matchrule-exhaustive: one exception of one rule, every mode x case_insensitive x invert x five value sets, the data over every string over {a,b,B} up to the tier's length; random/adversarial streams as named. Non-trivial = oversize record with a limit / op sequence with events and a round longer than T / every random, rules, residual and pipeline case; distinct = distinct (sub-model, case) text.",
		Gen:  c20Gen, Exec: c20Exec})
}
