package main

// The harness' own naive reading of C18 (independent of cfg / the plugins / insane-json): selector
// split on unescaped dots, order-preserving subtract / project on trees, comparison exactly and up to
// key order.  It only decides under which stream a case is filed and the tag in its observable; the
// Coq predicate re-computes the same classification and any disagreement is reported as a Differ.

import (
	"strconv"

	"verif/harness/hx"
)

type jv struct {
	kind int // 0 null 1 bool 2 num 3 str 4 arr 5 obj 9 not-a-value
	b    bool
	s    string
	arr  []*jv
	keys []string
	vals []*jv
}

func fromSx(v hx.Sx) *jv {
	if hx.IsInt(v) {
		return &jv{kind: 0}
	}
	it := hx.Items(v)
	switch hx.Int(it[0]) {
	case 1:
		return &jv{kind: 1, b: hx.Truth(it[1])}
	case 2:
		return &jv{kind: 2, s: hx.Str(it[1])}
	case 3:
		return &jv{kind: 3, s: hx.Str(it[1])}
	case 4:
		j := &jv{kind: 4}
		for _, x := range it[1:] {
			j.arr = append(j.arr, fromSx(x))
		}
		return j
	case 5:
		j := &jv{kind: 5}
		for _, f := range it[1:] {
			kv := hx.Items(f)
			j.keys = append(j.keys, hx.Str(kv[0]))
			j.vals = append(j.vals, fromSx(kv[1]))
		}
		return j
	}
	return &jv{kind: 9}
}

func (j *jv) sx() hx.Sx {
	switch j.kind {
	case 0:
		return hx.I(0)
	case 1:
		return hx.L(hx.I(1), hx.Bool(j.b))
	case 2:
		return hx.L(hx.I(2), hx.S(j.s))
	case 3:
		return hx.L(hx.I(3), hx.S(j.s))
	case 4:
		items := []hx.Sx{hx.I(4)}
		for _, x := range j.arr {
			items = append(items, x.sx())
		}
		return hx.L(items...)
	case 5:
		items := []hx.Sx{hx.I(5)}
		for i, k := range j.keys {
			items = append(items, hx.L(hx.S(k), j.vals[i].sx()))
		}
		return hx.L(items...)
	}
	return hx.L(hx.I(9))
}

func (j *jv) uniq() bool {
	switch j.kind {
	case 4:
		for _, x := range j.arr {
			if !x.uniq() {
				return false
			}
		}
	case 5:
		seen := map[string]bool{}
		for i, k := range j.keys {
			if seen[k] || !j.vals[i].uniq() {
				return false
			}
			seen[k] = true
		}
	}
	return true
}

// selector -> path: "\." is a dot inside a name, every other dot separates, a final empty name is dropped
func splitSel(s string) []string {
	var out []string
	cur := []byte{}
	for i := 0; i < len(s); i++ {
		switch {
		case s[i] == '.':
			out = append(out, string(cur))
			cur = cur[:0]
		case s[i] == '\\' && i+1 < len(s) && s[i+1] == '.':
			cur = append(cur, '.')
			i++
		default:
			cur = append(cur, s[i])
		}
	}
	if len(cur) > 0 {
		out = append(out, string(cur))
	}
	return out
}

// an unescaped dot immediately followed by a dot
func hasDotDot(s string) bool {
	for i := 0; i < len(s); i++ {
		if s[i] == '\\' && i+1 < len(s) && s[i+1] == '.' {
			i++
			continue
		}
		if s[i] == '.' && i+1 < len(s) && s[i+1] == '.' {
			return true
		}
	}
	return false
}

func tails(k string, ps [][]string) (out [][]string, whole bool) {
	for _, p := range ps {
		if len(p) > 0 && p[0] == k {
			if len(p) == 1 {
				whole = true
			}
			out = append(out, p[1:])
		}
	}
	return
}

func subtract(ps [][]string, j *jv) *jv {
	if j.kind != 5 {
		return j
	}
	r := &jv{kind: 5}
	for i, k := range j.keys {
		ts, whole := tails(k, ps)
		if whole {
			continue
		}
		r.keys = append(r.keys, k)
		r.vals = append(r.vals, subtract(ts, j.vals[i]))
	}
	return r
}

func proj(ps [][]string, j *jv) *jv {
	if j.kind != 5 {
		return nil
	}
	r := &jv{kind: 5}
	for i, k := range j.keys {
		ts, whole := tails(k, ps)
		if whole {
			r.keys = append(r.keys, k)
			r.vals = append(r.vals, j.vals[i])
		} else if v := proj(ts, j.vals[i]); v != nil {
			r.keys = append(r.keys, k)
			r.vals = append(r.vals, v)
		}
	}
	if len(r.keys) == 0 {
		return nil
	}
	return r
}

func project(ps [][]string, j *jv) *jv {
	if j.kind != 5 {
		return j
	}
	if r := proj(ps, j); r != nil {
		return r
	}
	return &jv{kind: 5}
}

func eqExact(a, b *jv) bool {
	if a.kind != b.kind {
		return false
	}
	switch a.kind {
	case 1:
		return a.b == b.b
	case 2, 3:
		return a.s == b.s
	case 4:
		if len(a.arr) != len(b.arr) {
			return false
		}
		for i := range a.arr {
			if !eqExact(a.arr[i], b.arr[i]) {
				return false
			}
		}
	case 5:
		if len(a.keys) != len(b.keys) {
			return false
		}
		for i := range a.keys {
			if a.keys[i] != b.keys[i] || !eqExact(a.vals[i], b.vals[i]) {
				return false
			}
		}
	case 9:
		return false
	}
	return true
}

// equal up to the order of the fields of every object (arrays compared as they are)
func eqPerm(a, b *jv) bool {
	if a.kind != 5 {
		return eqExact(a, b)
	}
	if b.kind != 5 || len(a.keys) != len(b.keys) {
		return false
	}
	used := make([]bool, len(b.keys))
	for i, k := range a.keys {
		found := false
		for m, k2 := range b.keys {
			if !used[m] && k2 == k {
				if !eqPerm(a.vals[i], b.vals[m]) {
					return false
				}
				used[m], found = true, true
				break
			}
		}
		if !found {
			return false
		}
	}
	return true
}

// the paths ParseNestedFields keeps: no path that has another listed path as a prefix, no repeats
func dropNested(ps [][]string) [][]string {
	isPrefix := func(a, b []string) bool {
		if len(a) > len(b) {
			return false
		}
		for i := range a {
			if a[i] != b[i] {
				return false
			}
		}
		return true
	}
	var out [][]string
	for i, p := range ps {
		ok := true
		for m, q := range ps {
			if m == i {
				continue
			}
			if isPrefix(q, p) && (len(q) < len(p) || m < i) {
				ok = false
				break
			}
		}
		if ok {
			out = append(out, p)
		}
	}
	return out
}

// some path steps into an array with a valid index (where insane-json's Dig continues)
func arrHit(ps [][]string, j *jv) bool {
	switch j.kind {
	case 5:
		for i, k := range j.keys {
			ts, _ := tails(k, ps)
			if arrHit(ts, j.vals[i]) {
				return true
			}
		}
	case 4:
		for _, p := range ps {
			if len(p) == 0 {
				continue
			}
			if n, err := strconv.Atoi(p[0]); err == nil && n >= 0 && n < len(j.arr) {
				return true
			}
		}
	}
	return false
}

// 0 identical to the order-preserving specification | 1 only key order differs |
// 3 content differs and a path indexes an array | 2 content differs otherwise
func classify(keep bool, sels []string, before, after *jv) int {
	var ps [][]string
	for _, s := range sels {
		ps = append(ps, splitSel(s))
	}
	var spec *jv
	if keep {
		spec = project(ps, before)
	} else {
		spec = subtract(ps, before)
	}
	switch {
	case eqExact(after, spec):
		return 0
	case eqPerm(after, spec):
		return 1
	case !keep && arrHit(dropNested(ps), before):
		return 3
	}
	return 2
}
