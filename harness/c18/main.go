package main

// C18 — keep_fields / remove_fields select exactly the configured paths.
// Real code: the two plugins through the plugin registry (Factory, the configuration set directly or - every second case -
// decoded from JSON text by pipeline.GetConfig, Start/Do/Stop), cfg.ParseNestedFields,
// cfg.ParseFieldSelector, insane-json Dig/Suicide.
//
//	which=0 remove_fields, which=1 keep_fields
//	        case = ((#selector ...) event)      event in the encoding of coq/Base/Json.v
//	        obs  = (tag event-after) | (9 #panic)
//	        tag  = the harness' naive classification against the order-preserving specification:
//	               0 identical | 1 only key order differs | 3 content differs, a path indexes an array |
//	               2 content differs otherwise.   The stream name gets the suffix ~order-only /
//	               ~array-index / ~content / ~panic accordingly.
//	        The plugin instance processes the event twice (fresh decode): if the second result differs
//	        from the first, the second is reported.
//	which=2 cfg.ParseNestedFields   case = (#selector ...)  obs = (0 ((#seg ...) ...)) | (1 e) | (2)
//	which=3 cfg.ParseFieldSelector  case = #selector        obs = (0 (#seg ...)) | (2)
//	which=4 insane-json Dig / Suicide vs Model/Fields.v   case = (op (#seg ...) tree)
//	which=5 insane-json vs Base/Json.v dig / swap_remove  case = (0 (#seg ...) tree) | (1 i object)

import (
	"encoding/json"
	"fmt"
	"hash/fnv"
	"strings"
	"unicode/utf8"

	"github.com/ozontech/file.d/cfg"
	"github.com/ozontech/file.d/fd"
	"github.com/ozontech/file.d/logger"
	"github.com/ozontech/file.d/pipeline"
	"github.com/ozontech/file.d/plugin/action/keep_fields"
	"github.com/ozontech/file.d/plugin/action/remove_fields"
	insaneJSON "github.com/ozontech/insane-json"
	"go.uber.org/zap"

	"verif/harness/hmain"
	"verif/harness/hx"
)

var params = &pipeline.ActionPluginParams{
	PluginDefaultParams: pipeline.PluginDefaultParams{PipelineName: "verif", PipelineSettings: &pipeline.Settings{}},
	Logger:              zap.NewNop().Sugar(),
}

// viaJSON: the configuration is decoded from the JSON text a pipeline file would carry (pipeline.GetConfig:
// cfg.DecodeConfig + cfg.Parse, as fd does); otherwise the Fields of the factory's Config are set directly
func newPlugin(keep bool, sels []string, viaJSON bool) pipeline.ActionPlugin {
	name := "remove_fields"
	if keep {
		name = "keep_fields"
	}
	info, err := fd.DefaultPluginRegistry.Get(pipeline.PluginKindAction, name)
	if err != nil {
		panic(err)
	}
	pl, cf := info.Factory()
	if viaJSON {
		text, err := json.Marshal(map[string]any{"fields": sels})
		if err != nil {
			panic(err)
		}
		cf, err = pipeline.GetConfig(info, text, nil)
		if err != nil {
			panic(err)
		}
	} else {
		switch c := cf.(type) {
		case *keep_fields.Config:
			c.Fields = sels
		case *remove_fields.Config:
			c.Fields = sels
		}
	}
	p := pl.(pipeline.ActionPlugin)
	p.Start(cf, params)
	return p
}

// the route is a function of the case (a replay takes the same one): JSON text for every second case whose selectors are
// valid UTF-8 (encoding/json would replace other bytes)
func jsonRoute(cs hx.Sx, sels []string) bool {
	for _, s := range sels {
		if !utf8.ValidString(s) {
			return false
		}
	}
	h := fnv.New32a()
	h.Write([]byte(hx.String(cs)))
	return h.Sum32()&1 == 0
}

func strs(v hx.Sx) []string {
	var out []string
	for _, x := range hx.Items(v) {
		out = append(out, hx.Str(x))
	}
	return out
}

// one Do on a fresh decode of text
func doOnce(p pipeline.ActionPlugin, text string) (res hx.Sx, msg string) {
	root := insaneJSON.Spawn()
	defer insaneJSON.Release(root)
	if err := root.DecodeString(text); err != nil {
		return hx.L(hx.I(9)), "decode: " + err.Error()
	}
	ev := &pipeline.Event{Root: root}
	msg = hx.Catch(func() { p.Do(ev) })
	if msg != "" {
		return hx.L(hx.I(9)), msg
	}
	return hx.JSON(root.Node), ""
}

func execPlugin(keep bool, cs hx.Sx) hx.Sx {
	it := hx.Items(cs)
	sels := strs(it[0])
	text := hx.JSONText(it[1])
	// Start would call Fatal (os.Exit) on these; the generators never produce them
	if _, err := cfg.ParseNestedFields(sels); err != nil {
		return hx.L(hx.I(9), hx.S("config rejected: "+err.Error()))
	}
	var p pipeline.ActionPlugin
	if msg := hx.Catch(func() { p = newPlugin(keep, sels, jsonRoute(cs, sels)) }); msg != "" {
		return hx.L(hx.I(9), hx.S("Start "+msg))
	}
	first, msg := doOnce(p, text)
	if msg != "" {
		return hx.L(hx.I(9), hx.S(msg))
	}
	second, msg := doOnce(p, text)
	if msg != "" {
		return hx.L(hx.I(9), hx.S("second Do: "+msg))
	}
	if msg := hx.Catch(func() { p.Stop() }); msg != "" {
		return hx.L(hx.I(9), hx.S("Stop: "+msg))
	}
	res := first
	if hx.String(first) != hx.String(second) {
		res = second
	}
	tag := classify(keep, sels, fromSx(it[1]), fromSx(res))
	return hx.L(hx.I(tag), res)
}

func pathsSx(ps [][]string) hx.Sx { return hx.List(ps, hx.Ss) }

func sev(tag int) int { return map[int]int{0: 0, 1: 1, 3: 2, 2: 3}[tag] }

// one plugin instance, the events of the case one after the other (each a fresh decode, one Do)
func execSeq(keep bool, cs hx.Sx) hx.Sx {
	it := hx.Items(cs)
	sels := strs(it[0])
	ps, err := cfg.ParseNestedFields(sels)
	if err != nil {
		return hx.L(hx.I(9), hx.S("config rejected: "+err.Error()))
	}
	var p pipeline.ActionPlugin
	if msg := hx.Catch(func() { p = newPlugin(keep, sels, jsonRoute(cs, sels)) }); msg != "" {
		return hx.L(hx.I(9), hx.S("Start "+msg))
	}
	overall := 0
	var rows []hx.Sx
	for i, ev := range hx.Items(it[1]) {
		res, msg := doOnce(p, hx.JSONText(ev))
		if msg != "" {
			return hx.L(hx.I(9), hx.S(fmt.Sprintf("Do #%d: %s", i, msg)))
		}
		tag := classify(keep, sels, fromSx(ev), fromSx(res))
		if sev(tag) > sev(overall) {
			overall = tag
		}
		rows = append(rows, hx.L(hx.I(tag), res))
	}
	if msg := hx.Catch(func() { p.Stop() }); msg != "" {
		return hx.L(hx.I(9), hx.S("Stop: "+msg))
	}
	return hx.L(hx.I(overall), hx.L(rows...), pathsSx(ps))
}

func exec(which int, cs hx.Sx) hx.Sx {
	switch which {
	case 0:
		return execPlugin(false, cs)
	case 1:
		return execPlugin(true, cs)
	case 6:
		return execSeq(false, cs)
	case 8:
		return execSeq(true, cs)
	case 2, 7:
		var ps [][]string
		var err error
		if msg := hx.Catch(func() { ps, err = cfg.ParseNestedFields(strs(cs)) }); msg != "" {
			return hx.L(hx.I(2))
		}
		if err != nil {
			e := 2
			if strings.Contains(err.Error(), "empty fields list") {
				e = 1
			}
			return hx.L(hx.I(1), hx.I(e))
		}
		return hx.L(hx.I(0), pathsSx(ps))
	case 3:
		var p []string
		if msg := hx.Catch(func() { p = cfg.ParseFieldSelector(hx.Str(cs)) }); msg != "" {
			return hx.L(hx.I(2))
		}
		return hx.L(hx.I(0), hx.Ss(p))
	case 4:
		it := hx.Items(cs)
		root := insaneJSON.Spawn()
		defer insaneJSON.Release(root)
		if err := root.DecodeString(hx.JSONText(it[2])); err != nil {
			return hx.L(hx.I(8))
		}
		path := strs(it[1])
		if hx.Int(it[0]) == 0 {
			n := root.Dig(path...)
			if n == nil {
				return hx.L(hx.I(9))
			}
			return hx.JSON(n)
		}
		root.Dig(path...).Suicide()
		return hx.JSON(root.Node)
	default:
		it := hx.Items(cs)
		root := insaneJSON.Spawn()
		defer insaneJSON.Release(root)
		if err := root.DecodeString(hx.JSONText(it[2])); err != nil {
			return hx.L(hx.I(8))
		}
		if hx.Int(it[0]) == 0 {
			n := root.Dig(strs(it[1])...)
			if n == nil {
				return hx.L(hx.I(9))
			}
			return hx.JSON(n)
		}
		i := int(hx.Int(it[1]))
		fs := root.AsFields()
		if i < len(fs) {
			root.Dig(fs[i].AsString()).Suicide()
		}
		return hx.JSON(root.Node)
	}
}

// memo of the last execution, so that the generator can look at the tag before it files the case
var (
	lastKey string
	lastObs hx.Sx
)

func execMemo(which int, cs hx.Sx) hx.Sx {
	key := fmt.Sprintf("%d|%s", which, hx.String(cs))
	if key == lastKey {
		o := lastObs
		lastKey, lastObs = "", nil
		return o
	}
	return exec(which, cs)
}

func suffix(obs hx.Sx) string {
	switch hx.Int(hx.Items(obs)[0]) {
	case 0:
		return ""
	case 1:
		return "~order-only"
	case 3:
		return "~array-index"
	case 9:
		return "~panic"
	}
	return "~content"
}

// file one plugin case under the stream its classification demands
func doPlugin(c *hmain.Ctx, stream string, which int, sels []string, ev hx.Sx, nontrivial bool) {
	cs := hx.L(hx.Ss(sels), ev)
	obs := exec(which, cs)
	lastKey, lastObs = fmt.Sprintf("%d|%s", which, hx.String(cs)), obs
	sfx := suffix(obs)
	c.W.Count("class:" + map[int]string{0: "remove", 1: "keep"}[which] + map[string]string{"": "~identical"}[sfx] + sfx)
	c.Do(stream+sfx, which, cs, nontrivial)
}

// file one history case (which 6 / 8) under the stream its worst classification demands
func doSeq(c *hmain.Ctx, stream string, which int, sels []string, evs []hx.Sx, nontrivial bool) {
	cs := hx.L(hx.Ss(sels), hx.L(evs...))
	obs := exec(which, cs)
	lastKey, lastObs = fmt.Sprintf("%d|%s", which, hx.String(cs)), obs
	sfx := suffix(obs)
	c.W.Count("class:" + map[int]string{6: "remove-seq", 8: "keep-seq"}[which] + map[string]string{"": "~identical"}[sfx] + sfx)
	c.Do(stream+sfx, which, cs, nontrivial)
}

func main() {
	// as cmd/file.d/file.d.go:97 and fd/file.d.go:100 set them in production (the library default pool is 128 nodes):
	// decoding and the AddFieldNoAlloc of the marks then walk the 16/32/64 node-pool expansions
	insaneJSON.StartNodePoolSize = 16
	insaneJSON.DisableBeautifulErrors = true
	logger.Level.SetLevel(zap.FatalLevel)
	hmain.Run(&hmain.Prop{
		ID:   "C18",
		Rule: "plugin case non-trivial iff the event is an object and at least one selector resolves to an existing value (something is removed / kept below the root); parser case non-trivial iff the selector contains a dot or a backslash; conformance case non-trivial iff the path resolves",
		Gen:  gen,
		Exec: execMemo,
	})
}
