package main

import (
	"sort"
	"strings"

	"github.com/ozontech/file.d/cfg"
	insaneJSON "github.com/ozontech/insane-json"

	"verif/harness/hmain"
	"verif/harness/hx"
)

func num(s string) *jv { return &jv{kind: 2, s: s} }
func str(s string) *jv { return &jv{kind: 3, s: s} }
func arr(xs ...*jv) *jv { return &jv{kind: 4, arr: xs} }
func obj(kv ...any) *jv {
	j := &jv{kind: 5}
	for i := 0; i+1 < len(kv); i += 2 {
		j.keys = append(j.keys, kv[i].(string))
		j.vals = append(j.vals, kv[i+1].(*jv))
	}
	return j
}

// selector text of a path: dots inside names escaped
func selOf(p []string) string {
	parts := make([]string, len(p))
	for i, s := range p {
		parts[i] = strings.ReplaceAll(s, ".", `\.`)
	}
	return strings.Join(parts, ".")
}

// naive Dig through objects only
func resolves(j *jv, p []string) bool {
	for _, k := range p {
		if j.kind != 5 {
			return false
		}
		found := false
		for i, k2 := range j.keys {
			if k2 == k {
				j, found = j.vals[i], true
				break
			}
		}
		if !found {
			return false
		}
	}
	return len(p) > 0
}

func usable(sels []string) bool {
	if len(sels) == 0 {
		return false
	}
	for _, s := range sels {
		if hasDotDot(s) || len(splitSel(s)) == 0 {
			return false
		}
	}
	return true
}

func nontrivialCase(sels []string, ev *jv) bool {
	if ev.kind != 5 {
		return false
	}
	for _, s := range sels {
		if resolves(ev, splitSel(s)) {
			return true
		}
	}
	return false
}

func checkRoundTrip(c *hmain.Ctx, ev *jv) bool {
	root := insaneJSON.Spawn()
	defer insaneJSON.Release(root)
	text := hx.JSONText(ev.sx())
	ok := root.DecodeString(text) == nil && hx.String(hx.JSON(root.Node)) == hx.String(ev.sx())
	c.W.Oracle("insane-json decode(text(tree)) = tree (the event the plugin sees is the case's tree)", ok, text)
	return ok
}

func both(c *hmain.Ctx, stream string, sels []string, ev *jv) {
	if !usable(sels) || !ev.uniq() {
		c.W.Count("skipped:unusable-selectors")
		return
	}
	if !checkRoundTrip(c, ev) {
		return
	}
	nt := nontrivialCase(sels, ev)
	doPlugin(c, stream, 0, sels, ev.sx(), nt)
	doPlugin(c, stream, 1, sels, ev.sx(), nt)
}

// ---- exhaustive small scope ------------------------------------------------------------------
func tuples(universe []string, maxLen int, f func([]string)) {
	var rec func(cur []string)
	rec = func(cur []string) {
		if len(cur) > 0 {
			f(append([]string(nil), cur...))
		}
		if len(cur) == maxLen {
			return
		}
		for _, u := range universe {
			dup := false
			for _, x := range cur {
				if x == u {
					dup = true
				}
			}
			if !dup {
				rec(append(cur, u))
			}
		}
	}
	rec(nil)
}

func genExhaustive(c *hmain.Ctx) {
	maxSel := 2
	if c.Scale > 1 {
		maxSel = 3
	}
	mkVals := func() []*jv {
		return []*jv{num("1"), obj("a", num("1"), "b", num("2")), arr(num("7"), obj("a", num("1")))}
	}
	pathU := []string{"a", "b", "c", "a.a", "a.b", "b.a", "a.0", "a.1.a", "d"}
	var keySeqs [][]string
	tuples([]string{"a", "b", "c"}, 3, func(ks []string) { keySeqs = append(keySeqs, ks) })
	keySeqs = append(keySeqs, nil)
	for _, ks := range keySeqs {
		n := 1
		for range ks {
			n *= 3
		}
		for code := 0; code < n; code++ {
			ev := &jv{kind: 5}
			x := code
			for _, k := range ks {
				ev.keys = append(ev.keys, k)
				ev.vals = append(ev.vals, mkVals()[x%3])
				x /= 3
			}
			tuples(pathU, maxSel, func(sels []string) { both(c, "exhaustive", sels, ev) })
		}
	}
	// four scalar keys in every order (the smallest scope in which swap-remove reorders survivors)
	tuples([]string{"a", "b", "c", "d"}, 4, func(ks []string) {
		if len(ks) != 4 {
			return
		}
		ev := &jv{kind: 5}
		for i, k := range ks {
			ev.keys = append(ev.keys, k)
			ev.vals = append(ev.vals, num(string(rune('1'+i))))
		}
		tuples([]string{"a", "b", "c", "d", "e"}, maxSel, func(sels []string) { both(c, "exhaustive", sels, ev) })
	})
}

// ---- structured random -----------------------------------------------------------------------
var keyPool = []string{"a", "b", "c", "d", "e", "f", "x.y", "a.b", "0", "1", "k", "msg", "level"}
var oddKeys = []string{"", "k\\", "q\"", "ü", "a.b.c", ".", "+1", "-0", "01", "tab\t"}

func randScalar(r *hx.Rng) *jv {
	switch r.Intn(6) {
	case 0:
		return &jv{kind: 0}
	case 1:
		return &jv{kind: 1, b: r.Bool()}
	case 2:
		return str(hx.Pick(r, []string{"", "v", "some text", "a.b", "\\", "é\"x"}))
	default:
		return num(hx.Pick(r, []string{"0", "1", "42", "-7", "3.5", "1e3"}))
	}
}

func randTree(r *hx.Rng, depth int, odd bool, maxKeys int) *jv {
	if depth <= 0 {
		return randScalar(r)
	}
	switch r.Intn(10) {
	case 0, 1, 2:
		return randScalar(r)
	case 3, 4:
		n := r.Intn(4)
		a := &jv{kind: 4}
		for i := 0; i < n; i++ {
			a.arr = append(a.arr, randTree(r, depth-1, odd, maxKeys))
		}
		return a
	}
	return randObj(r, depth, odd, maxKeys)
}

func randObj(r *hx.Rng, depth int, odd bool, maxKeys int) *jv {
	o := &jv{kind: 5}
	n := r.Intn(maxKeys + 1)
	seen := map[string]bool{}
	for i := 0; i < n; i++ {
		k := hx.Pick(r, keyPool)
		if odd && r.Chance(1, 4) {
			k = hx.Pick(r, oddKeys)
		}
		if seen[k] {
			continue
		}
		seen[k] = true
		o.keys = append(o.keys, k)
		o.vals = append(o.vals, randTree(r, depth-1, odd, maxKeys))
	}
	return o
}

// a path that follows the tree (objects by key, arrays by index when throughArrays) for a while
func walkPath(r *hx.Rng, j *jv, throughArrays bool) []string {
	var p []string
	for len(p) < 4 {
		switch {
		case j.kind == 5 && len(j.keys) > 0:
			i := r.Intn(len(j.keys))
			p = append(p, j.keys[i])
			j = j.vals[i]
		case j.kind == 4 && len(j.arr) > 0 && throughArrays:
			i := r.Intn(len(j.arr))
			p = append(p, itoa(i))
			j = j.arr[i]
		default:
			return p
		}
		if r.Chance(1, 3) {
			break
		}
	}
	return p
}

func itoa(i int) string {
	if i == 0 {
		return "0"
	}
	s := ""
	for i > 0 {
		s = string(rune('0'+i%10)) + s
		i /= 10
	}
	return s
}

func randSelectors(r *hx.Rng, ev *jv, n int, odd bool) []string {
	var paths [][]string
	for len(paths) < n {
		var p []string
		switch k := r.Intn(20); {
		case k < 9:
			p = walkPath(r, ev, false)
		case k < 12:
			p = walkPath(r, ev, true)
		case k < 14: // missing leaf / through a scalar
			p = append(walkPath(r, ev, false), hx.Pick(r, keyPool))
		case k < 16 && len(paths) > 0: // overlap: a prefix or an extension of an earlier path
			q := hx.Pick(r, paths)
			if r.Bool() && len(q) > 1 {
				p = append([]string(nil), q[:1+r.Intn(len(q)-1)]...)
			} else {
				p = append(append([]string(nil), q...), hx.Pick(r, keyPool))
			}
		case k < 17 && len(paths) > 0: // repeat
			p = hx.Pick(r, paths)
		default:
			for i := 0; i <= r.Intn(3); i++ {
				p = append(p, hx.Pick(r, keyPool))
			}
		}
		if len(p) == 0 {
			p = []string{hx.Pick(r, keyPool)}
		}
		paths = append(paths, p)
	}
	sels := make([]string, len(paths))
	for i, p := range paths {
		sels[i] = selOf(p)
		if odd && r.Chance(1, 6) {
			sels[i] += "." // trailing dot: no empty last name
		}
	}
	return sels
}

func genRandom(c *hmain.Ctx) {
	r := c.R.Fork()
	n := 9000 * c.Scale
	for i := 0; i < n; i++ {
		ev := randObj(r, 1+r.Intn(4), false, 5)
		sels := randSelectors(r, ev, 1+r.Intn(5), false)
		c.W.Count("random:selectors=" + itoa(len(sels)))
		both(c, "random", sels, ev)
	}
}

// ---- malformed / adversarial -----------------------------------------------------------------
func soup(r *hx.Rng, alphabet string, maxLen int) string {
	n := r.Intn(maxLen + 1)
	b := make([]byte, n)
	for i := range b {
		b[i] = alphabet[r.Intn(len(alphabet))]
	}
	return string(b)
}

func genAdversarial(c *hmain.Ctx) {
	r := c.R.Fork()
	// odd key names, odd selectors, up to 12 selectors
	for i := 0; i < 2500*c.Scale; i++ {
		ev := randObj(r, 1+r.Intn(4), true, 6)
		n := 1 + r.Intn(5)
		if r.Chance(1, 10) {
			n = 6 + r.Intn(7)
		}
		sels := randSelectors(r, ev, n, true)
		both(c, "adversarial", sels, ev)
	}
	// selector soup against trees whose keys come from the same soup
	for i := 0; i < 2500*c.Scale; i++ {
		var mk func(d int) *jv
		mk = func(d int) *jv {
			o := &jv{kind: 5}
			seen := map[string]bool{}
			for m := r.Intn(5); m > 0; m-- {
				k := soup(r, "ab.\\01", 3)
				if seen[k] {
					continue
				}
				seen[k] = true
				var v *jv
				switch {
				case d > 0 && r.Chance(1, 2):
					v = mk(d - 1)
				case r.Chance(1, 4):
					v = arr(num("1"), obj("a", num("2"), "b", num("3")), num("4"))
				default:
					v = num("5")
				}
				o.keys = append(o.keys, k)
				o.vals = append(o.vals, v)
			}
			return o
		}
		ev := mk(2)
		var sels []string
		for m := 1 + r.Intn(4); m > 0; m-- {
			sels = append(sels, soup(r, "ab.\\01", 6))
		}
		both(c, "soup", sels, ev)
	}
	// large objects (insane-json switches to a field map above 16 fields), many removals
	for i := 0; i < 300*c.Scale; i++ {
		ev := &jv{kind: 5}
		n := 12 + r.Intn(30)
		for m := 0; m < n; m++ {
			ev.keys = append(ev.keys, "f"+itoa(m))
			if r.Chance(1, 8) {
				ev.vals = append(ev.vals, obj("x", num("1"), "y", num("2"), "z", num("3")))
			} else {
				ev.vals = append(ev.vals, num(itoa(m)))
			}
		}
		r2 := r.Fork()
		sort.SliceStable(ev.keys, func(a, b int) bool { return r2.Bool() })
		var sels []string
		for m := 1 + r.Intn(12); m > 0; m-- {
			s := "f" + itoa(r.Intn(n+2))
			if r.Chance(1, 5) {
				s += "." + hx.Pick(r, []string{"x", "y", "q"})
			}
			sels = append(sels, s)
		}
		both(c, "large", sels, ev)
	}
	// roots that are not objects: the plugins pass them through
	for i := 0; i < 100*c.Scale; i++ {
		ev := randTree(r, 2, false, 3)
		if ev.kind == 5 {
			ev = arr(ev)
		}
		both(c, "non-object-root", []string{hx.Pick(r, []string{"a", "0", "0.a", "a.b"})}, ev)
	}
	// numeric and signed index segments against arrays
	for i := 0; i < 400*c.Scale; i++ {
		a := &jv{kind: 4}
		for m := r.Intn(4); m > 0; m-- {
			a.arr = append(a.arr, hx.Pick(r, []*jv{num("1"), obj("a", num("1"), "b", num("2")), arr(num("8"), num("9"))}))
		}
		ev := obj("a", a, "0", num("0"), "b", obj("1", num("1"), "a", num("2")))
		var sels []string
		for m := 1 + r.Intn(3); m > 0; m-- {
			s := hx.Pick(r, []string{"a", "b", "0"}) + "." + hx.Pick(r, []string{"0", "1", "2", "3", "+1", "-0", "-1", "01", "1e0", "0x1", " 1", "a", "99999999999999999999"})
			if r.Chance(1, 3) {
				s += "." + hx.Pick(r, []string{"a", "b", "0"})
			}
			sels = append(sels, s)
		}
		both(c, "array-segments", sels, ev)
	}
}

// ---- the selector parser -----------------------------------------------------------------------
func genParser(c *hmain.Ctx) {
	r := c.R.Fork()
	maxLen := 7
	if c.Scale > 1 {
		maxLen = 9
	}
	var rec func(s string)
	rec = func(s string) {
		c.Do("selector-exhaustive", 3, hx.S(s), strings.ContainsAny(s, ".\\"))
		if hasDotDot(s) {
			c.W.Count("selector:dotdot-form")
		} else {
			c.W.Count("selector:plain")
		}
		if len(s) == maxLen {
			return
		}
		for _, ch := range []string{"a", ".", "\\"} {
			rec(s + ch)
		}
	}
	rec("")
	for i := 0; i < 3000*c.Scale; i++ {
		s := soup(r, "abc.\\. 0\xff", 12)
		c.Do("selector-random", 3, hx.S(s), strings.ContainsAny(s, ".\\"))
	}
	// ParseNestedFields: every list of at most 3 selectors from a small universe, then random lists
	uni := []string{"a", "a.b", "a.b.c", "b", `a\.b`, "b.a", "a.c", ""}
	var lists func(cur []string)
	lists = func(cur []string) {
		c.Do("nested-exhaustive", 2, hx.Ss(cur), len(cur) > 1)
		if len(cur) == 3 {
			return
		}
		for _, u := range uni {
			lists(append(append([]string(nil), cur...), u))
		}
	}
	lists(nil)
	for i := 0; i < 3000*c.Scale; i++ {
		n := r.Intn(13)
		var sels []string
		for m := 0; m < n; m++ {
			if r.Chance(1, 3) && len(sels) > 0 {
				sels = append(sels, hx.Pick(r, sels)+hx.Pick(r, []string{"", ".a", ".b.c", "\\.a"}))
			} else {
				sels = append(sels, soup(r, "ab.\\", 5))
			}
		}
		c.Do("nested-random", 2, hx.Ss(sels), len(sels) > 1)
		// Go's sort.Slice is an insertion sort (stable) up to 12 elements: the model relies on it
		plain := len(sels) > 0
		for _, s := range sels {
			if hasDotDot(s) || len(splitSel(s)) == 0 {
				plain = false
			}
		}
		if plain {
			var ps [][]string
			for _, s := range sels {
				ps = append(ps, splitSel(s))
			}
			sort.SliceStable(ps, func(a, b int) bool { return len(ps[a]) < len(ps[b]) })
			want := hx.String(pathsSx(dropNested(ps)))
			got, err := cfg.ParseNestedFields(sels)
			c.W.Oracle("sort.Slice keeps the order of equally long paths for at most 12 selectors", err == nil && hx.String(pathsSx(got)) == want, strings.Join(sels, " | "))
		}
	}
}

// ---- insane-json conformance -----------------------------------------------------------------
func genConformance(c *hmain.Ctx) {
	r := c.R.Fork()
	for i := 0; i < 3000*c.Scale; i++ {
		t := randTree(r, 1+r.Intn(4), true, 5)
		if !t.uniq() {
			continue
		}
		var p []string
		if r.Chance(3, 4) {
			p = walkPath(r, t, true)
		}
		if r.Chance(1, 4) {
			p = append(p, hx.Pick(r, []string{"a", "0", "1", "-0", "+1", "zz"}))
		}
		c.Do("conformance-dig-suicide", 4, hx.L(hx.I(r.Intn(2)), hx.Ss(p), t.sx()), len(p) > 0)
	}
	for i := 0; i < 1500*c.Scale; i++ {
		t := randObj(r, 1+r.Intn(3), true, 5)
		p := walkPath(r, t, false)
		if r.Chance(1, 4) {
			// only extend where Base/Json.v's dig and the library agree by construction (not below an array)
			cur, ok := t, true
			for _, k := range p {
				if cur.kind != 5 {
					ok = false
					break
				}
				for m, k2 := range cur.keys {
					if k2 == k {
						cur = cur.vals[m]
						break
					}
				}
			}
			if ok && cur.kind != 4 {
				p = append(p, hx.Pick(r, keyPool))
			}
		}
		c.Do("conformance-base-dig", 5, hx.L(hx.I(0), hx.Ss(p), t.sx()), len(p) > 0)
	}
	for i := 0; i < 1500*c.Scale; i++ {
		n := 1 + r.Intn(6)
		if r.Chance(1, 4) {
			n = 15 + r.Intn(10)
		}
		o := &jv{kind: 5}
		for m := 0; m < n; m++ {
			o.keys = append(o.keys, "k"+itoa(m))
			o.vals = append(o.vals, num(itoa(m)))
		}
		idx := r.Intn(n)
		obs := c.Do("conformance-base-swap-remove", 5, hx.L(hx.I(1), hx.I(idx), o.sx()), true)
		// the same fact on the Go side: the last field moves into the hole
		want := append([]string(nil), o.keys...)
		want[idx] = want[n-1]
		want = want[:n-1]
		got := fromSx(obs)
		c.W.Oracle("insane-json Suicide of an object field moves the last field into the hole", got.kind == 5 && strings.Join(got.keys, ",") == strings.Join(want, ","), strings.Join(o.keys, ","))
	}
}

// ---- wide objects: more than 100 fields to drop at one depth (the per-depth delete buffers of keep_fields start with
// capacity 100), before / after / between nested objects addressed by nested selectors that drop fields themselves
func genWide(c *hmain.Ctx) {
	r := c.R.Fork()
	str := func(s string) *jv { return &jv{kind: 3, s: s} }
	for i := 0; i < 40*c.Scale; i++ {
		var mkLevel func(depth int, path string) *jv
		var sels []string
		mkLevel = func(depth int, path string) *jv {
			o := &jv{kind: 5}
			nJunk := r.Range(95, 135)
			if depth > 0 && r.Bool() {
				nJunk = r.Range(0, 6)
			}
			// positions of the real fields among the junk
			real := []string{"meta", "trace", "id"}
			pos := map[int]string{}
			for _, k := range real {
				pos[r.Intn(nJunk+1)] = k
			}
			for j := 0; j <= nJunk; j++ {
				if k, ok := pos[j]; ok {
					full := k
					if path != "" {
						full = path + "." + k
					}
					if k == "meta" && depth < 2 {
						o.keys, o.vals = append(o.keys, k), append(o.vals, mkLevel(depth+1, full))
					} else {
						o.keys, o.vals = append(o.keys, k), append(o.vals, str("v-"+full))
						if r.Chance(2, 3) {
							sels = append(sels, full)
						}
					}
				}
				if j < nJunk {
					o.keys, o.vals = append(o.keys, "j"+itoa(depth)+"_"+itoa(j)), append(o.vals, str("junk"))
				}
			}
			return o
		}
		ev := mkLevel(0, "")
		if len(sels) == 0 {
			sels = []string{"meta.id"}
		}
		c.W.Count("wide:selectors=" + itoa(len(sels)))
		both(c, "wide", sels, ev)
	}
}

func gen(c *hmain.Ctx) {
	genExhaustive(c)
	genWide(c)
	genRandom(c)
	genAdversarial(c)
	genParser(c)
	genConformance(c)
	genThresholds(c) // last: the streams above keep their cases for a given seed
}
