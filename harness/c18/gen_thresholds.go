package main

// Generators that cross scale / history thresholds hard-coded in the Go code (notes/threshold-audit.txt items 29, 30).
// They run AFTER the older generators so that the older streams keep their cases for a given seed.

import (
	"sort"
	"strings"

	"github.com/ozontech/file.d/cfg"

	"verif/harness/hmain"
	"verif/harness/hx"
)

func bucket(n int) string {
	switch {
	case n <= 12:
		return "<=12"
	case n <= 20:
		return "13-20"
	case n <= 30:
		return "21-30"
	}
	return "31-40"
}

// what the model's stable insertion sort + dedupe would give, as text
func stableNested(sels []string) string {
	var ps [][]string
	for _, s := range sels {
		ps = append(ps, splitSel(s))
	}
	sort.SliceStable(ps, func(a, b int) bool { return len(ps[a]) < len(ps[b]) })
	return hx.String(pathsSx(dropNested(ps)))
}

func seqBoth(c *hmain.Ctx, stream string, sels []string, evs []*jv) bool {
	if !usable(sels) {
		c.W.Count("skipped:unusable-selectors")
		return false
	}
	nt := false
	var sx []hx.Sx
	for _, ev := range evs {
		if !ev.uniq() {
			c.W.Count("skipped:unusable-selectors")
			return false
		}
		if !checkRoundTrip(c, ev) {
			return false
		}
		nt = nt || nontrivialCase(sels, ev)
		sx = append(sx, ev.sx())
	}
	doSeq(c, stream, 6, sels, sx, nt)
	doSeq(c, stream, 8, sels, sx, nt)
	return true
}

// ---- item 29: more than 12 selectors ------------------------------------------------------------------------------
// cfg/config.go:601 sort.Slice(paths, by length) is an insertion sort (stable) only up to 12 elements; above that it
// is pdqsort, which permutes equally long paths.  The dedupe loop config.go:607-629 looks only at paths[:i] of the
// SORTED slice, and remove_fields.Do deletes in that order (swap-remove: the order decides the key order of the
// survivors; with array-index segments even the content).
// Regression these streams expose and the <=12 streams cannot: a dedupe that relies on first-come order or on
// duplicates / prefixes being adjacent after the sort (e.g. "compare with the previous kept path only", or a comparator
// that stops being a strict weak order on equal lengths), which is right under insertion sort and wrong under pdqsort —
// a nested or duplicate path survives, so keep_fields keeps / remove_fields digs a path twice; also any plugin change
// that makes the RESULT depend on the order of equally long paths (the model is run with the observed order and
// compared exactly, and the spec comparison is order-free).
func genMany(c *hmain.Ctx) {
	r := c.R.Fork()
	// (a) random trees, selectors that follow them: many duplicates, prefixes, extensions
	for i := 0; i < 700*c.Scale; i++ {
		ev := randObj(r, 2+r.Intn(3), r.Chance(1, 4), 7)
		n := 13 + r.Intn(28)
		sels := randSelectors(r, ev, n, r.Chance(1, 4))
		evs := []*jv{ev}
		if r.Bool() {
			evs = append(evs, randObj(r, 2+r.Intn(3), false, 7))
		}
		if seqBoth(c, "many-selectors", sels, evs) {
			c.W.Count("many-selectors:n=" + bucket(len(sels)))
			if got, err := cfg.ParseNestedFields(sels); err == nil && hx.String(pathsSx(got)) != stableNested(sels) {
				c.W.Count("many-selectors:order-differs-from-stable-sort")
			}
		}
	}
	// (b) many DISTINCT equally long paths over a wide object of small objects (and of arrays: the order of a.0 / a.1
	// deletions changes the content — known finding C18-remove-array-index), a few one-segment prefixes among them
	for i := 0; i < 500*c.Scale; i++ {
		ev := &jv{kind: 5}
		nk := 10 + r.Intn(25)
		for m := 0; m < nk; m++ {
			ev.keys = append(ev.keys, "f"+itoa(m))
			switch r.Intn(8) {
			case 0:
				ev.vals = append(ev.vals, num(itoa(m)))
			case 1:
				ev.vals = append(ev.vals, arr(num("1"), num("2"), num("3")))
			default:
				ev.vals = append(ev.vals, obj("x", num("1"), "y", obj("p", num("2"), "q", num("3")), "z", num("4"), "w", num("5")))
			}
		}
		n := 13 + r.Intn(28)
		var sels []string
		for m := 0; m < n; m++ {
			s := "f" + itoa(r.Intn(nk+1))
			switch r.Intn(10) {
			case 0: // one segment: a prefix of others
			case 1:
				s += ".y." + hx.Pick(r, []string{"p", "q", "r"})
			case 2:
				s += "." + hx.Pick(r, []string{"0", "1", "2"})
			default:
				s += "." + hx.Pick(r, []string{"x", "y", "z", "w", "v"})
			}
			sels = append(sels, s)
		}
		if seqBoth(c, "many-selectors-flat", sels, []*jv{ev}) {
			c.W.Count("many-selectors-flat:n=" + bucket(len(sels)))
			if got, err := cfg.ParseNestedFields(sels); err == nil && hx.String(pathsSx(got)) != stableNested(sels) {
				c.W.Count("many-selectors-flat:order-differs-from-stable-sort")
			}
		}
	}
	// (c) the parser alone on 13-40 selectors (soup, extensions of earlier ones, repeats)
	for i := 0; i < 1500*c.Scale; i++ {
		n := 13 + r.Intn(28)
		var sels []string
		for m := 0; m < n; m++ {
			switch {
			case r.Chance(1, 3) && len(sels) > 0:
				sels = append(sels, hx.Pick(r, sels)+hx.Pick(r, []string{"", ".a", ".b.c", "\\.a"}))
			case r.Chance(1, 2):
				sels = append(sels, soup(r, "ab.\\", 5))
			default:
				sels = append(sels, hx.Pick(r, []string{"a", "b", "c", "d"})+"."+hx.Pick(r, []string{"a", "b", "c", "d", "e", "f"}))
			}
		}
		c.Do("nested-many", 7, hx.Ss(sels), true)
		c.W.Count("nested-many:n=" + bucket(len(sels)))
	}
}

// ---- item 30: instance history ----------------------------------------------------------------------------------
// keep_fields.go:53,160,169: fieldsDepthSlice lives as long as the plugin, one buffer per DEPTH (not per trie node),
// each starting with capacity 100 and keeping its grown array; traverseFieldsTree appends the names to drop, deletes
// them only when the node is preserved (or is the root) and truncates the buffer on the way out.  The older streams
// run the same event twice per instance.
// Regressions these streams expose: the truncation moved inside the "if depth == 0 || shouldPreserveNode" (names
// collected under a node that is NOT preserved stay in the buffer and are deleted from the next event's object at
// that depth: "collected but not deleted, then a different event"); a buffer re-sliced by capacity instead of length
// after it grew (wide then narrow); a cached per-event result / key list (narrow then wide); for remove_fields any
// state kept across Do.
func genHistory(c *hmain.Ctx) {
	r := c.R.Fork()
	for i := 0; i < 1200*c.Scale; i++ {
		ne := r.Range(2, 5)
		var evs []*jv
		for k := 0; k < ne; k++ {
			evs = append(evs, randObj(r, 1+r.Intn(4), r.Chance(1, 5), 5))
		}
		// selectors that follow two of the events, so that one event's kept path is another event's miss
		var sels []string
		for k := 0; k < 2; k++ {
			sels = append(sels, randSelectors(r, evs[r.Intn(ne)], 1+r.Intn(4), false)...)
		}
		if seqBoth(c, "history", sels, evs) {
			c.W.Count("history:events=" + itoa(len(evs)))
		}
	}
}

// wide / nested objects with a fixed vocabulary of real fields at every level:
//
//	meta (the next level, or a string at the last one), trace, id, "x.y" (dotted name), "k\" — selected by
//	meta.….<name>; junk fields around them, per level 0-6, 17-95 (map-indexed by insane-json: more than 16 fields)
//	or 95-135 (more than the delete buffers' initial capacity of 100)
type wideSpec struct {
	maxDepth int
	junk     func(depth int) int
	odd      bool // odd junk names (dots, escapes, quotes, non-ASCII) — also inside map-indexed objects
	pPresent int  // a real field is present with probability pPresent/6
	deep     bool // meta always present: the event reaches maxDepth
}

var realNames = []string{"meta", "trace", "id", "x.y", "k\\"}

func wideEvent(r *hx.Rng, sp wideSpec) *jv {
	var mk func(depth int, path string) *jv
	mk = func(depth int, path string) *jv {
		o := &jv{kind: 5}
		nJunk := sp.junk(depth)
		pos := map[int]string{}
		for _, k := range realNames {
			if r.Chance(sp.pPresent, 6) || (sp.deep && k == "meta") {
				pos[r.Intn(nJunk+1)] = k
			}
		}
		for j := 0; j <= nJunk; j++ {
			if k, ok := pos[j]; ok {
				full := path + "/" + k
				if k == "meta" && depth < sp.maxDepth {
					o.keys, o.vals = append(o.keys, k), append(o.vals, mk(depth+1, full))
				} else {
					o.keys, o.vals = append(o.keys, k), append(o.vals, str("v-"+full))
				}
			}
			if j < nJunk {
				name := "j" + itoa(depth) + "_" + itoa(j)
				if sp.odd {
					switch j % 7 {
					case 1:
						name = "j." + itoa(j)
					case 2:
						name = "j\\" + itoa(j)
					case 3:
						name = "ü\"" + itoa(j)
					case 4:
						name = itoa(j) // numeric names
					case 5:
						name = "id." + itoa(j) + "."
					}
				}
				o.keys, o.vals = append(o.keys, name), append(o.vals, str("junk"))
			}
		}
		return o
	}
	return mk(0, "")
}

func wideSelectors(r *hx.Rng, maxDepth int) []string {
	var sels []string
	prefix := []string{}
	for d := 0; d <= maxDepth; d++ {
		for _, k := range realNames {
			if k == "meta" && d < maxDepth && !r.Chance(1, 6) {
				continue // mostly reach below meta, sometimes select the whole sub-object
			}
			if r.Chance(1, 2) {
				sels = append(sels, selOf(append(append([]string(nil), prefix...), k)))
			}
		}
		if r.Chance(1, 5) {
			sels = append(sels, selOf(append(append([]string(nil), prefix...), "nosuch")))
		}
		prefix = append(prefix, "meta")
	}
	if len(sels) == 0 {
		sels = []string{"meta.id"}
	}
	return sels
}

func junkProfile(r *hx.Rng, kinds []int) func(int) int {
	return func(depth int) int {
		switch hx.Pick(r, kinds) {
		case 0:
			return r.Range(0, 6)
		case 1:
			return r.Range(17, 95)
		}
		return r.Range(95, 135)
	}
}

func maxDrops(j *jv, depth, atLeast int) int {
	best := 0
	if j.kind == 5 {
		if depth >= atLeast {
			best = len(j.keys)
		}
		for _, v := range j.vals {
			if m := maxDrops(v, depth+1, atLeast); m > best {
				best = m
			}
		}
	}
	return best
}

func genWideHistory(c *hmain.Ctx) {
	r := c.R.Fork()
	// single wide events (run twice on the instance): four levels, so that more than 100 names are dropped at depth 3;
	// nested objects of 17-95 fields; odd names inside map-indexed objects
	for i := 0; i < 30*c.Scale; i++ {
		prof := junkProfile(r, []int{0, 1, 1, 2, 2})
		deepWide := r.Bool()
		sp := wideSpec{maxDepth: 3, odd: r.Bool(), pPresent: 5, deep: deepWide, junk: func(depth int) int {
			if depth == 3 && deepWide {
				return r.Range(101, 135) // more than 100 names to drop at depth 3
			}
			return prof(depth)
		}}
		ev := wideEvent(r, sp)
		sels := wideSelectors(r, 3)
		if seqBoth(c, "wide-nested", sels, []*jv{ev, ev}) {
			if maxDrops(ev, 0, 3) > 100 {
				c.W.Count("wide-nested:over-100-fields-at-depth-3")
			}
			if sp.odd {
				c.W.Count("wide-nested:odd-names")
			}
			c.W.Count("wide-nested:selectors=" + itoa(len(sels)))
		}
	}
	// wide then narrow, narrow then wide, wide narrow wide, and long mixed histories on ONE instance
	shapes := [][]int{{2, 0}, {0, 2}, {2, 0, 2}, {1, 0, 1, 0}, {0, 1, 2, 0, 0}, {2, 2, 0}}
	for i := 0; i < 40*c.Scale; i++ {
		shape := hx.Pick(r, shapes)
		sels := wideSelectors(r, 2)
		odd := r.Chance(1, 3)
		var evs []*jv
		for _, kind := range shape {
			evs = append(evs, wideEvent(r, wideSpec{maxDepth: 2, junk: junkProfile(r, []int{kind}), odd: odd, pPresent: 4}))
		}
		if seqBoth(c, "history-wide", sels, evs) {
			var names []string
			for _, kind := range shape {
				names = append(names, []string{"narrow", "mid", "wide"}[kind])
			}
			c.W.Count("history-wide:" + strings.Join(names, ">"))
		}
	}
}

func genThresholds(c *hmain.Ctx) {
	genMany(c)
	genHistory(c)
	genWideHistory(c)
}
