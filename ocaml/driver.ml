(* Generic model runner. Linked against a per-property extracted [Model] (model.ml) that exports
     type sx = SZ of z | SB of n list | SL of sx list
     type verdict = Agree | Differ of sx | Violates of sx | BadCase
     val run : z -> sx -> sx -> verdict
   Input (file argv.(1)), one case per line, TAB separated:  stream  which  case-sx  observed-sx
   Output: one line per non-agreeing case and a SUMMARY line. Parsing / printing only: no logic. *)
open Model

(* ---- arbitrary size decimal <-> positive (Coq binary numbers stay Coq datatypes) ---------- *)
let pos_of_decimal (s : string) : positive option =
  (* s: non-empty string of digits, value > 0 expected; returns None for zero *)
  let digits = Array.init (String.length s) (fun i -> Char.code s.[i] - 48) in
  let n = Array.length digits in
  let is_zero () = Array.for_all (fun d -> d = 0) digits in
  let halve () = (* divides in place, returns remainder *)
    let carry = ref 0 in
    for i = 0 to n - 1 do
      let v = !carry * 10 + digits.(i) in
      digits.(i) <- v / 2; carry := v mod 2
    done; !carry in
  if is_zero () then None else begin
    (* collect bits little-endian *)
    let bits = ref [] in
    while not (is_zero ()) do bits := halve () :: !bits done;
    (* !bits is big-endian, head = most significant = 1 *)
    match !bits with
    | [] -> None
    | _ :: rest -> Some (List.fold_left (fun acc b -> if b = 1 then XI acc else XO acc) XH rest)
  end

let decimal_of_pos (p : positive) : string =
  (* bits big-endian *)
  let rec bits p acc = match p with XH -> 1 :: acc | XO q -> bits q (0 :: acc) | XI q -> bits q (1 :: acc) in
  let bs = bits p [] in
  let digits = ref [0] in (* little-endian decimal *)
  let double_add b =
    let carry = ref b in
    digits := List.map (fun d -> let v = d * 2 + !carry in carry := v / 10; v mod 10) !digits;
    if !carry > 0 then digits := !digits @ [!carry] in
  List.iter double_add bs;
  String.concat "" (List.rev_map string_of_int !digits)

let z_of_string (s : string) : z =
  let neg = String.length s > 0 && s.[0] = '-' in
  let body = if neg then String.sub s 1 (String.length s - 1) else s in
  if body = "" then failwith "empty integer";
  String.iter (fun c -> if c < '0' || c > '9' then failwith ("bad integer " ^ s)) body;
  match pos_of_decimal body with
  | None -> Z0
  | Some p -> if neg then Zneg p else Zpos p

let string_of_z = function
  | Z0 -> "0"
  | Zpos p -> decimal_of_pos p
  | Zneg p -> "-" ^ decimal_of_pos p

let n_of_int (i : int) : n =
  if i = 0 then N0 else
    let rec go i = if i = 1 then XH else if i land 1 = 1 then XI (go (i lsr 1)) else XO (go (i lsr 1)) in
    Npos (go i)

let int_of_n = function
  | N0 -> 0
  | Npos p -> let rec go = function XH -> 1 | XO q -> 2 * go q | XI q -> 2 * go q + 1 in go p

(* ---- sx text syntax ---------------------------------------------------------------------- *)
let hexval c = match c with
  | '0'..'9' -> Char.code c - 48 | 'a'..'f' -> Char.code c - 87 | 'A'..'F' -> Char.code c - 55
  | _ -> failwith "bad hex"

let parse_sx (s : string) : sx =
  let n = String.length s in
  let pos = ref 0 in
  let skip () = while !pos < n && s.[!pos] = ' ' do incr pos done in
  let rec value () =
    skip ();
    if !pos >= n then failwith "unexpected end";
    match s.[!pos] with
    | '(' ->
      incr pos;
      let items = ref [] in
      let fin = ref false in
      while not !fin do
        skip ();
        if !pos >= n then failwith "unclosed list";
        if s.[!pos] = ')' then (incr pos; fin := true) else items := value () :: !items
      done;
      SL (List.rev !items)
    | '#' ->
      incr pos;
      let st = !pos in
      while !pos < n && s.[!pos] <> ' ' && s.[!pos] <> ')' do incr pos done;
      let len = !pos - st in
      if len land 1 = 1 then failwith "odd hex";
      let rec build i acc = if i < 0 then acc else
          build (i - 1) (n_of_int (hexval s.[st + 2*i] * 16 + hexval s.[st + 2*i + 1]) :: acc) in
      SB (build (len / 2 - 1) [])
    | _ ->
      let st = !pos in
      while !pos < n && s.[!pos] <> ' ' && s.[!pos] <> ')' do incr pos done;
      SZ (z_of_string (String.sub s st (!pos - st)))
  in
  let v = value () in
  skip ();
  if !pos <> n then failwith "trailing garbage";
  v

let rec print_sx (b : Buffer.t) (v : sx) : unit = match v with
  | SZ z -> Buffer.add_string b (string_of_z z)
  | SB l -> Buffer.add_char b '#';
    List.iter (fun x -> Buffer.add_string b (Printf.sprintf "%02x" (int_of_n x))) l
  | SL l -> Buffer.add_char b '(';
    List.iteri (fun i x -> if i > 0 then Buffer.add_char b ' '; print_sx b x) l;
    Buffer.add_char b ')'

let sx_to_string v = let b = Buffer.create 256 in print_sx b v; Buffer.contents b

let split_tabs (s : string) : string list = String.split_on_char '\t' s

let () =
  let file = Sys.argv.(1) in
  let ic = if file = "-" then stdin else open_in file in
  let agree = ref 0 and differ = ref 0 and viol = ref 0 and bad = ref 0 and lineno = ref 0 in
  (try
     while true do
       let line = input_line ic in
       incr lineno;
       if line <> "" && line.[0] <> '%' then begin
         match split_tabs line with
         | [_stream; which; case; obs] ->
           (match (try Some (z_of_string which, parse_sx case, parse_sx obs) with Failure _ -> None) with
            | None -> incr bad; Printf.printf "B\t%d\tunparsable\n" !lineno
            | Some (w, c, o) ->
              (match run w c o with
               | Agree -> incr agree
               | Differ m -> incr differ; Printf.printf "D\t%d\t%s\n" !lineno (sx_to_string m)
               | Violates m -> incr viol; Printf.printf "V\t%d\t%s\n" !lineno (sx_to_string m)
               | BadCase -> incr bad; Printf.printf "B\t%d\tbadcase\n" !lineno))
         | _ -> incr bad; Printf.printf "B\t%d\tfields\n" !lineno
       end
     done
   with End_of_file -> ());
  Printf.printf "SUMMARY agree=%d differ=%d violates=%d bad=%d lines=%d\n" !agree !differ !viol !bad !lineno
