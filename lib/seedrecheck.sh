#!/bin/bash
# lib/seedrecheck.sh <Cnn> <name> — re-run ./check <Cnn> on /repo with seeded/<name>/patch.diff applied (undone afterwards)
# and record the result in seeded/<name>/meta.json ("recheck").
set -u
P=$1; NAME=$2; D=/verif/seeded/$NAME/patch.diff
cd /verif
git -C /repo apply --check "$D" 2>/dev/null || { echo "patch does not apply"; exit 2; }
git -C /repo apply "$D"
timeout 2400 ./check $P > /tmp/seed_recheck_$P.log 2>&1; RC=$?
git -C /repo apply -R "$D"
grep "VIOLATION\|tier=" /tmp/seed_recheck_$P.log | cut -c1-250 | head -8
python3 - "$P" "$NAME" "$RC" <<'PY'
import sys, json
P, NAME, RC = sys.argv[1:4]
f = '/verif/seeded/%s/meta.json' % NAME
m = json.load(open(f))
log = open('/tmp/seed_recheck_%s.log' % P).read()
viol = [l for l in log.splitlines() if l.startswith('VIOLATION')]
m["recheck"] = {"command": "./check %s (quick, seed 1) with the patch applied, after the check was strengthened" % P,
                "exit": int(RC), "violation_lines": viol[:6], "caught": int(RC) == 1 and bool(viol)}
json.dump(m, open(f, 'w'), indent=1)
print("caught" if m["recheck"]["caught"] else "MISSED", P, NAME)
PY
git -C /repo status --short | grep -v '^??' | head -3
