#!/usr/bin/env python3
"""Runner for one property check.  ./check Cnn [--tier quick|thorough] [--seed N] [--replay FILE]

Verdict logic (DESIGN.md §2.5):
  1. regenerate Gen/*.v from /repo (properties that have a translator), build the property's
     theorems with coqc (full .vo build), audit for Admitted/Axiom/..., read Print Assumptions;
  2. build the Go harness against /repo's current working tree (-tags verif), run corpus + generated
     cases on the REAL code, run the extracted model + property predicate on the same lines;
  3. any predicate violation -> VIOLATION (unless its signature is listed in known_findings.json ->
     KNOWN-FINDING); a broken proof / harness build / model-vs-implementation difference without a
     predicate violation -> search more seeds; still nothing -> VIOLATION ... no-failing-input-found.
"""
import sys, os, json, time, subprocess, hashlib, re, fcntl, shutil, glob, argparse, concurrent.futures

VERIF = os.path.dirname(os.path.dirname(os.path.abspath(__file__)))
REPO = os.environ.get("VERIF_REPO", "/repo")
COQ = os.path.join(VERIF, "coq")
BUILD = os.path.join(VERIF, "build")
GOENV = dict(os.environ, GOFLAGS="-mod=mod", GOPROXY="off")
GOENV.pop("GOTOOLCHAIN", None)
GOENV.pop("GOSUMDB", None)
NCPU = os.cpu_count() or 4

STD_AXIOMS = (  # axioms the standard library declares; allowed but always reported
    "functional_extensionality_dep", "proof_irrelevance", "classic", "JMeq_eq", "eq_rect_eq",
    "propositional_extensionality", "constructive_definite_description", "ClassicalDedekindReals")


def sh(cmd, cwd=None, timeout=1800, env=None):
    t = time.time()
    try:
        p = subprocess.run(cmd, cwd=cwd, shell=isinstance(cmd, str), stdout=subprocess.PIPE,
                           stderr=subprocess.STDOUT, timeout=timeout, env=env, text=True, errors="replace")
        return p.returncode, p.stdout, time.time() - t
    except subprocess.TimeoutExpired as e:
        out = e.stdout if isinstance(e.stdout, str) else (e.stdout or b"").decode("utf8", "replace")
        return 124, (out or "") + "\n[timeout after %ss]" % timeout, time.time() - t


class Lock:
    def __init__(self, name):
        os.makedirs(BUILD, exist_ok=True)
        self.path = os.path.join(BUILD, "." + name + ".lock")

    def __enter__(self):
        self.f = open(self.path, "w")
        fcntl.flock(self.f, fcntl.LOCK_EX)
        return self

    def __exit__(self, *a):
        fcntl.flock(self.f, fcntl.LOCK_UN)
        self.f.close()


def load_prop(pid):
    with open(os.path.join(VERIF, "props", pid + ".json")) as f:
        return json.load(f)


def known_findings(pid):
    path = os.path.join(VERIF, "known_findings.json")
    if not os.path.exists(path):
        return []
    with open(path) as f:
        return [e for e in json.load(f).get("entries", []) if e.get("property") == pid]


# ---------------------------------------------------------------------------------------------
# Coq side
# ---------------------------------------------------------------------------------------------
def ensure_makefile():
    mk = os.path.join(COQ, "Makefile")
    cp = os.path.join(COQ, "_CoqProject")
    files = []
    for d in ("Base", "Gen", "Model", "Proofs", "Properties"):
        files += sorted(os.path.relpath(p, COQ) for p in glob.glob(os.path.join(COQ, d, "**", "*.v"), recursive=True))
    want = "-Q . Verif\n" + "\n".join(files) + "\n"
    if not os.path.exists(cp) or open(cp).read() != want:
        with open(cp, "w") as f:
            f.write(want)
    if not os.path.exists(mk) or os.path.getmtime(mk) < os.path.getmtime(cp):
        rc, out, _ = sh("coq_makefile -f _CoqProject -o Makefile", cwd=COQ, timeout=120)
        if rc != 0:
            raise RuntimeError("coq_makefile failed: " + out)


def run_gen(prop, log):
    """Regenerate Gen/*.v from /repo's current source (translator in the harness: `harness gen`)."""
    gens = prop.get("gen", [])
    if not gens:
        return True, ""
    ok, msgs = True, []
    hdir = os.path.join(VERIF, "harness")
    rc, out, dt = sh(["go", "build", "-o", os.path.join(BUILD, "verifgen"), "./gen"], cwd=hdir, timeout=900, env=GOENV)
    log.append("go build harness/gen rc=%d %.1fs" % (rc, dt))
    if rc != 0:
        return False, "translator does not build: " + out[-1500:]
    for g in gens:
        rc, out, _ = sh([os.path.join(BUILD, "verifgen"), g, "-repo", REPO, "-coq", COQ], timeout=300, env=GOENV)
        log.append("gen %s rc=%d %s" % (g, rc, out.strip()[-400:]))
        if rc != 0:
            ok = False
            msgs.append("translator %s: %s" % (g, out.strip()[-800:]))
    return ok, "\n".join(msgs)


def coq_build(prop, log):
    """make the property's .vo (and what it depends on); then re-compile Properties/Cnn.v explicitly
    to read this run's Print Assumptions. Returns dict(ok, failed_file, error, theorems, axioms)."""
    pid = prop["id"]
    target = "Properties/%s.vo" % pid
    res = {"ok": False, "theorems": [], "examples": [], "axioms": {}, "error": "", "failed_file": ""}
    ensure_makefile()
    rc, out, dt = sh("make -k -j%d %s" % (NCPU, target), cwd=COQ, timeout=3000)
    log.append("make %s rc=%d %.1fs" % (target, rc, dt))
    if rc != 0:
        m = re.search(r'File "\./([^"]+)", line (\d+)', out)
        res["failed_file"] = m.group(1) if m else "?"
        res["error"] = out[-3000:]
        return res
    src = os.path.join(COQ, "Properties", pid + ".v")
    rc, out, dt = sh("coqc -Q . Verif Properties/%s.v" % pid, cwd=COQ, timeout=1200)
    log.append("coqc Properties/%s.v rc=%d %.1fs" % (pid, rc, dt))
    if rc != 0:
        res["failed_file"] = "Properties/%s.v" % pid
        res["error"] = out[-3000:]
        return res
    text = open(src).read()
    names = re.findall(r'^\s*(Theorem|Lemma|Example|Corollary)\s+([A-Za-z0-9_\']+)', text, re.M)
    res["theorems"] = [n for k, n in names if k != "Example"]
    res["examples"] = [n for k, n in names if k == "Example"]
    # Print Assumptions blocks, in order
    printed = re.findall(r'^\s*Print Assumptions\s+([A-Za-z0-9_\']+)\s*\.', text, re.M)
    blocks = []
    cur = None
    for line in out.splitlines():
        if line.startswith("Closed under the global context"):
            blocks.append([])
            cur = None
        elif line.startswith("Axioms:"):
            cur = []
            blocks.append(cur)
        elif cur is not None and line.strip():
            mm = re.match(r'^([A-Za-z0-9_\.\']+)\s*:', line)
            if mm:
                cur.append(mm.group(1))
    bad = []
    for i, n in enumerate(printed):
        ax = blocks[i] if i < len(blocks) else ["<no Print Assumptions output>"]
        res["axioms"][n] = ax
        for a in ax:
            if a.split(".")[-1] not in STD_AXIOMS:
                bad.append("%s depends on non-stdlib axiom %s" % (n, a))
    missing = [t for t in res["theorems"] if t not in printed]
    if missing:
        bad.append("no Print Assumptions under: " + ", ".join(missing))
    if bad:
        res["error"] = "; ".join(bad)
        res["failed_file"] = "Properties/%s.v (assumption audit)" % pid
        return res
    res["ok"] = True
    return res


AUDIT_RE = re.compile(r'\b(Admitted|admit|Axiom|Axioms|Parameter|Parameters|Conjecture|Abort All|'
                      r'Unset Guard Checking|Unset Positivity Checking|Unset Universe Checking|bypass_check|'
                      r'type-in-type|impredicative-set|Admit Obligations)\b')


def audit():
    """grep the whole development; Variable/Hypothesis are only allowed inside a Section."""
    issues = []
    for path in sorted(glob.glob(os.path.join(COQ, "**", "*.v"), recursive=True)):
        rel = os.path.relpath(path, COQ)
        depth = 0
        txt = open(path).read()
        txt = re.sub(r'\(\*.*?\*\)', lambda m: " " * 0 + "\n" * m.group(0).count("\n"), txt, flags=re.S)
        for i, line in enumerate(txt.splitlines(), 1):
            if re.match(r'^\s*Section\b', line):
                depth += 1
            if re.match(r'^\s*End\b', line) and depth > 0:
                depth -= 1
            if AUDIT_RE.search(line):
                issues.append("%s:%d: %s" % (rel, i, line.strip()[:80]))
            if depth == 0 and re.match(r'^\s*(Variable|Variables|Hypothesis|Hypotheses|Context)\b', line):
                issues.append("%s:%d: %s outside a section" % (rel, i, line.strip()[:60]))
    return issues


def build_modelrun(prop, log):
    pid = prop["id"]
    d = os.path.join(BUILD, "ocaml", pid)
    os.makedirs(d, exist_ok=True)
    exe = os.path.join(d, "modelrun")
    ext = os.path.join(COQ, "Extract", pid + ".v")
    deps = glob.glob(os.path.join(COQ, "Base", "*.v")) + glob.glob(os.path.join(COQ, "Model", "**", "*.v"), recursive=True) + \
        glob.glob(os.path.join(COQ, "Gen", "*.v")) + [ext, os.path.join(VERIF, "ocaml", "driver.ml")]
    newest = max(os.path.getmtime(p) for p in deps)
    if os.path.exists(exe) and os.path.getmtime(exe) >= newest:
        return True, ""
    # the model files it needs must be compiled (.vo); Extract/<id>.v requires them
    rc, out, dt = sh("make -k -j%d %s" % (NCPU, " ".join(prop.get("model_vo", []))), cwd=COQ, timeout=3000)
    if rc != 0:
        return False, "model does not compile:\n" + out[-2000:]
    for f in ("model.ml", "model.mli"):
        if os.path.exists(os.path.join(d, f)):
            os.remove(os.path.join(d, f))
    rc, out, dt = sh("coqc -Q %s Verif %s -o %s" % (COQ, ext, os.path.join(d, pid + ".vo")), cwd=d, timeout=900)
    log.append("extract %s rc=%d %.1fs" % (pid, rc, dt))
    if rc != 0 or not os.path.exists(os.path.join(d, "model.ml")):
        return False, "extraction failed:\n" + out[-2000:]
    if os.path.exists(os.path.join(d, "model.mli")):
        os.remove(os.path.join(d, "model.mli"))
    shutil.copy(os.path.join(VERIF, "ocaml", "driver.ml"), os.path.join(d, "driver.ml"))
    rc, out, dt = sh("ocamlfind ocamlopt -w -a -O2 model.ml driver.ml -o modelrun 2>&1 || ocamlfind ocamlopt -w -a model.ml driver.ml -o modelrun",
                     cwd=d, timeout=900)
    log.append("ocamlopt %s rc=%d %.1fs" % (pid, rc, dt))
    if rc != 0:
        return False, "ocaml build failed:\n" + out[-2000:]
    return True, ""


# ---------------------------------------------------------------------------------------------
# Go side
# ---------------------------------------------------------------------------------------------
def harness_exe(pid):
    return os.path.join(BUILD, "harness-" + pid)


def build_harness(log, pid):
    hdir = os.path.join(VERIF, "harness")
    try:
        shutil.copy(os.path.join(REPO, "go.sum"), os.path.join(hdir, "go.sum"))
    except OSError:
        pass
    rc, out, dt = sh(["go", "build", "-tags", "verif", "-o", harness_exe(pid), "./" + pid.lower()], cwd=hdir, timeout=1800, env=GOENV)
    log.append("go build harness/%s rc=%d %.1fs" % (pid.lower(), rc, dt))
    return rc == 0, out


def run_harness(prop, tier, seed, rundir, log, extra=()):
    pid = prop["id"]
    cases = os.path.join(rundir, "cases.txt")
    stats = os.path.join(rundir, "stats.json")
    for f in (cases, stats):
        if os.path.exists(f):
            os.remove(f)
    corpus = os.path.join(VERIF, "corpus", pid)
    cmd = [harness_exe(pid), "-out", cases, "-stats", stats, "-seed", str(seed), "-tier", tier,
           "-cur", os.path.join(rundir, "current.case")]
    if os.path.isdir(corpus):
        cmd += ["-corpus", corpus]
    cmd += list(extra)
    to = prop.get("harness_timeout", {}).get(tier, 900 if tier == "quick" else 7200)
    env = dict(GOENV)
    env.update(prop.get("harness_env", {}))
    rc, out, dt = sh(cmd, cwd=rundir, timeout=to, env=env)
    log.append("harness %s seed=%s rc=%d %.1fs" % (pid, seed, rc, dt))
    return rc, out, cases, stats


def run_model(prop, cases, rundir, log):
    """shard the case file, run modelrun on every shard in parallel; returns (summary, nonagree list)"""
    pid = prop["id"]
    exe = os.path.join(BUILD, "ocaml", pid, "modelrun")
    with open(cases, "rb") as f:
        lines = f.readlines()
    n = len(lines)
    nshard = max(1, min(NCPU, n // 200 + 1))
    # interleaved sharding balances heavy tails
    shards = [[] for _ in range(nshard)]
    for i, l in enumerate(lines):
        shards[i % nshard].append((i + 1, l))
    paths = []
    for k, sh_ in enumerate(shards):
        p = os.path.join(rundir, "shard%d.txt" % k)
        with open(p, "wb") as f:
            for _, l in sh_:
                f.write(l)
        paths.append(p)
    to = prop.get("model_timeout", 3000)

    def one(k):
        # the extracted model is plain structural recursion: give it a large stack (a wedged run can leave a trace of
        # several hundred thousand labels)
        return sh(["sh", "-c", 'ulimit -s unlimited 2>/dev/null || ulimit -s 4000000 2>/dev/null; exec "$0" "$1"', exe, paths[k]], timeout=to)
    summary = {"agree": 0, "differ": 0, "violates": 0, "bad": 0, "lines": 0}
    non = []
    errors = []
    t0 = time.time()
    with concurrent.futures.ThreadPoolExecutor(max_workers=nshard) as ex:
        for k, (rc, out, dt) in enumerate(ex.map(one, range(nshard))):
            if rc != 0:
                # keep the verdicts the shard printed before it died: a violation found there is still a violation
                errors.append("modelrun shard %d rc=%d: %s" % (k, rc, out[-300:]))
            for line in out.splitlines():
                if line.startswith("SUMMARY"):
                    for kv in line.split()[1:]:
                        a, b = kv.split("=")
                        summary[a] += int(b)
                elif line[:2] in ("D\t", "V\t", "B\t"):
                    parts = line.split("\t")
                    local = int(parts[1])
                    gl, raw = shards[k][local - 1]
                    non.append({"kind": parts[0], "line": gl, "model": parts[2] if len(parts) > 2 else "",
                                "raw": raw.decode("utf8", "replace").rstrip("\n")})
    for p in paths:
        os.remove(p)
    log.append("modelrun %d lines in %d shards %.1fs %s" % (n, nshard, time.time() - t0, summary))
    non.sort(key=lambda x: x["line"])
    return summary, non, errors


def signature(pid, item):
    """signature of a disagreeing case, matched against known_findings.json entries: the stream tag
    (generator / call site), plus the PANIC site when the observable carries one."""
    parts = item["raw"].split("\t")
    stream = parts[0] if parts else "?"
    if stream.startswith("corpus:"):
        stream = stream[len("corpus:"):]
    obs = parts[3] if len(parts) > 3 else ""
    return stream, obs


def match_known(pid, item, entries):
    stream, obs = signature(pid, item)
    for e in entries:
        if e.get("status") != "finding":
            continue
        m = e.get("match", {})
        if "stream" in m and not re.fullmatch(m["stream"], stream):
            continue
        if "case_regex" in m:
            parts = item["raw"].split("\t")
            if len(parts) < 3 or not re.search(m["case_regex"], parts[2]):
                continue
        if "obs_regex" in m and not re.search(m["obs_regex"], obs):
            continue
        if "model_regex" in m and not re.search(m["model_regex"], item.get("model", "")):
            continue
        if "obs_hex_contains" in m and m["obs_hex_contains"] not in obs:
            continue
        return e
    return None


def write_replay(pid, name, payload):
    d = os.path.join(VERIF, "replays", pid)
    os.makedirs(d, exist_ok=True)
    p = os.path.join(d, name)
    with open(p, "w") as f:
        json.dump(payload, f, indent=1)
    return p


def vm_crosscheck(prop, cases, rundir, log, skip_lines=(), limit=400):
    """thorough tier: re-evaluate a sample of the case lines INSIDE Coq (vm_compute) with the same
    entry point that was extracted, to validate extraction + OCaml driver."""
    pid = prop["id"]
    entry = prop["entry"]
    mod = prop["entry_module"]
    # only lines the extracted runner judged Agree are sampled (a listed known finding is a
    # Violates line by design): the cross-check validates extraction + driver, not the property
    skip = set(skip_lines)
    with open(cases) as f:
        lines = [l.rstrip("\n") for i, l in enumerate(f, 1) if l.strip() and len(l) < 4000 and i not in skip]
    if not lines:
        return True, 0, "0"
    step = max(1, len(lines) // limit)
    sample = lines[::step][:limit]

    def coq_of_sx(s):
        # translate text syntax into a Coq term
        out = []
        i = 0
        n = len(s)

        def val():
            nonlocal i
            while i < n and s[i] == ' ':
                i += 1
            if s[i] == '(':
                i += 1
                items = []
                while True:
                    while i < n and s[i] == ' ':
                        i += 1
                    if s[i] == ')':
                        i += 1
                        break
                    items.append(val())
                return "(SL [" + "; ".join(items) + "])"
            if s[i] == '#':
                i += 1
                st = i
                while i < n and s[i] not in ' )':
                    i += 1
                hx = s[st:i]
                bs = [str(int(hx[j:j + 2], 16)) for j in range(0, len(hx), 2)]
                return "(SB [" + "; ".join(bs) + "]%N)"
            st = i
            while i < n and s[i] not in ' )':
                i += 1
            return "(SZ (%s)%%Z)" % s[st:i]
        return val()
    body = []
    for l in sample:
        p = l.split("\t")
        if len(p) != 4:
            continue
        body.append("(%s%%Z, %s, %s)" % (p[1], coq_of_sx(p[2]), coq_of_sx(p[3])))
    os.makedirs(os.path.join(COQ, "Cases"), exist_ok=True)
    vfile = os.path.join(COQ, "Cases", "cases_%s.v" % pid)
    with open(vfile, "w") as f:
        f.write("From Verif Require Import Base.Sx %s.\n" % mod)
        f.write("Definition cases : list (Z * sx * sx) := [\n" + ";\n".join(body) + "].\n")
        f.write("Definition is_agree (v : verdict) : bool := match v with Agree => true | _ => false end.\n")
        f.write("Definition nagree := Eval vm_compute in length (filter (fun '(w, c, o) => is_agree (%s w c o)) cases).\n" % entry)
        f.write("Print nagree.\n")
    rc, out, dt = sh("coqc -Q . Verif Cases/cases_%s.v" % pid, cwd=COQ, timeout=3000)
    log.append("vm_compute cross-check %d cases rc=%d %.1fs" % (len(body), rc, dt))
    for ext in (".v", ".vo", ".vok", ".vos", ".glob"):
        try:
            os.remove(os.path.join(COQ, "Cases", "cases_%s%s" % (pid, ext)))
        except OSError:
            pass
    try:
        os.remove(os.path.join(COQ, "Cases", ".cases_%s.aux" % pid))
    except OSError:
        pass
    if rc != 0:
        return False, len(body), out[-1500:]
    m = re.search(r'nagree\s*=\s*(\d+)', out)
    return (m is not None), len(body), (m.group(1) if m else out[-500:])


# ---------------------------------------------------------------------------------------------
def main():
    ap = argparse.ArgumentParser()
    ap.add_argument("prop")
    ap.add_argument("--tier", default=os.environ.get("VERIF_TIER", "quick"))
    ap.add_argument("--seed", type=int, default=int(os.environ.get("VERIF_SEED", "1") or "1"))
    ap.add_argument("--replay")
    a = ap.parse_args()
    pid = a.prop.upper()
    tier = a.tier if a.tier in ("quick", "thorough") else "quick"
    prop = load_prop(pid)
    t0 = time.time()
    log = []
    rundir = os.path.join(BUILD, "run", pid + "-" + tier)
    os.makedirs(rundir, exist_ok=True)
    entries = known_findings(pid)

    if a.replay:
        return do_replay(prop, a.replay, log)

    violations = []      # (replay_path, suffix)
    known_hits = {}      # finding id -> count
    obligations = []     # (name, discharged)

    # ---- build: harness first (the translator lives in it), then Gen, Coq, extraction ---------
    with Lock("build"):
        ok_h, out_h = build_harness(log, pid)
        gen_ok, gen_msg = run_gen(prop, log)
        cq = coq_build(prop, log)
        aud = audit()
        ok_m, msg_m = build_modelrun(prop, log)

    for t in cq["theorems"] + cq["examples"]:
        obligations.append(("theorem " + t, cq["ok"]))
    if not cq["theorems"] and not cq["ok"]:
        obligations.append(("theorems of Properties/%s.v" % pid, False))
    obligations.append(("audit: no Admitted/Axiom/Parameter/unchecked flags in coq/", not aud))
    broken = []  # descriptions of broken proof obligations / ties
    if not ok_h:
        broken.append(("harness-build", "the correspondence harness no longer builds against /repo:\n" + out_h[-3000:]))
    if not gen_ok:
        broken.append(("translator", gen_msg))
    if not cq["ok"]:
        broken.append(("proof", "proof obligation no longer checks: %s\n%s" % (cq["failed_file"], cq["error"])))
    if aud:
        broken.append(("audit", "forbidden declarations:\n" + "\n".join(aud[:20])))
    if not ok_m:
        broken.append(("model-build", msg_m))

    stats = {}
    summary = {"agree": 0, "differ": 0, "violates": 0, "bad": 0, "lines": 0}
    non = []
    seeds_run = []
    harness_failed = None
    if ok_h and ok_m:
        search_seeds = [a.seed]
        tried_search = False
        while search_seeds:
            seed = search_seeds.pop(0)
            seeds_run.append(seed)
            rc, out, cases, statsf = run_harness(prop, tier, seed, rundir, log)
            if rc != 0:
                cur = ""
                try:
                    cur = open(os.path.join(rundir, "current.case")).read()
                except OSError:
                    pass
                harness_failed = {"rc": rc, "output_tail": out[-4000:], "case_in_progress": cur, "seed": seed}
                break
            if os.path.exists(statsf) and not stats:
                stats = json.load(open(statsf))
            s, n_, errs = run_model(prop, cases, rundir, log)
            for k in summary:
                summary[k] += s[k]
            non += [dict(x, seed=seed) for x in n_]
            if errs:
                broken.append(("model-run", "\n".join(errs)))
            has_v = any(x["kind"] == "V" and not match_known(pid, x, entries) for x in non)
            needs_search = (broken or any(x["kind"] in ("D", "B") for x in non)) and not has_v
            if needs_search and not tried_search:
                tried_search = True
                search_seeds += [a.seed + 1000 + i for i in range(prop.get("search_seeds", 2))]
            if tier == "thorough" and seed == a.seed and ok_m and cq["ok"]:
                okx, nx, info = vm_crosscheck(prop, cases, rundir, log, skip_lines=[x['line'] for x in n_])
                obligations.append(("vm_compute cross-check of the extracted runner on %d cases (agree=%s)" % (nx, info), okx and str(info) == str(nx)))
                if not (okx and str(info) == str(nx)):
                    broken.append(("extraction", "in-Coq evaluation disagrees with the extracted runner: %s" % info))

    # ---- classify ---------------------------------------------------------------------------
    printed = []
    vcount = 0
    unlisted_v = [x for x in non if x["kind"] == "V" and not match_known(pid, x, entries)]
    for x in non:
        if x["kind"] == "V":
            e = match_known(pid, x, entries)
            if e:
                known_hits[e["id"]] = known_hits.get(e["id"], 0) + 1
    for e in entries:
        if e.get("status") == "finding" and (known_hits.get(e["id"]) or e.get("always_report")):
            printed.append("KNOWN-FINDING: property=%s %s" % (pid, e["what_fails"]))
    if unlisted_v:
        # smallest case first
        unlisted_v.sort(key=lambda x: len(x["raw"]))
        groups = {}
        for x in unlisted_v:
            st, _ = signature(pid, x)
            groups.setdefault(st, []).append(x)
        for st, xs in list(groups.items())[:5]:
            x = xs[0]
            parts = x["raw"].split("\t")
            rp = write_replay(pid, "violation-%s-%s.json" % (re.sub(r'[^A-Za-z0-9_.-]', '_', st)[:40], hashlib.sha1(x["raw"].encode()).hexdigest()[:10]), {
                "property": pid, "kind": "input", "stream": parts[0], "which": int(parts[1]), "case": parts[2],
                "implementation_observed": parts[3] if len(parts) > 3 else "", "model_expected": x["model"],
                "seed": x["seed"], "tier": tier, "count_in_stream": len(xs),
                "how_to_replay": "./check %s --replay <this file>   (re-runs the real code and the model on the case)" % pid})
            violations.append((rp, ""))
            vcount += len(xs)
    if harness_failed:
        rp = write_replay(pid, "harness-crash-%d.json" % harness_failed["seed"], dict(
            property=pid, kind="crash", what="the harness process running the real code exited abnormally (unrecovered panic / fatal / timeout)",
            **harness_failed))
        is_case = bool(harness_failed["case_in_progress"])
        violations.append((rp, "" if is_case else " no-failing-input-found"))
        vcount += 1
    if not unlisted_v and not harness_failed:
        diffs = [x for x in non if x["kind"] in ("D", "B")]
        if broken or diffs:
            names = [b[0] for b in broken] + (["correspondence"] if diffs else [])
            payload = {"property": pid, "kind": "obligation", "no_longer_checks": names,
                       "details": [{"what": b[0], "message": b[1]} for b in broken],
                       "seeds_searched": seeds_run,
                       "disagreeing_cases": [{"line": x["raw"][:4000], "model_expected": x["model"][:2000]} for x in diffs[:10]],
                       "explanation": "a proof obligation or the model/implementation correspondence is broken; the search over the seeds above found no input on which the property's predicate fails"}
            rp = write_replay(pid, "unproved-%s.json" % "-".join(names)[:60], payload)
            violations.append((rp, " no-failing-input-found"))
            vcount += 1

    # correspondence obligations: one per stream of this run
    if stats:
        bad_streams = set(signature(pid, x)[0] for x in non if not (x["kind"] == "V" and match_known(pid, x, entries)))
        for st in sorted(stats.get("streams", {})):
            base = st[len("corpus:"):] if st.startswith("corpus:") else st
            obligations.append(("correspondence stream '%s': implementation = model and predicate holds on %d cases" % (st, stats["streams"][st]),
                                base not in bad_streams and st not in bad_streams))
        for name, cnt in sorted(stats.get("oracles_checked", {}).items()):
            failed = [f for f in (stats.get("oracle_failures") or []) if f.startswith(name + ":")]
            obligations.append(("oracle hypothesis '%s' checked on %d inputs" % (name, cnt), not failed))
            if failed:
                broken.append(("oracle", failed[0]))
    else:
        obligations.append(("correspondence run", False))

    # known findings keep their obligation open but do not fail the run
    wall = time.time() - t0
    n_ob = len(obligations)
    n_ok = sum(1 for _, d in obligations if d)
    axioms_used = sorted(set(a_ for v in cq["axioms"].values() for a_ in v))
    ev = {
        "property_id": pid, "tier": tier, "seed": a.seed, "level": "proof",
        "coverage": {
            "obligations": n_ob, "discharged": n_ok,
            "obligation_list": [{"name": n_, "discharged": d} for n_, d in obligations],
            "checker_cmd": "cd coq && make -j%d Properties/%s.vo && coqc -Q . Verif Properties/%s.v (Coq 8.16.1 kernel; Print Assumptions read back)%s"
                           % (NCPU, pid, pid, "; coqchk -silent -o" if tier == "thorough" and prop.get("coqchk", True) else ""),
            "trusted_base": prop.get("trusted_base", []) + ["axioms reported by Print Assumptions in this run: " + (", ".join(axioms_used) if axioms_used else "none (Closed under the global context)")],
            "theorems": cq["theorems"], "nonvacuity_examples": cq["examples"], "axioms": cq["axioms"],
            "evaluations": summary["lines"], "distinct_nontrivial": stats.get("distinct_nontrivial", 0),
            "distinct_cases": stats.get("distinct", 0),
            "rule": stats.get("rule", ""), "samples": stats.get("samples", [])[:12],
            "streams": stats.get("streams", {}), "input_distribution": stats.get("distribution", {}),
            "model_vs_impl": summary, "seeds": seeds_run, "exhaustive": bool(prop.get("exhaustive_stream")),
            "exhaustive_note": prop.get("exhaustive_stream", ""),
            "known_findings_hit": known_hits, "oracles_checked": stats.get("oracles_checked", {}),
            "explanation": prop.get("explanation", ""),
            "log": log,
        },
        "assumptions": prop.get("assumptions", []),
        "wall_s": round(wall, 2), "violations": vcount,
    }
    if tier == "thorough" and prop.get("coqchk", True) and cq["ok"]:
        with Lock("build"):
            rc, out, dt = sh("coqchk -silent -o -Q . Verif Verif.Properties.%s" % pid, cwd=COQ, timeout=5400)
        ev["coverage"]["coqchk"] = {"rc": rc, "seconds": round(dt, 1), "output_tail": out[-1500:]}
        ev["coverage"]["obligation_list"].append({"name": "coqchk re-check of Properties/%s.vo and its dependencies" % pid, "discharged": rc == 0})
        ev["coverage"]["obligations"] += 1
        ev["coverage"]["discharged"] += 1 if rc == 0 else 0
        if rc != 0:
            rp = write_replay(pid, "coqchk-failed.json", {"property": pid, "kind": "obligation", "no_longer_checks": ["coqchk"], "output": out[-3000:]})
            violations.append((rp, " no-failing-input-found"))
            ev["violations"] += 1
    os.makedirs(os.path.join(VERIF, "evidence"), exist_ok=True)
    with open(os.path.join(VERIF, "evidence", pid + ".json"), "w") as f:
        json.dump(ev, f, indent=1)

    for l in printed:
        print(l)
    print("%s tier=%s seed=%d: %d/%d obligations discharged, %d cases (%d distinct non-trivial), model-vs-impl %s, %.1fs"
          % (pid, tier, a.seed, ev["coverage"]["discharged"], ev["coverage"]["obligations"], summary["lines"], stats.get("distinct_nontrivial", 0), summary, time.time() - t0))
    if violations:
        for rp, suffix in violations:
            print("VIOLATION property=%s replay=%s%s" % (pid, rp, suffix))
        return 1
    return 0


def do_replay(prop, path, log):
    pid = prop["id"]
    with open(path) as f:
        r = json.load(f)
    if r.get("kind") != "input":
        print(json.dumps(r, indent=1)[:6000])
        print("replay: this file records a broken obligation / crash, not a single input; see its fields above")
        return 1
    with Lock("build"):
        ok_h, out_h = build_harness(log, pid)
        run_gen(prop, log)          # the generated definitions must describe the tree being replayed on
        ok_m, msg_m = build_modelrun(prop, log)
    if not ok_h or not ok_m:
        print("build failed", out_h[-2000:], msg_m)
        return 2
    line = "%s\t%d\t%s" % (r["stream"], r["which"], r["case"])
    rc, out, _ = sh([harness_exe(pid), "-replay", line], timeout=600, env=GOENV)
    res = [l for l in out.splitlines() if l.count("\t") >= 3]
    if rc != 0 or not res:
        print("implementation run failed (rc=%d):\n%s" % (rc, out[-3000:]))
        print("VIOLATION property=%s replay=%s" % (pid, path))
        return 1
    rundir = os.path.join(BUILD, "run", pid + "-replay")
    os.makedirs(rundir, exist_ok=True)
    cf = os.path.join(rundir, "cases.txt")
    with open(cf, "w") as f:
        f.write(res[-1] + "\n")
    rc2, out2, _ = sh([os.path.join(BUILD, "ocaml", pid, "modelrun"), cf], timeout=600)
    print("case:        ", r["case"][:2000])
    print("implementation:", res[-1].split("\t")[3][:2000])
    print("model runner:  ", out2.strip()[:2000])
    if "violates=0" in out2 and "differ=0" in out2 and "bad=0" in out2:
        print("replay: the property holds on this case now")
        return 0
    print("VIOLATION property=%s replay=%s" % (pid, path))
    return 1


if __name__ == "__main__":
    sys.exit(main())
