import sys, json, re, glob, os, fnmatch
P = sys.argv[1]
props = {json.loads(l)['id']: json.loads(l) for l in open('/verif/properties.jsonl')}
anch = props[P]['anchors']['files']
prof = sys.argv[2] if len(sys.argv) > 2 else '/tmp/cov/out/%s.prof' % P
blocks = {}
for l in open(prof):
    if l.startswith('mode:'): continue
    m = re.match(r'(.+):(\d+)\.(\d+),(\d+)\.(\d+) (\d+) (\d+)$', l.strip())
    if not m: continue
    f = m.group(1)
    if not f.startswith('github.com/ozontech/file.d/'): continue
    rel = f[len('github.com/ozontech/file.d/'):]
    if not any(fnmatch.fnmatch(rel, a) for a in anch): continue
    if rel.endswith('_test.go') or 'verif_' in rel: continue
    key = (int(m.group(2)), int(m.group(4)))
    d = blocks.setdefault(rel, {})
    d[key] = (max(d.get(key, (0, 0))[0], int(m.group(7))), int(m.group(6)))
tot = cov = 0
out = []
for rel in sorted(blocks):
    src = open('/tmp/cov/repo/' + rel).read().split('\n')
    funcs = [(i + 1, re.match(r'func\s+(\([^)]*\)\s*)?([A-Za-z0-9_]+)', s).group(2)) for i, s in enumerate(src) if re.match(r'func\s', s)]
    def fn(line):
        name = '?'
        for ln, n in funcs:
            if ln <= line: name = n
        return name
    unc = sorted(k for k, v in blocks[rel].items() if v[0] == 0)
    t = sum(v[1] for v in blocks[rel].values()); c = sum(v[1] for v in blocks[rel].values() if v[0] > 0)
    tot += t; cov += c
    out.append('## %s: %d/%d statements covered' % (rel, c, t))
    byfn = {}
    for (a, b) in unc:
        byfn.setdefault(fn(a), []).append((a, b))
    for f_, bl in byfn.items():
        out.append('  func %s: uncovered blocks at lines %s' % (f_, ', '.join('%d-%d' % x for x in bl)))
        for (a, b) in bl[:6]:
            out.append('      %d: %s' % (a, src[a - 1].strip()[:140]))
print('# %s coverage of anchored files by the quick tier (seed 1): %d/%d statements (%.1f%%)' % (P, cov, tot, 100.0 * cov / max(tot, 1)))
print('\n'.join(out))
