#!/bin/bash
# lib/reftest.sh <Cnn> <patch.diff> — a HARMLESS rewrite: apply to /repo, run ./check <Cnn>, undo; a VIOLATION line is a false alarm.
set -u
P=$1; D=$2
cd /verif
git -C /repo apply --check "$D" 2>/dev/null || { echo "patch does not apply"; exit 2; }
git -C /repo apply "$D"
timeout 2400 ./check $P > /tmp/ref_check_$P.log 2>&1; RC=$?
git -C /repo apply -R "$D"
echo "exit=$RC"; grep "VIOLATION\|tier=" /tmp/ref_check_$P.log | cut -c1-260
git -C /repo status --short | grep -v '^??' | head -3
