#!/bin/bash
# development aid (not used by any registered command): statement coverage of the ANCHORED files of a property by its
# correspondence harness. Needs a clean scratch worktree of /repo at /tmp/cov/repo (git -C /repo worktree add --detach /tmp/cov/repo HEAD)
# and lib/cov_analyze.py copied to /tmp/cov/analyze.py; everything it writes lives under /tmp/cov.
# usage: run2.sh Cnn [tier]  — copies /verif/harness to a private scratch dir, builds harness Cnn with coverage against the
# clean worktree /tmp/cov/repo, runs it (seed 1), writes /tmp/cov/out2/Cnn.prof and prints the analysis of the anchored files
P=$1; T=${2:-quick}; p=$(echo $P | tr 'C' 'c')
export GOFLAGS=-mod=mod GOPROXY=off
W=/tmp/cov/w-$P; rm -rf $W; mkdir -p $W; cp -r /verif/harness $W/harness; cd $W/harness
sed -i 's|=> /repo|=> /tmp/cov/repo|' go.mod; cp /tmp/cov/repo/go.sum .
go build -tags verif -cover -coverpkg=github.com/ozontech/file.d/...,verif/harness/$p -o $W/harness-$P ./$p 2>&1 | tail -5
rm -rf $W/out $W/run; mkdir -p $W/out $W/run /tmp/cov/out2; cd $W/run
ENVX=$(python3 -c "
import json
d=json.load(open('/verif/props/$P.json'))
print(' '.join('%s=%s'%(k,v) for k,v in d.get('harness_env',{}).items()))")
C=""; [ -d /verif/corpus/$P ] && C="-corpus /verif/corpus/$P"
env $ENVX GOCOVERDIR=$W/out timeout 3000 $W/harness-$P -out c.txt -stats s.json -seed 1 -tier $T -cur cur $C > /dev/null 2> err.txt
echo "$P rc=$? cases=$(wc -l < c.txt)"
go tool covdata textfmt -i=$W/out -o /tmp/cov/out2/$P.prof 2>/dev/null
python3 /tmp/cov/analyze.py $P /tmp/cov/out2/$P.prof
rm -rf $W
