#!/usr/bin/env python3
"""Regenerates MANIFEST.json from props/*.json (one file per claimed property) and
props/not_applicable.json. Run after adding or changing a property description."""
import json, os, glob
V = os.path.dirname(os.path.dirname(os.path.abspath(__file__)))
ids = [json.loads(l)["id"] for l in open(os.path.join(V, "properties.jsonl"))]
checks = []
claimed = set()
for pid in ids:
    p = os.path.join(V, "props", pid + ".json")
    if not os.path.exists(p):
        continue
    d = json.load(open(p))
    if d.get("disabled") or not d.get("ready") or "level_text" not in d or "level_note" not in d:
        continue   # "ready": true is set by the coordinator once the check is integrated and green
    claimed.add(pid)
    checks.append({
        "property_id": pid,
        "quick_cmd": "./check %s --tier quick" % pid,
        "thorough_cmd": "./check %s --tier thorough" % pid,
        "evidence_file": "/verif/evidence/%s.json" % pid,
        "replay_cmd_template": "./check %s --replay {path}" % pid,
        "engine": "coq-proof+correspondence",
        "level_claimed": {"category": "proof", "text": d["level_text"], "design_ref": d.get("design_ref", "DESIGN.md §5 " + pid)},
        "level_note": d["level_note"],
        "technique": d.get("technique", "machine-checked proof in Rocq (Coq 8.16.1) of a Gallina model + differential correspondence check of the extracted model against the Go implementation"),
    })
na_path = os.path.join(V, "props", "not_applicable.json")
na = json.load(open(na_path)) if os.path.exists(na_path) else {}
not_app = [{"property_id": pid, "reason": na.get(pid, "no check registered yet for this property in this revision of /verif (the framework is being extended property by property; see DESIGN.md §5)")}
           for pid in ids if pid not in claimed]
hooks_path = os.path.join(V, "props", "hooks.json")
hooks = json.load(open(hooks_path)) if os.path.exists(hooks_path) else {"source_commits": []}
m = {
    "version": 1,
    "setup_cmd": "./setup.sh",
    "hooks": {
        "guard": "verif",
        "enable": "Go build tag: the harness is built with `go build -tags verif` against /repo (module replace); hook files are `//go:build verif` add-only files",
        "baseline_off_cmd": "cd /repo && GOFLAGS=-mod=mod GOPROXY=off go test -json -vet=off -count=1 -timeout 25m ./...",
        "source_commits": hooks.get("source_commits", []),
        "add_only": True,
    },
    "engines": [{"name": "coq-proof+correspondence", "path": "/verif/check",
                 "serves_properties": sorted(claimed),
                 "kind_free_text": "Coq 8.16.1 theorems about hand-written Gallina models (coq/), tied to /repo on every run by a differential harness (harness/, Go, built against /repo's working tree) whose case lines are re-evaluated by the extracted model (ocaml/driver.ml) and, in the thorough tier, inside Coq by vm_compute; a few definitions are regenerated from the Go source by a go/ast translator (harness gen)"}],
    "checks": checks,
    "not_applicable": not_app,
    "notes": "See DESIGN.md. known_findings.json lists genuine defects recorded rather than repaired, and repaired ones (status fixed).",
}
json.dump(m, open(os.path.join(V, "MANIFEST.json"), "w"), indent=1)
print("MANIFEST.json: %d checks, %d not_applicable" % (len(checks), len(not_app)))
