#!/bin/bash
# lib/seedall.sh [pattern] — regression over every stored seeded change: apply seeded/<name>/patch.diff to /repo, run
# ./check <Cnn> (quick, seed 1), undo; prints caught / MISSED / does-not-apply per seed and a summary. /repo must be clean.
set -u
cd /verif
PAT=${1:-}
[ -z "$(git -C /repo status --short | grep -v '^??')" ] || { echo "/repo is not clean"; exit 2; }
OUT=/verif/seeded/REGRESSION.txt; : > $OUT.tmp
for d in /verif/seeded/*/; do
  n=$(basename $d); [ -f $d/patch.diff ] || continue
  case "$n" in *$PAT*) ;; *) continue;; esac
  P=$(python3 -c "import json,sys; print(json.load(open('$d/meta.json'))['property'])" 2>/dev/null) || continue
  if ! git -C /repo apply --check $d/patch.diff 2>/dev/null; then
    echo "$n $P does-not-apply (the code it patched has changed since, e.g. by a later fix)" | tee -a $OUT.tmp; continue
  fi
  git -C /repo apply $d/patch.diff
  timeout 2400 ./check $P > /tmp/seedall.log 2>&1; RC=$?
  git -C /repo apply -R $d/patch.diff
  V=$(grep -c '^VIOLATION' /tmp/seedall.log)
  NF=$(grep -c 'no-failing-input-found' /tmp/seedall.log)
  if [ $RC -eq 1 ] && [ $V -gt 0 ]; then R="caught (violation lines: $V, of which without failing input: $NF)"; else R="MISSED (exit $RC)"; fi
  echo "$n $P $R" | tee -a $OUT.tmp
done
mv $OUT.tmp $OUT
echo "summary: $(grep -c ' caught' $OUT) caught, $(grep -c MISSED $OUT) missed, $(grep -c does-not-apply $OUT) stale"
git -C /repo status --short | grep -v '^??' | head -3
