#!/usr/bin/env python3
"""Assembles the Properties/Cnn.v files of the pipeline-level properties from the component theorem
files: every theorem is RE-STATED in full (statement text copied from the proved lemma, so that it is
visible in the property file) and closed by `exact <lemma>`, followed by Print Assumptions.
A statement that drifts from its lemma makes coqc fail. Run: python3 lib/mkprops.py"""
import re, os
V = os.path.dirname(os.path.dirname(os.path.abspath(__file__)))
COQ = os.path.join(V, "coq")

def lemmas(path):
    s = open(os.path.join(COQ, path)).read()
    s = re.sub(r'\(\*.*?\*\)', '', s, flags=re.S)
    out = {}
    for m in re.finditer(r'^(Lemma|Theorem|Corollary|Example)\s+([A-Za-z0-9_\']+)(.*?)\nProof\.', s, flags=re.S | re.M):
        out[m.group(2)] = m.group(3).strip()
    return out

def split_binders(sig):
    # sig = "<binders> : <statement>."  -> (binders text, names, statement)
    depth = 0
    for i, ch in enumerate(sig):
        if ch in '([{': depth += 1
        elif ch in ')]}': depth -= 1
        elif ch == ':' and depth == 0 and sig[i:i+2] != ':=':
            binders, stmt = sig[:i].strip(), sig[i+1:].strip()
            break
    else:
        raise ValueError(sig[:80])
    assert stmt.endswith('.'), stmt[-40:]
    stmt = stmt[:-1]
    names = []
    for tok in re.findall(r'\(([^()]*)\)|([A-Za-z_][A-Za-z0-9_\']*)', binders):
        if tok[0]:
            names += tok[0].split(':')[0].split()
        else:
            names.append(tok[1])
    return binders, names, stmt

MODULES = {
 'stream': ("Verif.Base.Sx Verif.Model.Stream Verif.Proofs.Stream Verif.Proofs.StreamTheorems", 'Proofs/StreamTheorems.v'),
 'proc':   ("Verif.Base.Sx Verif.Model.Proc Verif.Proofs.Proc Verif.Proofs.ProcTheorems", 'Proofs/ProcTheorems.v'),
 'pool':   ("Verif.Base.Sx Verif.Model.Pool Verif.Gen.PoolGen Verif.Model.PoolGlue Verif.Proofs.Pool Verif.Proofs.PoolLm Verif.Proofs.PoolStd Verif.Proofs.PoolTheorems", 'Proofs/PoolTheorems.v'),
 'batcher': ("Verif.Base.Sx Verif.Model.Batcher Verif.Proofs.Batcher Verif.Gen.BatcherGen", 'Proofs/Batcher.v'),
 'charged': ("Verif.Base.Sx Verif.Model.Charged Verif.Proofs.Charged", 'Proofs/Charged.v'),
 'sdrain': ("Verif.Base.Sx Verif.Model.Stream Verif.Proofs.Stream Verif.Proofs.StreamTheorems Verif.Proofs.StreamDrain", 'Proofs/StreamDrain.v'),
 'bdrain': ("Verif.Base.Sx Verif.Model.Batcher Verif.Proofs.Batcher Verif.Proofs.BatcherDrain", 'Proofs/BatcherDrain.v'),
 'pdrain': ("Verif.Base.Sx Verif.Model.Proc Verif.Proofs.Proc Verif.Proofs.ProcTheorems Verif.Proofs.ProcDrain", 'Proofs/ProcDrain.v'),
 'gdrain': ("Verif.Base.Sx Verif.Model.Batcher Verif.Model.Proc Verif.Model.StreamFlow Verif.Model.Pipe Verif.Proofs.Batcher Verif.Proofs.Proc Verif.Proofs.StreamFlow Verif.Proofs.Pipe Verif.Proofs.PipeDrain", 'Proofs/PipeDrain.v'),
 'pipe':   ("Verif.Base.Sx Verif.Model.Batcher Verif.Model.Proc Verif.Model.StreamFlow Verif.Model.Pipe Verif.Proofs.Batcher Verif.Proofs.Proc Verif.Proofs.StreamFlow Verif.Proofs.Pipe", 'Proofs/Pipe.v'),
 'hold': ("Verif.Base.Sx Verif.Model.Proc Verif.Model.PipeGlue Verif.Proofs.PipeGlue", 'Proofs/PipeGlue.v'),
 'soff':  ("Verif.Base.Sx Verif.Model.StreamOffsets Verif.Proofs.StreamOffsets", 'Proofs/StreamOffsets.v'),
 'bstop': ("Verif.Base.Sx Verif.Model.Batcher Verif.Proofs.Batcher Verif.Gen.BatcherGen Verif.Proofs.BatcherDrain Verif.Proofs.BatcherStop", 'Proofs/BatcherStop.v'),
 'flow':   ("Verif.Base.Sx Verif.Model.Proc Verif.Model.StreamFlow Verif.Proofs.Proc Verif.Proofs.ProcTheorems Verif.Proofs.StreamFlow Verif.Proofs.StreamFlowTheorems", 'Proofs/StreamFlowTheorems.v'),
}
REQUIRES = "From Verif Require Base.Sx Model.Stream Proofs.Stream Proofs.StreamTheorems Model.Proc Proofs.Proc Proofs.ProcTheorems Model.Pool Gen.PoolGen Model.PoolGlue Proofs.Pool Proofs.PoolLm Proofs.PoolStd Proofs.PoolTheorems Model.Batcher Proofs.Batcher Gen.BatcherGen Model.StreamFlow Proofs.StreamFlow Proofs.StreamFlowTheorems Model.Charged Proofs.Charged Model.Pipe Proofs.Pipe Proofs.StreamDrain Proofs.BatcherDrain Proofs.ProcDrain Proofs.PipeDrain Model.StreamOffsets Proofs.StreamOffsets Proofs.BatcherStop Model.PipeGlue Proofs.PipeGlue.\nFrom Coq Require Import List ZArith Permutation Sorted. Import ListNotations. Open Scope Z_scope.\n"

_used = []   # imports of the blocks of the file being written (a Properties file requires only what its blocks use,
             # so that e.g. a refused pool translator does not break C01 / C02)

def block(prefix, part, items, comment):
    imports, path = MODULES[part]
    for m in imports.split():
        m = m[len("Verif."):] if m.startswith("Verif.") else m
        if m not in _used:
            _used.append(m)
    L = lemmas(path)
    out = ["(* ---- %s ---- *)" % comment, "Module %s_%s." % (prefix.capitalize(), part), "Import %s." % imports, ""]
    for (lemma, name, doc) in items:
        binders, names, stmt = split_binders(L[lemma])
        out.append("(* %s *)" % doc)
        kw = "Example" if name.endswith("nonvacuous") else "Theorem"
        out.append("%s %s_%s %s :\n  %s." % (kw, prefix, name, binders, stmt))
        out.append("Proof. exact (%s). Qed." % (" ".join(["@" + lemma] + ["_"] * 0) if not names else "%s %s" % (lemma, " ".join(names))))
        out.append("Print Assumptions %s_%s.\n" % (prefix, name) if kw == "Theorem" else "")
    out.append("End %s_%s.\n" % (prefix.capitalize(), part))
    return "\n".join(out)

def write(pid, header, blocks):
    req = "From Verif Require %s.\nFrom Coq Require Import List ZArith Permutation Sorted. Import ListNotations. Open Scope Z_scope.\n" % " ".join(_used)
    del _used[:]
    text = "(* %s\n   GENERATED by lib/mkprops.py from the proved component lemmas — statements only. *)\n" % header + req + "\n" + "\n".join(blocks)
    open(os.path.join(COQ, "Properties", pid + ".v"), "w").write(text)
    print(pid, "written")

B = 'batcher'; S = 'stream'; P = 'proc'; PL = 'pool'; F = 'flow'; CH = 'charged'; PI = 'pipe'; SD = 'sdrain'; BD = 'bdrain'; PD = 'pdrain'; GD = 'gdrain'
# ------------------------------------------------------------------------------------------ C02
write("C02", "C02 — per-stream commits arrive in read order, once per event; every accepted event ends in exactly one commit or one silent drop.\n   Composition (DESIGN.md §9.5): events are TAKEN from a stream in put order, each once (stream); they LEAVE the action chain in the order they\n   were taken, whatever the actions hold/flush/drop (processor); they are ADDED to the output in that order (guard F1 of Model/StreamFlow.v,\n   checked on every trace); the output COMMITS in add order, each event once (batcher). Every real trace is replayed through all four models.", [
 block("c02", PI, [
  ("pipe_proj_batcher", "a_pipeline_run_is_a_batcher_run", "COMPOSITION (Model/Pipe.v: one batching output without dead queue x the flows of all streams, synchronised on Add and Commit): the batcher labels of a product run are a run of the batcher"),
  ("pipe_proj_flow", "a_pipeline_run_is_a_flow_run_of_every_stream", "... and, for every stream, the labels that concern it are a run of its flow (processor + queues)"),
  ("pipe_F2_redundant", "commit_in_add_order_follows_from_the_batcher", "guard F2 of the flow (commit in add order) never blocks a commit the batcher allows: in the product it is a THEOREM (from committed = prefix of added), not a per-trace check"),
  ("pipe_commits_increasing", "commits_of_every_stream_strictly_increasing", "for every run of the whole product and every stream: commit notifications carry strictly increasing sequence numbers"),
  ("pipe_commits_nodup", "no_event_of_any_stream_committed_twice", "... each event at most once"),
  ("pipe_commits_are_batcher_commits", "stream_commits_are_the_batcher_commits", "what a stream sees committed is exactly what the batcher committed for it, in that order"),
  ("pipe_input_commits_increasing", "input_notifications_strictly_increasing_never_repeated", "the input plugin is notified of a prefix of these commits in that order (checked on every real trace: the k-th InputPlugin.Commit of a stream is the k-th commit of its flow), hence its notifications are strictly increasing, none twice"),
  ("pipe_conservation", "every_taken_event_of_every_stream_in_exactly_one_place", "conservation in the product"),
  ("pipe_quiescent", "idle_pipeline_every_event_committed_once_or_dropped", "idle (nothing in the processors, nothing waiting, the batcher committed all it was given): every taken event was committed once or dropped by an action"),
  ("pipe_nonvacuous", "pipe_nonvacuous", "two streams through one batcher, a hold and flush, one mixed batch committed"),
 ], "whole pipeline: batcher x all streams"),
 block("c02", F, [
  ("flow_commits_increasing", "commits_of_a_stream_strictly_increasing", "END TO END for one stream (Proc + Out->Add FIFO + Add->Commit FIFO): commit notifications carry strictly increasing sequence numbers"),
  ("flow_commits_nodup", "no_event_committed_twice", "hence no event is committed twice"),
  ("flow_conservation", "every_taken_event_in_exactly_one_place", "committed / added / waiting / dropped / held / in progress partition the taken events"),
  ("flow_quiescent_all_accounted", "at_quiescence_one_commit_or_one_drop", "idle stream: every accepted event ended in exactly one commit or one silent drop"),
  ("flow_out_history_split", "output_history_is_committed_added_waiting", "everything handed to the output, in order = committed ++ added ++ waiting"),
  ("flow_nonvacuous", "flow_nonvacuous", "a run with a held and flushed event, in-order add and commit; a wrong commit is rejected"),
 ], "end to end (one stream)"),
 block("c02", S, [
  ("stream_taken_in_order", "taken_in_put_order", "events of a stream are taken in exactly the order they were put, each once (FIFO, no loss, no duplication inside the stream)"),
  ("stream_reattach_only_after_commit", "handover_only_after_commit", "a stream its processor has left is attached again only after its last taken event was committed at stream level: one owner at a time"),
  ("owner_wf", "one_owner_at_a_time", "owner / detaching / popped / blocked states exclude each other as the code expects"),
  ("stream_demo_nonvacuous", "stream_nonvacuous", "a concrete run with two streams, a hand-over, a block and a time-out"),
 ], "stream"),
 block("c02", P, [
  ("proc_outs_increasing", "events_leave_the_actions_in_read_order", "for ANY behaviour of the actions that follows the hold/propagate protocol P1-P6: the stream-ordered events handed to the output have strictly increasing sequence numbers"),
  ("proc_conservation_perm", "every_taken_event_is_in_exactly_one_place", "conservation: output / dropped / held / in progress partition the events taken, none lost, none duplicated"),
  ("proc_nothing_held_after_pass", "nothing_held_when_the_owner_leaves", "the processor returns from processEvent (and may leave the stream) only with nothing held"),
  ("proc_outs_increasing_noP5_refuted", "order_needs_spawn_discipline_refuted", "without guard P5 (Spawn enters events right of the spawner and not past a holder) the order can break: witness"),
  ("proc_outs_increasing_noP6_refuted", "order_needs_busy_action_sees_every_event_refuted", "without guard P6 (the match conditions of an action are consulted only while it holds nothing) an event can overtake a held one: witness"),
  ("proc_chain3_in_order", "processor_nonvacuous", "three actions, two of them holding: e1, e2, e3 leave in order"),
 ], "processor"),
 block("c02", B, [
  ("commit_in_seq_order", "batches_commit_in_formation_order", "batches enter their commit section in formation order, each once"),
  ("committed_prefix_of_added", "commits_in_add_order", "without a dead queue: the committed events are a prefix of the added events in add order - no event twice, none out of order"),
  ("exactly_once_at_quiescence", "exactly_once_when_idle", "idle batcher: every added event committed exactly once"),
 ], "batcher"),
 block("c02", 'soff', [
  ("file_input_accepts_increasing_commits", "file_input_never_panics_on_increasing_commits", "CONSUMER SIDE (Model/StreamOffsets.v = plugin/input/file/provider.go jobProvider.commit, run on the commit notifications of real traces by monitor 16): commit notifications whose offsets are strictly increasing per stream - what the theorems above give for every stream - never reach the file input's 'offset corruption' panic"),
  ("file_input_panics_on_any_other_order", "any_commit_out_of_order_or_repeated_panics_the_file_input", "... and ONLY those: if the file input survives a sequence of notifications, the offsets of every stream were strictly increasing - one commit out of order or repeated and the collector is down"),
  ("file_input_stores_the_last_commit", "file_input_stores_the_offset_of_the_last_commit", "the offset it stores (and restarts from) for a stream is that of the stream's last commit notification"),
  ("file_input_offsets_nonvacuous", "file_input_offsets_nonvacuous", "two streams, interleaved increasing commits accepted and the last offsets stored; a repeated commit and a commit behind the stored offset both panic"),
 ], "the consumer of the commit order: file input offsets"),
 block("c02", 'hold', [
  ("hl_held_marked", "an_action_that_holds_an_event_is_marked_busy", "PRODUCER SIDE OF 'none is unaccounted for' (the hold ledger of Model/PipeGlue.v, replayed by monitor 17 on the processors' own Do / Result / Propagate labels of every real trace - scripted actions and the REAL join, join_template and k8s multiline plugins alike): on every trace the ledger accepts, an action that holds an event is marked busy by its processor - so the processor goes on waiting on the stream and the next event or the stream's time-out reaches the action, which is the only way a held event comes back"),
  ("hl_clearing_answer_of_a_holder_rejected", "a_holder_that_answers_pass_break_discard_or_hold_is_rejected", "THE SEEDED CLASS (join answering Discard for a line that no longer fits while it holds the first event of the run): in every state, an answer of a holder other than Collapse - Pass, Break and Discard make processor.doActions clear the busy mark, Hold would overwrite the held event - is rejected at that very label"),
  ("hl_step_keeps_holders_marked", "every_accepted_step_keeps_the_holders_marked", "... and no other label can take the mark from a holder: one accepted step preserves 'held implies marked'"),
  ("hl_one_event_per_action", "no_action_holds_two_events", "no (processor, action) holds two events at once"),
  ("hl_accounting", "every_held_event_is_still_held_or_was_propagated_once", "accounting: the events ever held are, as a multiset, the events still held plus the events handed back by Propagate - none handed back twice, none lost"),
  ("hl_quiescent", "idle_pipeline_every_held_event_was_handed_back", "idle pipeline (monitor 17 demands that nothing is held at quiescence): the events handed back are exactly the events that were held, so each goes on to its commit or drop (the theorems above)"),
  ("proc_lts_rejects_the_next_do_of_a_forgotten_holder", "processor_model_rejects_the_next_do_of_a_forgotten_holder", "the same trace through the processor LTS (Model/Proc.v, where busy = holds an event): a holder's Discard leaves the event held, and the guard of PDo (the busy bit of the Do label is the model's held_at) rejects the next Do of that action, which the real processor reports as idle"),
  ("proc_lts_idle_do_on_a_holder_rejected", "processor_model_never_accepts_an_idle_do_on_a_holder", "in general: a Do label with busy = false for an action the processor model knows to hold an event is never a step"),
  ("hold_ledger_nonvacuous", "hold_ledger_nonvacuous", "one processor, one action: Hold, Collapse, time-out flush is accepted and leaves nothing held; Hold, Discard is rejected by the ledger at the Discard and by the processor LTS one Do later"),
 ], "the hold ledger: a held event is never forgotten (real and scripted holding actions)"),
])
# ------------------------------------------------------------------------------------------ C01
write("C01", "C01 — commit frontier safety: a commit notification implies the event was acknowledged by an output and every earlier event of its\n   source and stream was acknowledged or deliberately dropped. Same composition as C02 (DESIGN.md §9.5): in-order take, in-order leave,\n   in-order add, commit only inside the batch's commit section, entered in formation order after the batch's own send returned.", [
 block("c01", PI, [
  ("pipe_commit_acked", "commit_implies_the_output_acknowledged_the_batch", "COMPOSITION (Model/Pipe.v): when the batcher commits an event in ANY run of the product, the event belongs to the batch inside its commit section and, if that batch has anything to deliver, its OutFn has returned"),
  ("pipe_frontier", "commit_implies_every_older_event_committed_or_dropped", "... and every event of the same stream taken before it is committed or was dropped by an action"),
  ("pipe_frontier_not_pending", "nothing_older_still_in_the_pipeline", "... none of them is still held, in progress or waiting for the output"),
  ("pipe_F2_redundant", "commit_in_add_order_follows_from_the_batcher", "the flow's guard F2 is implied by the batcher in the product"),
  ("pipe_nonvacuous", "pipe_nonvacuous", "two streams through one batcher, a hold and flush, one mixed batch committed"),
 ], "whole pipeline: batcher x all streams"),
 block("c01", F, [
  ("flow_frontier", "frontier", "END TO END for one stream: when an event is committed, every event of the stream taken before it is already committed or was dropped by an action"),
  ("flow_frontier_not_pending", "nothing_older_still_pending", "... none of them is held, in progress, or waiting in the output"),
  ("flow_commit_was_handed_to_output", "committed_event_was_handed_to_the_output", "the committed event had been handed to the output"),
  ("flow_frontier_nonvacuous", "frontier_nonvacuous", "e1 dropped, e2 held and flushed by e3: the hypotheses are satisfiable"),
 ], "end to end (one stream)"),
 block("c01", B, [
  ("commit_after_own_send", "commit_only_after_own_send_returned", "a batch with a deliverable event is committed only after its OutFn returned"),
  ("commit_in_seq_order", "batches_commit_in_formation_order", "so when an event is committed every event added before it has been acknowledged (or was committed earlier)"),
  ("committed_prefix_of_added", "committed_is_prefix_of_added", "the frontier inside one output: committed = prefix of added"),
  ("stop_no_unsent_commit", "stop_commits_nothing_unsent", "stopping never commits an event that was not sent"),
  ("commit_event_acknowledged", "commit_of_an_event_implies_its_own_output_acknowledged_it", "COMMIT IMPLIES ACK, event by event: an event is committed only inside the commit section of its own batch, and a batch with a deliverable event is there only after its send was acknowledged - plain batcher: OutFn returned; retry frame: a call of outFn returned success - or, WITHOUT a dead queue, after the retry loop reported it lost (give-up). With a dead queue the second alternative does not exist"),
  ("deadqueue_commit_event_acknowledged", "batch_handed_to_the_dead_queue_commits_nothing", "with a dead queue: whatever made the retry loop give a batch up (attempts used up, or backoff.Stop with attempts remaining / unlimited attempts), the main batcher commits none of its events; every event it commits belongs to a batch its output acknowledged"),
  ("giveup_by_stop_nonvacuous", "giveup_by_backoff_stop_nonvacuous", "retry 3, dead queue, backoff.Stop on the first failure: the LTS accepts the give-up, the batch must come back from Out empty (OutEnd 0 / status 3; a kept batch is rejected) and its commit section commits nothing"),
 ], "batcher"),
 block("c01", P, [
  ("proc_outs_increasing", "older_events_reach_the_output_first", "an event reaches the output only after every older event of its stream has left the action chain (output or dropped)"),
  ("proc_conservation", "no_event_vanishes_in_the_actions", "every event taken is output, dropped, held or in progress - exactly one of them"),
  ("proc_chain3_two_holders", "processor_nonvacuous", "a reachable state with two holders"),
 ], "processor"),
 block("c01", S, [
  ("stream_attach_pre", "next_owner_starts_after_commit", "the next owner attaches only when away = commit: the previous owner's last event is finalized"),
  ("stream_taken_in_order", "taken_in_put_order", "events are taken in read order"),
 ], "stream"),
])
# ------------------------------------------------------------------------------------------ C04
write("C04", "C04 — no wedge. Safety core of liveness for every component (deadlock-freedom: in every reachable state the step the system is waiting\n   for is enabled), for all interleavings; wall-clock bounds are measured by the harness, not proved.", [
 block("c04", GD, [
  ("pipe_can_always_drain", "no_reachable_pipeline_state_is_wedged", "NO WEDGE, END TO END (Model/Pipe.v: one batching output x the flows of all streams, each with its processor): from EVERY reachable state with a not-stopped batcher some schedule that takes no new regular event from any stream (ginternal: time-outs, processor steps, adds of handed-over events, heartbeat and worker steps) finishes every event in hand: processors empty, nothing held, nothing waiting for the output, the batcher flushed and committed everything it was given, and every event ever taken from a stream is committed or was dropped by an action"),
  ("pipe_drain_accounts_for_the_past", "the_drain_takes_no_new_event", "the drain takes no regular event: the events accounted for are exactly those taken before it"),
  ("pipe_drain_nonvacuous_all_components", "pipe_drain_nonvacuous", "a reachable state with a held event, an event inside Do, one waiting for the output, a batch inside its commit section, an open current batch and no free batch; an explicit 31-label schedule drains it"),
 ], "no wedge: whole pipeline"),
 block("c04", PD, [
  ("proc_can_always_finish", "no_reachable_processor_state_is_wedged", "NO WEDGE, processor (any action chain, any behaviour of the actions allowed by the protocol guards): from EVERY reachable state, taking only stream time-outs, every event on the stack leaves (output or dropped) and every held event is flushed; nothing in hand is lost"),
  ("proc_finished_or_progress", "finished_or_a_step_towards_it_is_enabled", "no deadlock: nothing in hand, or an internal label is enabled that strictly decreases the rank"),
  ("proc_finish_example_schedule", "proc_drain_nonvacuous", "three actions, two of them holding, a third event inside Do: the computed 9-label schedule finishes it"),
 ], "no wedge: processor"),
 block("c04", SD, [
  ("stream_can_always_drain", "no_reachable_stream_state_is_wedged", "NO WEDGE, stream protocol (put / charge / pop / attach / get / commit / leave / detach / block / time-out, any number of streams): from EVERY reachable state some schedule of processor and heartbeat steps alone (internal = any label but SPut) drains every stream: drained = not crashed, nothing charged, every stream empty, unattached, not detaching / blocked / popped / pending, last taken event committed"),
  ("stream_can_always_drain_bounded", "the_drain_is_bounded", "... within M t steps (2 per queued event + at most 7 per stream)"),
  ("stream_drained_or_progress", "drained_or_a_step_towards_it_is_enabled", "no deadlock: a reachable state is drained or an internal step is enabled that does not crash and strictly decreases the distance M"),
  ("stream_drain_nonvacuous", "stream_drain_nonvacuous", "two streams, one blocked behind a holding action, one charged with two events: not drained, and an explicit 11-step internal schedule drains it"),
 ], "no wedge: streams"),
 block("c04", BD, [
  ("batcher_can_always_drain", "no_reachable_batcher_state_is_wedged", "NO WEDGE, batcher (any worker count, any stage of any batch in flight, open critical section, retry frame): from EVERY reachable state that is not stopped some schedule of heartbeat and worker steps alone (internal = any label but Add / Stop / Panic), in which each output call eventually succeeds or the configured give-up is taken, flushes and commits everything: nothing in flight, nothing queued, current batch empty, every added event committed or handed to the retry-error path"),
  ("batcher_drain_exactly_once", "the_drain_commits_exactly_what_was_added", "without a dead queue the drained state has committed exactly the added events, in add order"),
  ("drain_nonvacuous", "batcher_drain_nonvacuous", "3 workers: a batch inside a failed output call, a sealed batch queued, a non-empty current batch inside an open critical section; an explicit 26-label internal schedule drains it"),
 ], "no wedge: batcher"),
 block("c04", S, [
  ("stream_never_crashes", "stream_never_panics", "none of the Panicf sites of stream.go is reachable"),
  ("no_unattended_stream", "no_stream_with_pending_events_unattended", "an unattached stream with pending events is charged, or popped by a processor, or about to be charged in the same critical section"),
  ("pending_charge_enabled", "pending_charge_happens", "... and that charge is enabled"),
  ("charged_nonempty_pop_enabled", "charged_stream_can_be_taken", "a charged stream can always be popped by an idle processor"),
  ("popped_attach_enabled", "popped_stream_attaches", "a popped stream attaches without panic"),
  ("blocked_stream_gets_timeout", "blocked_stream_gets_its_timeout", "a stream whose owner waits behind a holding action always accepts the time-out event and hands it to the owner: never blocked forever"),
  ("detach_when_committed", "detaching_stream_detaches_when_committed", "a detaching stream detaches as soon as its last taken event is committed"),
 ], "stream"),
 block("c04", CH, [
  ("charged_no_sleeper_while_queued", "no_processor_asleep_while_a_stream_is_queued", "hand-off of charged streams to sleeping processors (makeCharged / joinStream): outside the critical section, a processor sleeps without a wake-up on its way only if every queued stream already has a woken processor coming for it"),
  ("charged_signal_on_first_only_refuted", "signal_only_on_first_charge_refuted", "signalling only on the empty -> non-empty transition strands a stream while a processor sleeps: witness"),
 ], "charged-stream hand-off"),
 block("c04", PL, [
  ("pool_no_stuck_waiter_lowmem", "lowmem_pool_waiter_wakes_within_one_heartbeat", "low-memory pool, generated heartbeat condition: a sleeping getter with free capacity is woken by non-environment steps containing at most one heartbeat"),
  ("pool_no_stuck_waiter_std", "std_pool_waiter_wakes_within_one_heartbeat", "standard pool: the same"),
  ("pool_stuck_waiter_inverted_refuted", "lowmem_inverted_heartbeat_refuted", "with the inverted condition (the repaired defect) a getter sleeps forever: witness state + proof that no non-environment steps wake it"),
  ("pool_no_stuck_waiter_lowmem_nonvacuous", "lowmem_nonvacuous", "the lost wake-up window is reachable and one heartbeat wakes the sleeper"),
  ("pool_no_stuck_waiter_hb_lowmem", "lowmem_pool_sleeper_has_a_running_heartbeat_that_wakes_it", "HEARTBEAT LIFE CYCLE (Model/Pool.v: the heartbeat goroutine is started once, by the slow path of get(), and is gone for good if its loop has a way out; the two facts 'get() starts it on every path to Cond.Wait' and 'the loop has no way out but the stop guard' are regenerated from the Go AST - Gen/PoolGen.v pool_lm_hb_starts / pool_lm_hb_forever - and this theorem stops compiling when either is false): low-memory pool, in every reachable state with a getter asleep and free capacity the heartbeat goroutine is RUNNING and non-environment steps of the layered system containing at most one heartbeat wake the getter"),
  ("pool_no_stuck_waiter_hb_std", "std_pool_sleeper_has_a_running_heartbeat_that_wakes_it", "standard pool: the same (pool_std_hb_starts / pool_std_hb_forever)"),
  ("pool_fair_heartbeat_wakes_lowmem", "lowmem_pool_every_fair_schedule_wakes_the_sleeper", "LIVENESS UNDER HEARTBEAT FAIRNESS, the assumption made explicit (the running heartbeat ticks again and again; scheduler fairness and wall-clock time are outside the model): for EVERY schedule, environment steps included, a run of the low-memory pool during which a getter stays inside Cond.Wait() contains at most two heartbeat iterations that found capacity free"),
  ("pool_fair_heartbeat_wakes_std", "std_pool_every_fair_schedule_wakes_the_sleeper", "standard pool: the same"),
  ("pool_heartbeat_exit_refuted", "heartbeat_with_a_way_out_of_its_loop_refuted", "WITHOUT 'the heartbeat loop has no way out': back-pressure episode, idle period (the heartbeat loads waiters = 0 and returns; the Once never starts it again), lost wake-up - a reachable state with the getter asleep, the pool empty, the heartbeat gone and NO non-environment step enabled: the getter sleeps for ever"),
  ("pool_heartbeat_lifecycle_nonvacuous", "heartbeat_lifecycle_nonvacuous", "with the generated facts that trace is not a run, without the return it reaches the sleeper with the heartbeat running; after one iteration that found capacity free only the waking Broadcast is left to the heartbeat; the bound two is reached"),
 ], "pools"),
 block("c04", B, [
  ("no_commit_deadlock", "awaited_batch_always_exists", "the batch the commit order is waiting for is always in flight: no commit deadlock"),
  ("in_flight_is_interval", "batches_are_conserved", "free + in flight + current = workers: a free batch exists whenever fewer than `workers` are in flight"),
  ("idle_flush_decision", "idle_batch_is_flushed", "a non-empty batch older than the flush timeout cannot be left unsealed by a heartbeat decision"),
 ], "batcher"),
 block("c04", P, [
  ("proc_timeout_only_to_holder", "timeout_reaches_the_holder", "the stream time-out is delivered to the action that holds the run"),
  ("proc_nothing_held_after_pass", "processor_not_asleep_with_work", "the processor waits for the next event of a stream only while an action holds one"),
 ], "processor"),
 block("c04", 'bstop', [
  ("batcher_stop_returns", "stopping_batcher_finishes_what_it_sealed", "NO WEDGE AT SHUTDOWN, batcher (Batcher.Stop closes fullBatches and waits for the workers): from EVERY reachable stopped state the workers alone (internal labels) finish every batch in flight - Stop returns -, every sealed batch went through its commit section in formation order (commitSeq = outSeq), and every event of a sealed batch is committed or was handed to the retry-error path; nothing is added meanwhile. Needs the send into fullBatches inside the critical section (atomic_push = the generated constant)"),
  ("stopped_batcher_accepts_nothing", "stopped_batcher_accepts_nothing", "Add on a stopped batcher appends nothing (batch.go Add: `if b.shouldStop { return }`): no Add label is enabled, so the event is neither sealed nor committed - on real traces an Add label after the Stop label breaks the replay"),
  ("batcher_stop_nonvacuous", "batcher_stop_nonvacuous", "2 workers: a batch inside OutFn and a sealed batch queued when Stop comes; Add is refused, an explicit 10-label worker schedule commits both"),
 ], "no wedge at shutdown: batcher"),
])
# ------------------------------------------------------------------------------------------ C05
write("C05", "C05 — in-flight events never exceed capacity; none leaks or is handed out twice.", [
 block("c05", PL, [
  ("pool_held_le_capacity_lowmem", "lowmem_holders_le_capacity", "low-memory pool: admitted holders never exceed the capacity (the counter may overshoot transiently)"),
  ("pool_held_le_capacity_std", "std_holders_le_capacity", "standard pool: holders + objects on their way back never exceed the capacity"),
  ("pool_slot_unique_std", "std_object_in_one_place", "an event object is in at most one slot, never both in a slot and with a holder, never with two holders"),
  ("pool_no_double_back", "no_double_back", "per object: take and back strictly alternate"),
  ("pool_quiescent_inuse_zero", "idle_pool_inuse_zero", "idle pool: in-use = 0 and no waiters, for both pools"),
  ("pool_std_nonvacuous", "std_pool_nonvacuous", "a standard-pool run with a sleeper"),
 ], "pools"),
 block("c05", P, [
  ("proc_conservation", "actions_neither_leak_nor_duplicate", "every event a processor takes is output, dropped (returned to the pool), held or in progress - exactly one"),
 ], "processor"),
 block("c05", B, [
  ("exactly_once_at_quiescence", "output_finalizes_each_event_once", "the output commits (and thereby returns to the pool) every added event exactly once"),
 ], "batcher"),
])
