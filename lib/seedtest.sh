#!/bin/bash
# lib/seedtest.sh <Cnn> <seed-worktree> [name]
# 1. confirms in the scratch worktree: builds, existing tests of touched packages pass with the change,
#    the demonstration fails with and passes without the change;
# 2. applies the patch to /repo, runs ./check <Cnn>, undoes it; 3. stores everything in /verif/seeded/<name>/.
set -u
P=$1; WT=$2; NAME=${3:-$P}
export GOFLAGS=-mod=mod GOPROXY=off
S=$WT/SEED
[ -f $S/patch.diff ] || { echo "no patch.diff"; exit 2; }
OUT=/verif/seeded/$NAME; mkdir -p $OUT
cp $S/patch.diff $OUT/patch.diff; cp $S/demo_test.go.txt $OUT/ 2>/dev/null; cp $S/meta.json $OUT/agent_meta.json 2>/dev/null
cd $WT
PKGDIRS=$(grep '^+++ b/' $S/patch.diff | sed 's|^+++ b/||' | xargs -n1 dirname | sort -u)
DEMOPKG=$(grep -o '[a-z_/0-9]*/zz_demo_test.go' $S/demo_test.go.txt | head -1 | xargs -r dirname | sed 's|^/||')
DEMOPKG=${DEMOPKG:-$(echo $PKGDIRS | cut -d' ' -f1)}
[ -d "$WT/$DEMOPKG" ] || DEMOPKG=$(echo $PKGDIRS | cut -d' ' -f1)
RUNRE=$(grep -o 'func Test[A-Za-z0-9_]*' $S/demo_test.go.txt | sed 's/func //' | paste -sd'|')
echo "touched: $PKGDIRS ; demo package: $DEMOPKG ; tests: $RUNRE"
git apply -R --check $S/patch.diff 2>/dev/null || git apply $S/patch.diff   # make sure the change is applied
R1="build: $(timeout 900 go build ./... 2>&1 | tail -1)"
T=""; for d in $PKGDIRS; do T="$T ./$d/..."; done
R2=$(timeout 2400 go test -vet=off -count=1 $T 2>&1 | grep -v '^{' | grep -c '^FAIL\|^--- FAIL')
cp $S/demo_test.go.txt $DEMOPKG/zz_demo_test.go
timeout 900 go test -vet=off -count=1 -run "$RUNRE" ./$DEMOPKG/ > /tmp/seed_with.log 2>&1; W=$?
git apply -R $S/patch.diff
timeout 900 go test -vet=off -count=1 -run "$RUNRE" ./$DEMOPKG/ > /tmp/seed_without.log 2>&1; WO=$?
git apply $S/patch.diff
rm -f $DEMOPKG/zz_demo_test.go
echo "$R1 ; existing-test failures with change: $R2 ; demo exit with change: $W (want != 0) ; without: $WO (want 0)"
# run the check against /repo
cd /verif
if git -C /repo apply --check $S/patch.diff 2>/dev/null; then
  git -C /repo apply $S/patch.diff
  timeout 2400 ./check $P > /tmp/seed_check.log 2>&1; RC=$?
  git -C /repo apply -R $S/patch.diff
else
  echo "patch does not apply to /repo working tree"; RC=-1
fi
grep "VIOLATION\|tier=" /tmp/seed_check.log | cut -c1-250
python3 - "$P" "$NAME" "$R1" "$R2" "$W" "$WO" "$RC" <<'PY'
import sys, json, os, re
P, NAME, R1, R2, W, WO, RC = sys.argv[1:8]
out = '/verif/seeded/' + NAME
am = {}
try: am = json.load(open(out + '/agent_meta.json'))
except Exception: pass
log = open('/tmp/seed_check.log').read()
viol = [l for l in log.splitlines() if l.startswith('VIOLATION')]
meta = {"property": P, "summary": am.get("summary", ""), "needs": am.get("needs", ""), "files": am.get("files", []),
        "confirmed_in_scratch_worktree": {"build": R1, "existing_test_failures_with_change": int(R2), "demo_exit_with_change": int(W), "demo_exit_without_change": int(WO)},
        "check": {"command": "./check %s (quick, seed 1) on /repo with the patch applied, undone afterwards" % P, "exit": int(RC), "violation_lines": viol[:6],
                  "caught": int(RC) == 1 and bool(viol)}}
json.dump(meta, open(out + '/meta.json', 'w'), indent=1)
print("caught" if meta["check"]["caught"] else "MISSED", P, NAME)
PY
git -C /repo status --short | grep -v '^??' | head -5
