#!/bin/bash
# lib/refall.sh — regression over every stored HARMLESS rewrite (harmless/*.diff, harmless/r2/*.diff): apply to /repo, run
# ./check <Cnn> (quick, seed 1), undo. A VIOLATION line or a non-zero exit is a false alarm. /repo must be clean.
set -u
cd /verif
[ -z "$(git -C /repo status --short | grep -v '^??')" ] || { echo "/repo is not clean"; exit 2; }
OUT=/verif/harmless/REGRESSION.txt; : > $OUT.tmp
for d in /verif/harmless/*.diff /verif/harmless/r2/*.diff; do
  n=$(basename $d .diff); P=$(echo $n | grep -o 'C[0-9][0-9]' | head -1); r=$(basename $(dirname $d))
  if ! git -C /repo apply --check $d 2>/dev/null; then echo "$r/$n $P does-not-apply (the code it rewrote has changed since)" | tee -a $OUT.tmp; continue; fi
  git -C /repo apply $d
  timeout 2400 ./check $P > /tmp/refall.log 2>&1; RC=$?
  git -C /repo apply -R $d
  V=$(grep -c '^VIOLATION' /tmp/refall.log)
  if [ $RC -eq 0 ] && [ $V -eq 0 ]; then R="silent"; else R="ALARM (exit $RC, violation lines $V: $(grep '^VIOLATION' /tmp/refall.log | head -1 | cut -c1-160))"; fi
  echo "$r/$n $P $R" | tee -a $OUT.tmp
done
mv $OUT.tmp $OUT
echo "summary: $(grep -c ' silent' $OUT) silent, $(grep -c ALARM $OUT) alarms, $(grep -c does-not-apply $OUT) stale"
git -C /repo status --short | grep -v '^??' | head -3
