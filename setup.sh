#!/bin/sh
# MANIFEST.setup_cmd: build everything from files on disk, offline.
set -e
cd "$(dirname "$0")"
export GOFLAGS=-mod=mod GOPROXY=off
unset GOTOOLCHAIN GOSUMDB || true
mkdir -p build evidence replays
python3 -c "import sys; sys.path.insert(0,'lib'); import runner; runner.ensure_makefile()"
( cd coq && timeout 3000 make -k -j"$(nproc)" >/dev/null 2>build.log || { tail -30 build.log; echo "coq build had failures (checks report them per property)"; } ; rm -f build.log )
cp /repo/go.sum harness/go.sum 2>/dev/null || true
for d in harness/c[0-9][0-9]; do
  id=$(basename "$d" | tr c C)
  ( cd harness && timeout 1800 go build -tags verif -o ../build/harness-$id ./$(basename "$d") ) || echo "harness $id build failed (its check reports it)"
done
python3 - <<'PY'
import sys, os, glob, json
sys.path.insert(0, os.path.join(os.getcwd(), "lib"))
import runner
for p in sorted(glob.glob("props/C*.json")):
    prop = json.load(open(p))
    if prop.get("disabled"): continue
    log = []
    ok, msg = runner.build_modelrun(prop, log)
    print(prop["id"], "modelrun", "ok" if ok else "FAILED " + msg[-300:])
PY
echo setup done
