#!/bin/sh
# MANIFEST.setup_cmd: build everything from files on disk, offline.
set -e
cd "$(dirname "$0")"
export GOFLAGS=-mod=mod GOPROXY=off
unset GOTOOLCHAIN GOSUMDB || true
mkdir -p build evidence replays
python3 -c "import sys; sys.path.insert(0,'lib'); import runner; runner.ensure_makefile()"
# the generated models (coq/Gen/*.v) always describe /repo as it is NOW: regenerate all of them before the first build
# (each check regenerates the ones its property depends on again; a translator that refuses the source leaves the old file,
#  the check of the property that needs it reports that)
( cd harness && cp /repo/go.sum go.sum 2>/dev/null; timeout 900 go build -o ../build/verifgen ./gen && for g in batcher pool kafka saveproto; do ../build/verifgen $g -repo /repo -coq ../coq >/dev/null 2>&1 || echo "translator $g refuses the current source (reported by the checks that need it)"; done ) || true
( cd coq && timeout 3000 make -k -j"$(nproc)" >/dev/null 2>build.log || { tail -30 build.log; echo "coq build had failures (checks report them per property)"; } ; rm -f build.log )
cp /repo/go.sum harness/go.sum 2>/dev/null || true
for d in harness/c[0-9][0-9]; do
  id=$(basename "$d" | tr c C)
  ( cd harness && timeout 1800 go build -tags verif -o ../build/harness-$id ./$(basename "$d") ) || echo "harness $id build failed (its check reports it)"
done
python3 - <<'PY'
import sys, os, glob, json
sys.path.insert(0, os.path.join(os.getcwd(), "lib"))
import runner
for p in sorted(glob.glob("props/C*.json")):
    prop = json.load(open(p))
    if prop.get("disabled"): continue
    log = []
    ok, msg = runner.build_modelrun(prop, log)
    print(prop["id"], "modelrun", "ok" if ok else "FAILED " + msg[-300:])
PY
echo setup done
