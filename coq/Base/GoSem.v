(* GoSem.v — the fragment of Go's slice / index semantics the scanners rely on, in a result monad
   where an out-of-range index or slice is [Panic] (never a default value), so that
   "never crashes" is a theorem  forall x, f x <> Panic _ .  No proofs here. *)
From Verif Require Import Base.Sx.
From Coq Require Import Lia.

Inductive res (A : Type) : Type :=
| Ok (a : A)
| Err (e : Z)           (* the Go function returned a non-nil error; e = a small error enum *)
| Panic (p : Z).        (* run-time panic: 1 = slice bounds out of range, 2 = index out of range, 3 = explicit panic/Fatal *)
Arguments Ok {A} a. Arguments Err {A} e. Arguments Panic {A} p.

Definition bind {A B} (r : res A) (f : A -> res B) : res B :=
  match r with Ok a => f a | Err e => Err e | Panic p => Panic p end.
Notation "x <- r ;; k" := (bind r (fun x => k)) (at level 61, r at next level, right associativity).
Notation "' p <- r ;; k" := (bind r (fun p => k)) (at level 61, p pattern, r at next level, right associativity).

Definition is_panic {A} (r : res A) : bool := match r with Panic _ => true | _ => false end.
Definition is_ok {A} (r : res A) : bool := match r with Ok _ => true | _ => false end.

Definition len {A} (l : list A) : Z := Z.of_nat (length l).

(* s[lo:hi] on a slice whose capacity is not larger than what the model knows (len) *)
Definition slice {A} (l : list A) (lo hi : Z) : res (list A) :=
  if (0 <=? lo) && (lo <=? hi) && (hi <=? len l)
  then Ok (firstn (Z.to_nat (hi - lo)) (skipn (Z.to_nat lo) l))
  else Panic 1.
Definition slice_from {A} (l : list A) (lo : Z) : res (list A) := slice l lo (len l).   (* s[lo:] *)
Definition slice_to {A} (l : list A) (hi : Z) : res (list A) := slice l 0 hi.            (* s[:hi] *)

(* s[i] *)
Definition idx {A} (l : list A) (i : Z) : res A :=
  if (0 <=? i) && (i <? len l)
  then match nth_error l (Z.to_nat i) with Some x => Ok x | None => Panic 2 end
  else Panic 2.

(* bytes.IndexByte: first position or -1 *)
Fixpoint index_byte_from (l : bytes) (c : byte) (i : Z) : Z :=
  match l with
  | [] => -1
  | x :: r => if N.eqb x c then i else index_byte_from r c (i + 1)
  end.
Definition index_byte (l : bytes) (c : byte) : Z := index_byte_from l c 0.

(* bytes.LastIndexByte *)
Fixpoint last_index_byte_from (l : bytes) (c : byte) (i : Z) (best : Z) : Z :=
  match l with
  | [] => best
  | x :: r => last_index_byte_from r c (i + 1) (if N.eqb x c then i else best)
  end.
Definition last_index_byte (l : bytes) (c : byte) : Z := last_index_byte_from l c 0 (-1).

Fixpoint has_prefix (l p : bytes) : bool :=
  match p, l with
  | [], _ => true
  | _ :: _, [] => false
  | a :: p', b :: l' => N.eqb a b && has_prefix l' p'
  end.
Definition has_suffix (l s : bytes) : bool := has_prefix (rev l) (rev s).

(* bytes.Index: first position of a sub-slice or -1 (empty needle: 0) *)
Fixpoint index_sub_from (l needle : bytes) (i : Z) : Z :=
  if has_prefix l needle then i
  else match l with [] => -1 | _ :: r => index_sub_from r needle (i + 1) end.
Definition index_sub (l needle : bytes) : Z := index_sub_from l needle 0.
Definition contains (l needle : bytes) : bool := 0 <=? index_sub l needle.

Definition bytes_eqb (a b : bytes) : bool := N_eqb_list a b.

(* result encoding for the exchange format: (0 v) ok | (1 e) error | (2 p) panic *)
Definition sx_of_res {A} (f : A -> sx) (r : res A) : sx :=
  match r with
  | Ok a => SL [SZ 0; f a]
  | Err e => SL [SZ 1; SZ e]
  | Panic _ => SL [SZ 2]
  end.
