(* Sx.v — the universal case / observable exchange format between the Go harness,
   the extracted OCaml model runner and the in-Coq (vm_compute) cross-check.
   Text syntax (one value):  123 | -5 | #6162 (bytes in hex, "#" = empty) | ( v v ... )      *)
From Coq Require Export List ZArith NArith Bool.
Export ListNotations.
Open Scope Z_scope.

Definition byte := N.
Definition bytes := list byte.

Inductive sx : Type :=
| SZ (z : Z)
| SB (b : bytes)
| SL (l : list sx).

(* what the model runner says about one (case, observed) pair *)
Inductive verdict : Type :=
| Agree                      (* implementation observable = model observable, property predicate holds *)
| Differ (model : sx)        (* implementation differs from the model, predicate still holds on what was observed *)
| Violates (model : sx)      (* the property's executable predicate is false of what the implementation did *)
| BadCase.                   (* the case line does not decode: harness / driver bug, never a property verdict *)

Definition N_eqb_list := fix go (a b : bytes) : bool :=
  match a, b with
  | [], [] => true
  | x :: a', y :: b' => N.eqb x y && go a' b'
  | _, _ => false
  end.

Fixpoint sx_eqb (a b : sx) {struct a} : bool :=
  match a, b with
  | SZ x, SZ y => Z.eqb x y
  | SB x, SB y => N_eqb_list x y
  | SL x, SL y =>
      (fix go (x y : list sx) : bool :=
         match x, y with
         | [], [] => true
         | p :: x', q :: y' => sx_eqb p q && go x' y'
         | _, _ => false
         end) x y
  | _, _ => false
  end.

(* decoders used by every property's glue *)
Definition as_Z (s : sx) : option Z := match s with SZ z => Some z | _ => None end.
Definition as_B (s : sx) : option bytes := match s with SB b => Some b | _ => None end.
Definition as_L (s : sx) : option (list sx) := match s with SL l => Some l | _ => None end.
Definition as_bool (s : sx) : option bool :=
  match s with SZ 0 => Some false | SZ 1 => Some true | _ => None end.
Definition as_nat (s : sx) : option nat :=
  match s with SZ z => if Z.leb 0 z then Some (Z.to_nat z) else None | _ => None end.

Fixpoint opt_map {A B} (f : A -> option B) (l : list A) : option (list B) :=
  match l with
  | [] => Some []
  | x :: r => match f x, opt_map f r with
              | Some y, Some ys => Some (y :: ys)
              | _, _ => None
              end
  end.

Definition as_list {A} (f : sx -> option A) (s : sx) : option (list A) :=
  match s with SL l => opt_map f l | _ => None end.

Definition of_bool (b : bool) : sx := SZ (if b then 1 else 0).
Definition of_nat (n : nat) : sx := SZ (Z.of_nat n).
Definition of_list {A} (f : A -> sx) (l : list A) : sx := SL (map f l).

(* the standard verdict for a deterministic pure model whose output IS the specification *)
Definition exact_verdict (model obs : sx) : verdict :=
  if sx_eqb model obs then Agree else Violates model.
