(* Json.v — value-level model of insane-json trees as file.d uses them (a THIRD-PARTY library: these
   definitions are oracle models, compared with the real library by a conformance stream in every
   JSON-based harness).  Objects are ordered field lists; duplicates are representable. *)
From Verif Require Import Base.Sx.

Inductive json : Type :=
| JNull
| JBool (b : bool)
| JNum (raw : bytes)                 (* the number's source text *)
| JStr (s : bytes)                   (* unescaped content *)
| JArr (l : list json)
| JObj (fs : list (bytes * json)).

Definition key_eqb (a b : bytes) : bool := N_eqb_list a b.

(* first field with that key (insane-json Dig on an object) *)
Fixpoint field_get (fs : list (bytes * json)) (k : bytes) : option json :=
  match fs with
  | [] => None
  | (k', v) :: r => if key_eqb k' k then Some v else field_get r k
  end.

Fixpoint field_index (fs : list (bytes * json)) (k : bytes) (i : nat) : option nat :=
  match fs with
  | [] => None
  | (k', _) :: r => if key_eqb k' k then Some i else field_index r k (S i)
  end.

(* Suicide of the i-th field: the LAST field moves into the hole (swap-remove) *)
Definition swap_remove {A} (l : list A) (i : nat) : list A :=
  match nth_error l i with
  | None => l
  | Some _ =>
      let n := length l in
      if Nat.eqb i (n - 1) then removelast l
      else match nth_error l (n - 1) with
           | Some lastx => firstn i l ++ lastx :: skipn (S i) (removelast l)
           | None => l
           end
  end.

(* order-preserving removal (what the property text asks for) *)
Fixpoint remove_at {A} (l : list A) (i : nat) : list A :=
  match l, i with
  | [], _ => []
  | _ :: r, O => r
  | x :: r, S i' => x :: remove_at r i'
  end.

Fixpoint set_at {A} (l : list A) (i : nat) (y : A) : list A :=
  match l, i with
  | [], _ => []
  | _ :: r, O => y :: r
  | x :: r, S i' => x :: set_at r i' y
  end.

(* Dig along a path of object keys (file.d's selectors only name object fields) *)
Fixpoint dig (j : json) (path : list bytes) : option json :=
  match path with
  | [] => Some j
  | k :: rest =>
      match j with
      | JObj fs => match field_get fs k with Some v => dig v rest | None => None end
      | _ => None
      end
  end.

(* exchange encoding: 0 null | (1 b) | (2 #raw) | (3 #str) | (4 v ...) | (5 (#key v) ...) *)
Fixpoint sx_of_json (j : json) : sx :=
  match j with
  | JNull => SZ 0
  | JBool b => SL [SZ 1; of_bool b]
  | JNum r => SL [SZ 2; SB r]
  | JStr s => SL [SZ 3; SB s]
  | JArr l => SL (SZ 4 :: map sx_of_json l)
  | JObj fs => SL (SZ 5 :: map (fun kv => SL [SB (fst kv); sx_of_json (snd kv)]) fs)
  end.

Fixpoint json_of_sx (s : sx) : option json :=
  match s with
  | SZ 0 => Some JNull
  | SL [SZ 1; SZ 0] => Some (JBool false)
  | SL [SZ 1; SZ 1] => Some (JBool true)
  | SL [SZ 2; SB r] => Some (JNum r)
  | SL [SZ 3; SB r] => Some (JStr r)
  | SL (SZ 4 :: l) =>
      (fix go (l : list sx) : option json :=
         match l with
         | [] => Some (JArr [])
         | x :: r => match json_of_sx x, go r with
                     | Some v, Some (JArr vs) => Some (JArr (v :: vs))
                     | _, _ => None
                     end
         end) l
  | SL (SZ 5 :: l) =>
      (fix go (l : list sx) : option json :=
         match l with
         | [] => Some (JObj [])
         | SL [SB k; x] :: r => match json_of_sx x, go r with
                                | Some v, Some (JObj fs) => Some (JObj ((k, v) :: fs))
                                | _, _ => None
                                end
         | _ => None
         end) l
  | _ => None
  end.

(* structural equality *)
Fixpoint json_eqb (a b : json) {struct a} : bool :=
  match a, b with
  | JNull, JNull => true
  | JBool x, JBool y => Bool.eqb x y
  | JNum x, JNum y => N_eqb_list x y
  | JStr x, JStr y => N_eqb_list x y
  | JArr x, JArr y =>
      (fix go (x y : list json) : bool :=
         match x, y with
         | [], [] => true
         | p :: x', q :: y' => json_eqb p q && go x' y'
         | _, _ => false
         end) x y
  | JObj x, JObj y =>
      (fix go (x y : list (bytes * json)) : bool :=
         match x, y with
         | [], [] => true
         | (k1, p) :: x', (k2, q) :: y' => key_eqb k1 k2 && json_eqb p q && go x' y'
         | _, _ => false
         end) x y
  | _, _ => false
  end.
