(* Model of the legacy selector: pipeline/processor.go isMatch / isMatchOr / isMatchAnd (isMatchAnd as
   repaired: a matching regexp satisfies its condition, as in isMatchOr), pipeline/plugin.go
   MatchCondition.valueExists and MatchModes. No proofs here (Proofs/MatchFields.v).
   Ends with the entry point of the C14 model runner. *)
From Verif Require Import Base.Sx Base.GoSem Base.Json Model.DoIf.

Inductive mmode := MAnd | MOr | MAndPrefix | MOrPrefix.
Record cond := { c_field : list bytes; c_values : list bytes; c_regexp : option bytes }.

Definition is_or (m : mmode) : bool := match m with MOr | MOrPrefix => true | _ => false end.
Definition by_prefix (m : mmode) : bool := match m with MAndPrefix | MOrPrefix => true | _ => false end.

Section Legacy.
  Variable re_match : bytes -> bytes -> bool.      (* cond.Regexp.MatchString(value) *)

  (* MatchCondition.valueExists *)
  Definition value_exists (vals : list bytes) (s : bytes) (byPrefix : bool) : bool :=
    any_of (fun v => if byPrefix then has_prefix s v else bytes_eqb v s) vals.

  Definition regexp_hit (c : cond) (value : bytes) : bool :=
    match c_regexp c with Some p => re_match p value | None => false end.

  Fixpoint match_or (conds : list cond) (e : json) (byPrefix : bool) : bool :=
    match conds with
    | [] => false
    | c :: r =>
        match jdig e (c_field c) with
        | None => match_or r e byPrefix                                   (* continue *)
        | Some nd =>
            let value := as_string nd in
            if regexp_hit c value then true
            else if value_exists (c_values c) value byPrefix then true
            else match_or r e byPrefix
        end
    end.

  Fixpoint match_and (conds : list cond) (e : json) (byPrefix : bool) : bool :=
    match conds with
    | [] => true
    | c :: r =>
        match jdig e (c_field c) with
        | None => false
        | Some nd =>
            let value := as_string nd in
            if regexp_hit c value then match_and r e byPrefix              (* continue (the repair) *)
            else if value_exists (c_values c) value byPrefix then match_and r e byPrefix
            else false
        end
    end.

  Definition is_match (mode : mmode) (invert : bool) (conds : list cond) (e : json) : bool :=
    let m := if is_or mode then match_or conds e (by_prefix mode) else match_and conds e (by_prefix mode) in
    if invert then negb m else m.

  (* the documented meaning: one condition; all of them / at least one; optional inversion *)
  Definition cond_holds (byPrefix : bool) (e : json) (c : cond) : bool :=
    match jdig e (c_field c) with
    | None => false
    | Some nd =>
        let s := as_string nd in
        regexp_hit c s
        || existsb (fun v => if byPrefix then has_prefix s v else bytes_eqb v s) (c_values c)
    end.

  Definition match_spec (mode : mmode) (invert : bool) (conds : list cond) (e : json) : bool :=
    xorb invert (if is_or mode then existsb (cond_holds (by_prefix mode) e) conds
                 else forallb (cond_holds (by_prefix mode) e) conds).
End Legacy.

(* ---- glue: cond = ((#key ...) (#value ...) 0 | #pattern) ---------------------------------- *)
Definition cond_of_sx (s : sx) : option cond :=
  match s with
  | SL [p; SL vs; r] =>
      match path_of_sx p, opt_map as_B vs, r with
      | Some path, Some vals, SZ 0 => Some {| c_field := path; c_values := vals; c_regexp := None |}
      | Some path, Some vals, SB pat => Some {| c_field := path; c_values := vals; c_regexp := Some pat |}
      | _, _, _ => None
      end
  | _ => None
  end.

Definition b_and : bytes := [97; 110; 100]%N.
Definition b_or : bytes := [111; 114]%N.
Definition b_and_prefix : bytes := [97; 110; 100; 95; 112; 114; 101; 102; 105; 120]%N.
Definition b_or_prefix : bytes := [111; 114; 95; 112; 114; 101; 102; 105; 120]%N.
(* MatchModes (after TrimSpace + ToLower, which the harness applies to the spelling it sends) *)
Definition mode_of_name (b : bytes) : option mmode :=
  match b with
  | [] => Some MAnd
  | _ =>
      if bytes_eqb b b_and then Some MAnd
      else if bytes_eqb b b_or then Some MOr
      else if bytes_eqb b b_and_prefix then Some MAndPrefix
      else if bytes_eqb b b_or_prefix then Some MOrPrefix
      else None
  end.

Definition conds_needs_ok (t : tables) (conds : list cond) (e : json) : bool :=
  forallb (fun c => match c_regexp c, jdig e (c_field c) with
                    | Some p, Some nd => isSome (lookup1 (t_reok t) p) && isSome (lookup2 (t_re t) p (as_string nd))
                    | Some p, None => isSome (lookup1 (t_reok t) p)
                    | None, _ => true
                    end) conds.
Definition conds_compile (t : tables) (conds : list cond) : bool :=
  forallb (fun c => match c_regexp c with Some p => treok t p | None => true end) conds.

(* one action's selector: do_if takes precedence over match_fields *)
Definition selector_decision (t : tables) (tree : option node) (mode : mmode) (invert : bool)
           (conds : list cond) (e : json) (now : Z) (spec : bool) : bool :=
  match tree with
  | Some n => if spec then t_eval t n e now else t_check t n e now
  | None => if spec then match_spec (tre t) mode invert conds e else is_match (tre t) mode invert conds e
  end.

(* which = 2 (processor.isMatch) and 3 (a real pipeline with a discard action):
   case = (tree-or-0 #mode invert (cond ...) (event ...) now tables)
   obs = (bit ...) one per event | (2) configuration rejected *)
Inductive tsel := TSBad | TSReject | TSNone | TSNode (n : node).
Definition tsel_of_sx (tr : sx) : tsel :=
  match tr with
  | SZ 0 => TSNone
  | _ => match node_of_sx tr with DNode n => TSNode n | DReject => TSReject | DBad => TSBad end
  end.

Definition c14_proc_run (case obs : sx) : verdict :=
  match case with
  | SL [tr; SB mname; inv; SL cs; SL evs; SZ now; tb] =>
      match opt_map cond_of_sx cs, opt_map json_of_sx evs, tables_of_sx tb, as_bool inv with
      | Some conds, Some es, Some t, Some invert =>
          match tsel_of_sx tr with
          | TSBad => BadCase
          | TSReject => exact_verdict obs_reject obs
          | sel =>
              let tree := match sel with TSNode n => Some n | _ => None end in
              let rejected := match tree with Some n => negb (t_wfb t n) | None => false end
                              || negb (conds_compile t conds) in
              match mode_of_name mname with
              | None => exact_verdict obs_reject obs
              | Some mode =>
                  if rejected then exact_verdict obs_reject obs
                  else
                    let ok := forallb (fun e => conds_needs_ok t conds e
                                                && match tree with Some n => needs_ok t n e | None => true end) es in
                    if negb ok then BadCase
                    else
                      let m := SL (map (fun e => of_bool (selector_decision t tree mode invert conds e now false)) es) in
                      let s := SL (map (fun e => of_bool (selector_decision t tree mode invert conds e now true)) es) in
                      verdict3 m s obs
              end
          end
      | _, _, _, _ => BadCase
      end
  | _ => BadCase
  end.

(* a condition whose value list holds something that is not a string (written as an integer in the case):
   fd/util.go extractConditions refuses the configuration ("can't parse %v as string"); so it does when the
   value itself is a number instead of a string / a list (the harness writes a lone integer of an odd-numbered
   condition as a scalar): "can't parse %v as string or list of strings", /repo fix 4c267b0 *)
Definition cond_non_string (s : sx) : bool :=
  match s with
  | SL [_; SL vs; _] => existsb (fun v => match v with SZ _ => true | _ => false end) vs
  | _ => false
  end.
Definition cond_strings_only (s : sx) : sx :=
  match s with
  | SL [p; SL vs; r] => SL [p; SL (filter (fun v => match v with SZ _ => false | _ => true end) vs); r]
  | _ => s
  end.

Definition c14_proc_run_cfg (case obs : sx) : verdict :=
  match case with
  | SL [tr; SB mname; inv; SL cs; SL evs; SZ now; tb] =>
      if existsb cond_non_string cs then
        match c14_proc_run (SL [tr; SB mname; inv; SL (map cond_strings_only cs); SL evs; SZ now; tb]) obs with
        | BadCase => BadCase                       (* the rest of the case must be well formed *)
        | _ => exact_verdict obs_reject obs
        end
      else c14_proc_run case obs
  | _ => BadCase
  end.

(* ---- fd/util.go extractConditions: one value of the match_fields map -> one condition ------------------------
   The value is given as the JSON tree the configuration reader hands over. Documented (docs/configuring.md,
   pipeline/README.md): a list of strings = exact values (prefixes in the *_prefix modes), a string = one such value,
   a string written /between slashes/ = a regular expression; "patterns must have a list or string type, not a
   number or null". As coded, a scalar string that starts with a slash MUST be a delimited regexp that compiles. *)
Inductive ckind := CExact (vals : list bytes) | CRegexp (inner : bytes) | CRefused.

Definition is_slash (c : byte) : bool := (c =? 47)%N.

(* cfg.CompileRegex: "" , "/" , no leading or no trailing slash -> error; else regexp.Compile(s[1:len(s)-1]) *)
Definition compile_regex (re_ok : bytes -> bool) (s : bytes) : option bytes :=
  match s with
  | [] => None
  | c :: r =>
      if negb (is_slash c) then None
      else match rev r with
           | [] => None
           | l :: ri => if is_slash l then (let p := rev ri in if re_ok p then Some p else None) else None
           end
  end.

Definition json_string (j : json) : option bytes := match j with JStr s => Some s | _ => None end.
Definition json_strings (l : list json) : option (list bytes) := opt_map json_string l.

Definition extract_value (re_ok : bytes -> bool) (v : json) : ckind :=
  match v with
  | JStr s =>
      match s with
      | c :: _ =>
          if is_slash c                                             (* value != "" && value[0] == '/' *)
          then match compile_regex re_ok s with Some p => CRegexp p | None => CRefused end
          else CExact [s]
      | [] => CExact [s]
      end
  | JArr l => match json_strings l with Some vs => CExact vs | None => CRefused end   (* obj.([]any): every element a string *)
  | _ => CRefused                                                   (* number, bool, null, object (fix 4c267b0) *)
  end.

Definition cond_of_kind (path : list bytes) (k : ckind) : option cond :=
  match k with
  | CExact vs => Some {| c_field := path; c_values := vs; c_regexp := None |}
  | CRegexp p => Some {| c_field := path; c_values := []; c_regexp := Some p |}
  | CRefused => None
  end.

(* the whole map (one entry per field; Go ranges over it in random order: the first refusal refuses everything) *)
Definition extract_conds (re_ok : bytes -> bool) (cfg : list (list bytes * json)) : option (list cond) :=
  opt_map (fun pv => cond_of_kind (fst pv) (extract_value re_ok (snd pv))) cfg.

(* ---- the documented reading, stated on the configuration itself (no intermediate condition) ---------------- *)
(* "/inner/" : at least two bytes, first and last a slash *)
Definition delimited (s : bytes) : option bytes := compile_regex (fun _ => true) s.
Definition starts_with_slash (s : bytes) : bool := match s with c :: _ => is_slash c | [] => false end.

Definition lit_test (byPrefix : bool) (s v : bytes) : bool := if byPrefix then has_prefix s v else bytes_eqb v s.

(* the kind of test a value stands for *)
Definition doc_kind (re_ok : bytes -> bool) (v : json) : ckind :=
  match v with
  | JArr l => match json_strings l with Some vs => CExact vs | None => CRefused end
  | JStr s =>
      match delimited s with
      | Some p => if re_ok p then CRegexp p else CRefused
      | None => if starts_with_slash s then CRefused else CExact [s]
      end
  | _ => CRefused
  end.

Definition cfg_accepted (re_ok : bytes -> bool) (v : json) : bool :=
  match v with
  | JArr l => forallb (fun x => isSome (json_string x)) l
  | JStr s => match delimited s with Some p => re_ok p | None => negb (starts_with_slash s) end
  | _ => false
  end.

Section ConfigSpec.
  Variable re_match : bytes -> bytes -> bool.

  (* does the field text [s] satisfy the configured value [v] ? *)
  Definition cfg_value_holds (byPrefix : bool) (s : bytes) (v : json) : bool :=
    match v with
    | JArr l => existsb (fun x => match x with JStr w => lit_test byPrefix s w | _ => false end) l
    | JStr w => match delimited w with Some p => re_match p s | None => lit_test byPrefix s w end
    | _ => false
    end.

  Definition cfg_cond_holds (byPrefix : bool) (e : json) (pv : list bytes * json) : bool :=
    match jdig e (fst pv) with
    | None => false
    | Some nd => cfg_value_holds byPrefix (as_string nd) (snd pv)
    end.

  Definition cfg_spec (mode : mmode) (invert : bool) (cfg : list (list bytes * json)) (e : json) : bool :=
    xorb invert (if is_or mode then existsb (cfg_cond_holds (by_prefix mode) e) cfg
                 else forallb (cfg_cond_holds (by_prefix mode) e) cfg).
End ConfigSpec.

(* ---- glue: which = 4, the match_fields map of a configuration ------------------------------------------------
   case = (route #mode invert ((path value-json) ...) (event ...) tables)
   obs  = (2) refused | (((0 #value ...) | (1 #inner)) ...) one per entry, (bit ...) one per event)   route 0: fd.extractConditions
                                                                                                     + processor.isMatch
        | (7 (bit ...))                                                                             route 1: fd.SetupActions +
                                                                                                     a real pipeline, discard *)
Definition entry_of_sx (s : sx) : option (list bytes * json) :=
  match s with
  | SL [p; v] => match path_of_sx p, json_of_sx v with Some a, Some b => Some (a, b) | _, _ => None end
  | _ => None
  end.

Definition kind_sx (k : ckind) : sx :=
  match k with
  | CExact vs => SL (SZ 0 :: map SB vs)
  | CRegexp p => SL [SZ 1; SB p]
  | CRefused => SL [SZ 2]
  end.

(* the oracle values the model may consult: Compile of every delimited scalar, Match on every present field *)
Definition cfg_needs_ok (t : tables) (cfg : list (list bytes * json)) (es : list json) : bool :=
  forallb (fun pv => match snd pv with
                     | JStr s =>
                         match delimited s with
                         | Some p =>
                             match lookup1 (t_reok t) p with
                             | Some true => forallb (fun e => match jdig e (fst pv) with
                                                              | Some nd => isSome (lookup2 (t_re t) p (as_string nd))
                                                              | None => true
                                                              end) es
                             | Some false => true
                             | None => false
                             end
                         | None => true
                         end
                     | _ => true
                     end) cfg.

Definition cfg_obs (route : Z) (trans : list sx) (bits : list bool) : sx :=
  if (route =? 0)%Z then SL [SL trans; SL (map of_bool bits)] else SL [SZ 7; SL (map of_bool bits)].

Definition c14_cfg_run (case obs : sx) : verdict :=
  match case with
  | SL [SZ route; SB mname; inv; SL ents; SL evs; tb] =>
      match opt_map entry_of_sx ents, opt_map json_of_sx evs, tables_of_sx tb, as_bool inv with
      | Some cfg, Some es, Some t, Some invert =>
          if negb ((route =? 0)%Z || (route =? 1)%Z) then BadCase
          else if negb (cfg_needs_ok t cfg es) then BadCase
          else
            match mode_of_name mname with
            | None => exact_verdict obs_reject obs
            | Some mode =>
                let m := match extract_conds (treok t) cfg with
                         | None => obs_reject
                         | Some conds =>
                             cfg_obs route (map (fun pv => kind_sx (extract_value (treok t) (snd pv))) cfg)
                                     (map (is_match (tre t) mode invert conds) es)
                         end in
                let s := if forallb (fun pv => cfg_accepted (treok t) (snd pv)) cfg
                         then cfg_obs route (map (fun pv => kind_sx (doc_kind (treok t) (snd pv))) cfg)
                                      (map (cfg_spec (tre t) mode invert cfg) es)
                         else obs_reject in
                verdict3 m s obs
            end
      | _, _, _, _ => BadCase
      end
  | _ => BadCase
  end.

(* ---- one rule shared by all processors of a pipeline ----------------------------------------------------------
   Pipeline.newProc hands every processor the SAME *ActionPluginStaticInfo: the match conditions (value lists,
   regexps) and the do_if tree of an action exist once and are read by all processor goroutines at once.
   The documented selector is a function of (rule as configured, event); an evaluation READS the rule. The model
   makes the rule an explicit state: a step returns the decision and the rule the evaluation leaves behind (the
   same rule); any interleaving of the processors' evaluations is a sequence of such steps over the one rule. *)
Fixpoint list_eqb {A : Type} (eq : A -> A -> bool) (a b : list A) : bool :=
  match a, b with
  | [], [] => true
  | x :: r, y :: q => eq x y && list_eqb eq r q
  | _, _ => false
  end.

Section Shared.
  Variable re_match : bytes -> bytes -> bool.

  Definition eval_step (mode : mmode) (invert : bool) (rule : list cond) (e : json) : bool * list cond :=
    (is_match re_match mode invert rule e, rule).

  Fixpoint shared_run (mode : mmode) (invert : bool) (rule : list cond) (es : list json) : list bool * list cond :=
    match es with
    | [] => ([], rule)
    | e :: r =>
        let (b, rule1) := eval_step mode invert rule e in
        let (bs, rule2) := shared_run mode invert rule1 r in
        (b :: bs, rule2)
    end.

  Definition cond_eqb (a b : cond) : bool :=
    list_eqb bytes_eqb (c_field a) (c_field b) && list_eqb bytes_eqb (c_values a) (c_values b)
    && match c_regexp a, c_regexp b with
       | Some x, Some y => bytes_eqb x y
       | None, None => true
       | _, _ => false
       end.

  (* the property's predicate on what a run over a shared rule showed: the rule found afterwards is the configured
     one (values in order, regexps), and every decision - in whatever order the evaluations were interleaved -
     is the documented one for (configured rule, event) *)
  Definition shared_ok (mode : mmode) (invert : bool) (rule : list cond) (es : list json)
             (decisions : list bool) (rule_after : list cond) : bool :=
    list_eqb cond_eqb rule rule_after
    && list_eqb Bool.eqb decisions (map (match_spec re_match mode invert rule) es).
End Shared.

(* which = 5: K goroutines, each a processor of its own over ONE shared rule, evaluate the events of the case
   (goroutine g starts at event g and walks round) n times in all, at once; then one goroutine sweeps every event.
   case = (K n inner) with inner a which = 2 case
   obs  = (mutated (d ...) (a ...)) | what which = 2 says for a refused rule / a panic
     mutated: 0 = the rule read back after the run (conditions: field, values in order, regexp text; do_if tree
              equal to a fresh construction) is the configured one, 1 = it is not
     d: per event 0 | 1 = every evaluation of the concurrent phase decided so, 2 = the evaluations disagreed
     a: per event the decision of the sequential sweep
   Both rows are judged by the which = 2 sub-model against (rule as configured, event). *)
Definition c14_shared_entry (case obs : sx) : verdict :=
  match case with
  | SL [SZ k; SZ n; inner] =>
      if (k <? 1)%Z || (n <? 1)%Z then BadCase
      else
        match obs with
        | SL [SZ mutated; SL d; SL a] =>
            match c14_proc_run inner (SL d), c14_proc_run inner (SL a) with
            | BadCase, _ | _, BadCase => BadCase
            | Violates m, _ | _, Violates m => Violates (SL [SZ 0; m])
            | v1, v2 =>
                if negb (mutated =? 0)%Z then Violates (SL [SZ 0; SL d; SL a])
                else match v1 with Agree => v2 | _ => v1 end
            end
        | _ => c14_proc_run inner obs
        end
  | _ => BadCase
  end.

(* entry point of the model runner: 0 one check (an event or an antispam datum), 1 checkers x events in
   sequence / an action chain, 2 processor.isMatch, 3 real pipeline + discard (configuration read by
   fd.SetupActions / extractConditions), 4 the match_fields map of a configuration: translation by
   fd.extractConditions + decisions, 5 one rule shared by K goroutines *)
Definition c14_entry (which : Z) (case obs : sx) : verdict :=
  match which with
  | 0 => c14_check_run case obs
  | 1 => c14_seq_run case obs
  | 2 => c14_proc_run case obs
  | 3 => c14_proc_run_cfg case obs
  | 4 => c14_cfg_run case obs
  | 5 => c14_shared_entry case obs
  | _ => BadCase
  end.
