(* Model of pipeline/stream.go + the charged list of pipeline/streamer.go as a labelled transition
   system, one label per verifTrace site (each emitted inside the mutex region that performs the
   effect).  A state holds every stream of one pipeline (indexed by first appearance in the trace)
   and the charged list.  [step] returns None when a label is not enabled (correspondence break) and
   sets [crashed] where the Go code would call logger.Panicf.  Guards quote the code.  No proofs. *)
From Verif Require Import Base.Sx.

Record stream := {
  q : list Z;            (* seqs waiting in the stream, oldest first (a time-out event is recorded as its negated seq - 1) *)
  cur : Z;               (* currentSeq *)
  away : Z;              (* awaySeq: seq of the last event taken *)
  scommit : Z;           (* commitSeq *)
  att : bool;            (* isAttached *)
  det : bool;            (* isDetaching *)
  blk : bool;            (* owner is inside blockGet's wait (stream is in the blocked list) *)
  popped : bool;         (* between the pop from the charged list and attach() *)
  pend : bool;           (* makeCharged is about to be called in the current critical section (put / tryDetach) *)
  own : bool             (* a processor is inside dischargeStream for this stream (between attach and leave) *)
}.
Definition stream0 : stream :=
  {| q := []; cur := 0; away := 0; scommit := 0; att := false; det := false; blk := false; popped := false; pend := false; own := false |}.

Record sst := {
  streams : list stream;      (* index = stream id of the trace *)
  charged : list Z;           (* stream ids; the code pops the LAST element *)
  scrashed : bool;
  (* history *)
  taken : list (Z * Z);       (* (stream, seq) in the order events were taken, reversed; time-outs excluded *)
  timeouts : list (Z * Z)     (* (stream, seq of the time-out event), reversed *)
}.
Definition sinit : sst := {| streams := []; charged := []; scrashed := false; taken := []; timeouts := [] |}.

Inductive slabel :=
| SPut (s seq kind : Z)          (* put: under s.mu; kind 4 = unlock event of streamer.stop *)
| SCharge (s : Z)                (* makeCharged (under chargedMu) — called from put / tryDetach while s.mu is held *)
| SPop (s : Z)                   (* joinStream popped s *)
| SAttach (s : Z)
| SGet (s seq kind : Z)          (* get(): under s.mu, from instantGet or blockGet *)
| SLeave (s : Z)                 (* instantGet found the stream empty: leave() *)
| SDetach (s : Z) (nonempty : bool)  (* tryDetach succeeded *)
| SCommit (s seq : Z)            (* commit(): commitSeq := seq (only emitted when seq >= commitSeq) *)
| SBlock (s : Z)                 (* blockGet: makeBlocked, about to Wait *)
| STimeout (s seq : Z).          (* tryUnblock created the time-out event *)

Fixpoint get_s (l : list stream) (i : nat) : stream := nth i l stream0.
Fixpoint set_s (l : list stream) (i : nat) (x : stream) : list stream :=
  match i, l with
  | O, [] => [x]
  | O, _ :: r => x :: r
  | S i', [] => stream0 :: set_s [] i' x
  | S i', y :: r => y :: set_s r i' x
  end.

Definition upd_stream (t : sst) (i : Z) (x : stream) : sst :=
  {| streams := set_s (streams t) (Z.to_nat i) x; charged := charged t; scrashed := scrashed t;
     taken := taken t; timeouts := timeouts t |}.
Definition crash (t : sst) : sst :=
  {| streams := streams t; charged := charged t; scrashed := true; taken := taken t; timeouts := timeouts t |}.

Definition mk (st : stream) q' cur' away' com' att' det' blk' pop' : stream :=
  {| q := q'; cur := cur'; away := away'; scommit := com'; att := att'; det := det'; blk := blk'; popped := pop'; pend := pend st; own := own st |}.
Definition set_pend (st : stream) (b : bool) : stream :=
  {| q := q st; cur := cur st; away := away st; scommit := scommit st; att := att st; det := det st; blk := blk st; popped := popped st; pend := b; own := own st |}.
Definition set_own (st : stream) (b : bool) : stream :=
  {| q := q st; cur := cur st; away := away st; scommit := scommit st; att := att st; det := det st; blk := blk st; popped := popped st; pend := pend st; own := b |}.

(* the stream id of a label.  Ids are indices (>= 0): a negative id would alias stream 0 through
   [Z.to_nat] while [charged] / [taken] record the id itself, so such labels are not enabled. *)
Definition label_stream (l : slabel) : Z :=
  match l with
  | SPut s _ _ | SCharge s | SPop s | SAttach s | SGet s _ _ | SLeave s | SDetach s _ | SCommit s _ | SBlock s | STimeout s _ => s
  end.

Definition sstep (t : sst) (l : slabel) : option sst :=
  if scrashed t then None else
  if label_stream l <? 0 then None else
  match l with
  | SPut s seq kind =>
      if s <? 0 then None else
      let st := get_s (streams t) (Z.to_nat s) in
      (* currentSeq++ ; the event gets that seq *)
      if (seq =? cur st + 1) && negb (pend st)
      then Some (upd_stream t s (set_pend (mk st (q st ++ [seq]) seq (away st) (scommit st) (att st) (det st) false (popped st))
                                         (match q st with [] => negb (att st) | _ :: _ => false end)))
      else None
  | SCharge s =>
      let st := get_s (streams t) (Z.to_nat s) in
      (* called from put when (first == nil before) && !isAttached, and from tryDetach when first != nil *)
      if negb (att st) && negb (existsb (Z.eqb s) (charged t)) && pend st && match q st with [] => false | _ :: _ => true end
      then Some {| streams := set_s (streams t) (Z.to_nat s) (set_pend st false); charged := charged t ++ [s]; scrashed := scrashed t; taken := taken t; timeouts := timeouts t |}
      else None
  | SPop s =>
      match rev (charged t) with
      | x :: r => if x =? s
                  then let st := get_s (streams t) (Z.to_nat s) in
                       Some {| streams := set_s (streams t) (Z.to_nat s) (mk st (q st) (cur st) (away st) (scommit st) (att st) (det st) (blk st) true);
                               charged := rev r; scrashed := scrashed t; taken := taken t; timeouts := timeouts t |}
                  else None
      | [] => None
      end
  | SAttach s =>
      let st := get_s (streams t) (Z.to_nat s) in
      if popped st then
        (* Panicf: already attached / detaching / empty *)
        if att st || det st || match q st with [] => true | _ => false end then Some (crash t)
        else Some (upd_stream t s (set_own (mk st (q st) (cur st) (away st) (scommit st) true false false false) true))
      else None
  | SGet s seq kind =>
      let st := get_s (streams t) (Z.to_nat s) in
      (* SeqID is a uint64: without [0 <= seq] a regular get of a negative seq would match the time-out marker and vice versa *)
      if negb (att st) || negb (own st) || (seq <? 0) then None else
      if det st then Some (crash t) else        (* Panicf "why get while detaching?" *)
      match q st with
      | x :: r =>
          if kind =? 3 then
            (* a time-out event: queued as -(seq)-1 *)
            if x =? - seq - 1
            then Some {| streams := set_s (streams t) (Z.to_nat s) (mk st r (cur st) seq (scommit st) true false false (popped st));
                         charged := charged t; scrashed := scrashed t; taken := taken t; timeouts := timeouts t |}
            else None
          else if x =? seq
          then Some {| streams := set_s (streams t) (Z.to_nat s) (mk st r (cur st) seq (scommit st) true false false (popped st));
                       charged := charged t; scrashed := scrashed t; taken := (s, seq) :: taken t; timeouts := timeouts t |}
          else None
      | [] => None
      end
  | SLeave s =>
      let st := get_s (streams t) (Z.to_nat s) in
      match q st with
      | [] => if att st && own st then
                if det st then Some (crash t)
                else Some (upd_stream t s (set_own (mk st [] (cur st) (away st) (scommit st) true true false (popped st)) false))
              else None
      | _ :: _ => None
      end
  | SDetach s nonempty =>
      let st := get_s (streams t) (Z.to_nat s) in
      (* tryDetach: only when awaySeq == commitSeq; called from leave (det just set) or commit (if isDetaching) *)
      if det st && att st && (away st =? scommit st) && Bool.eqb nonempty (match q st with [] => false | _ => true end)
      then Some (upd_stream t s (set_pend (mk st (q st) (cur st) (away st) (scommit st) false false false (popped st)) nonempty))
      else None
  | SCommit s seq =>
      let st := get_s (streams t) (Z.to_nat s) in
      (* only events that were taken from the stream are finalized *)
      if (scommit st <=? seq) && (seq <=? away st)
      then Some (upd_stream t s (mk st (q st) (cur st) (away st) seq (att st) (det st) (blk st) (popped st)))
      else None
  | SBlock s =>
      let st := get_s (streams t) (Z.to_nat s) in
      match q st with
      | [] => (* the processor blocks only after the event it took last was finalized (Discard / Collapse / Hold) *)
              if att st && own st && negb (det st) && (away st =? scommit st)
              then Some (upd_stream t s (mk st [] (cur st) (away st) (scommit st) true false true (popped st)))
              else None
      | _ :: _ => None
      end
  | STimeout s seq =>
      let st := get_s (streams t) (Z.to_nat s) in
      match q st with
      | [] =>
          if blk st then
            if negb (away st =? scommit st) then Some (crash t)     (* Panicf "why events are different?" *)
            else if seq =? scommit st
            then Some {| streams := set_s (streams t) (Z.to_nat s) (mk st [- seq - 1] (cur st) (away st) (scommit st) (att st) (det st) false (popped st));
                         charged := charged t; scrashed := scrashed t; taken := taken t; timeouts := (s, seq) :: timeouts t |}
            else None
          else None
      | _ :: _ => None
      end
  end.

Fixpoint srun (t : sst) (ls : list slabel) : option sst :=
  match ls with
  | [] => Some t
  | l :: r => match sstep t l with Some t' => srun t' r | None => None end
  end.
