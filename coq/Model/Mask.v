(* Model of plugin/action/mask: Mask.maskValue / maskSection (mask_struct.go), Plugin.processMask /
   traverseTree / Do (mask.go), the process/ignore field tree (field_masks_node.go),
   cfg.VerifyGroupNumbers (cfg/regexp_groups.go) and matchrule.Rule/RuleSet.Match (cfg/matchrule).
   The regexp engine is an ORACLE: the case carries, for every (mask, input) the run needs, the result of
   Go's Regexp.FindAllSubmatchIndex.  No proofs here (Proofs/Mask.v). *)
From Verif Require Import Base.Sx Base.GoSem Base.Json.

Definition STAR : byte := 42%N.

(* ---- unicode/utf8.RuneCount -------------------------------------------------------------------
   one rune per valid encoding, one per byte that does not start one (first[] / acceptRanges tables) *)
Definition in_rng (c lo hi : N) : bool := (lo <=? c)%N && (c <=? hi)%N.

(* encoded size announced by a lead byte and the accepted range of the second byte *)
Definition lead_info (c : N) : nat * N * N :=
  if in_rng c 194 223 then (2%nat, 128%N, 191%N)
  else if N.eqb c 224 then (3%nat, 160%N, 191%N)
  else if in_rng c 225 236 then (3%nat, 128%N, 191%N)
  else if N.eqb c 237 then (3%nat, 128%N, 159%N)
  else if in_rng c 238 239 then (3%nat, 128%N, 191%N)
  else if N.eqb c 240 then (4%nat, 144%N, 191%N)
  else if in_rng c 241 243 then (4%nat, 128%N, 191%N)
  else if N.eqb c 244 then (4%nat, 128%N, 143%N)
  else (1%nat, 0%N, 0%N).
Definition cont (c : N) : bool := in_rng c 128 191.

(* bytes taken by the rune that starts with c; r = the bytes after c *)
Definition rune_size (c : N) (r : bytes) : nat :=
  let '(sz, lo, hi) := lead_info c in
  match sz with
  | 2%nat => match r with c1 :: _ => if in_rng c1 lo hi then 2%nat else 1%nat | _ => 1%nat end
  | 3%nat => match r with
             | c1 :: c2 :: _ => if in_rng c1 lo hi && cont c2 then 3%nat else 1%nat
             | _ => 1%nat
             end
  | 4%nat => match r with
             | c1 :: c2 :: c3 :: _ => if in_rng c1 lo hi && cont c2 && cont c3 then 4%nat else 1%nat
             | _ => 1%nat
             end
  | _ => 1%nat
  end.

Fixpoint rune_count_skip (skip : nat) (l : bytes) : Z :=
  match l with
  | [] => 0
  | c :: r => match skip with
              | S k => rune_count_skip k r
              | O => 1 + rune_count_skip (rune_size c r - 1) r
              end
  end.
Definition rune_count (l : bytes) : Z := rune_count_skip 0 l.

(* ---- maskSection ------------------------------------------------------------------------------ *)
Inductive mmode :=
| MMask (max_count : Z)        (* asterisks, one per rune, at most max_count when max_count > 0 *)
| MReplace (w : bytes)         (* replace_word (non-empty) *)
| MCut.                        (* cut_values *)

Definition stars (n : Z) : bytes := repeat STAR (Z.to_nat n).

(* what a hidden section [secret] is replaced by *)
Definition repl (mode : mmode) (secret : bytes) : bytes :=
  match mode with
  | MMask mc => let n := rune_count secret in stars (if 0 <? mc then Z.min n mc else n)
  | MReplace w => w
  | MCut => []
  end.

Definition mask_section (value : bytes) (mode : mmode) (s f : Z) : res bytes :=
  match mode with
  | MMask _ => sc <- slice value s f ;; Ok (repl mode sc)       (* utf8.RuneCount(src[begin:end]) *)
  | _ => Ok (repl mode [])
  end.

(* ---- maskValue (repaired: fixes/C17-mask-groups.patch) ------------------------------------------
   for every match: the matched selected groups as sections, ordered by position (an enclosing group
   before the groups inside it); a section that starts before prevFinish is skipped; the tail is
   value[prevFinish:] *)
Definition sec := (Z * Z)%type.

Fixpoint collect (index : list Z) (groups : list Z) : res (list sec) :=
  match groups with
  | [] => Ok []
  | g :: gs =>
      s <- idx index (g * 2) ;;
      f <- idx index (g * 2 + 1) ;;
      rest <- collect index gs ;;
      Ok (if (s <? 0) || (f <? 0) then rest else (s, f) :: rest)
  end.

(* a sorts before (or equal to) b: earlier start, or same start and not shorter *)
Definition sec_before (a b : sec) : bool :=
  (fst a <? fst b) || ((fst a =? fst b) && (snd b <=? snd a)).

Fixpoint insert_sec (a : sec) (l : list sec) : list sec :=
  match l with
  | [] => [a]
  | b :: r => if sec_before a b then a :: l else b :: insert_sec a r
  end.
Fixpoint sort_secs (l : list sec) : list sec :=
  match l with [] => [] | a :: r => insert_sec a (sort_secs r) end.

(* output produced for the sections and the new prevFinish *)
Fixpoint sweep (value : bytes) (mode : mmode) (secs : list sec) (prev : Z) : res (bytes * Z) :=
  match secs with
  | [] => Ok ([], prev)
  | (s, f) :: r =>
      if s <? prev then sweep value mode r prev
      else
        gap <- slice value prev s ;;
        m <- mask_section value mode s f ;;
        '(out, p) <- sweep value mode r f ;;
        Ok (gap ++ m ++ out, p)
  end.

Fixpoint matches_loop (value : bytes) (mode : mmode) (groups : list Z) (idxs : list (list Z)) (prev : Z)
  : res (bytes * Z) :=
  match idxs with
  | [] => Ok ([], prev)
  | index :: r =>
      secs <- collect index groups ;;
      '(o1, p1) <- sweep value mode (sort_secs secs) prev ;;
      '(o2, p2) <- matches_loop value mode groups r p1 ;;
      Ok (o1 ++ o2, p2)
  end.

(* None: no match, the caller keeps its buffer (returns buf, false) *)
Definition mask_value (value : bytes) (idxs : list (list Z)) (groups : list Z) (mode : mmode)
  : res (option bytes) :=
  match idxs with
  | [] => Ok None
  | _ :: _ =>
      '(body, prev) <- matches_loop value mode groups idxs 0 ;;
      tail <- slice_from value prev ;;
      Ok (Some (body ++ tail))
  end.

(* ---- the hypothesis on the regexp oracle, as an executable check ------------------------------ *)
Fixpoint pairs_of (l : list Z) : list sec :=
  match l with a :: b :: r => (a, b) :: pairs_of r | _ => [] end.

Definition unmatched (p : sec) : bool := (fst p =? -1) && (snd p =? -1).
(* nested or disjoint *)
Definition laminar (a b : sec) : bool :=
  (snd a <=? fst b) || (snd b <=? fst a) ||
  ((fst b <=? fst a) && (snd a <=? snd b)) || ((fst a <=? fst b) && (snd b <=? snd a)).
Definition inside (m p : sec) : bool := (fst m <=? fst p) && (fst p <=? snd p) && (snd p <=? snd m).

Definition index_wf (vlen nsub prev : Z) (index : list Z) : bool :=
  (len index =? 2 * (nsub + 1)) &&
  match pairs_of index with
  | [] => false
  | m :: _ =>
      (prev <=? fst m) && (fst m <=? snd m) && (snd m <=? vlen) &&
      forallb (fun p => unmatched p || inside m p) (pairs_of index) &&
      forallb (fun a => unmatched a ||
                 forallb (fun b => unmatched b || laminar a b) (pairs_of index)) (pairs_of index)
  end.

Fixpoint re_wf_from (vlen nsub prev : Z) (idxs : list (list Z)) : bool :=
  match idxs with
  | [] => true
  | index :: r =>
      index_wf vlen nsub prev index &&
      match pairs_of index with m :: _ => re_wf_from vlen nsub (snd m) r | [] => false end
  end.
(* matches ascending and disjoint inside the value, groups inside their match or -1, nested or disjoint *)
Definition re_wf_b (vlen nsub : Z) (idxs : list (list Z)) : bool := (0 <=? nsub) && re_wf_from vlen nsub 0 idxs.

(* ---- cfg.VerifyGroupNumbers; Err 1 = logger.Fatal --------------------------------------------- *)
Fixpoint has_dup (l : list Z) : bool :=
  match l with [] => false | x :: r => existsb (Z.eqb x) r || has_dup r end.
Fixpoint vg_scan (gs : list Z) (total : Z) (all : list Z) : res (list Z) :=
  match gs with
  | [] => Ok all
  | g :: r => if (total <? g) || (g <? 0) then Err 1 else if g =? 0 then Ok [0] else vg_scan r total all
  end.
Definition verify_groups (gs : list Z) (total : Z) : res (list Z) :=
  if has_dup gs then Err 1 else if total <? len gs then Err 1 else vg_scan gs total gs.

(* ---- cfg/matchrule ---------------------------------------------------------------------------- *)
Inductive rmode := RPrefix | RContains | RSuffix.
Record rule := { r_values : list bytes; r_mode : rmode; r_ci : bool; r_invert : bool }.
Record ruleset := { rs_or : bool; rs_rules : list rule }.

(* bytes.ToLower / strings.ToLower on ASCII data (the harness checks this on the data it uses with
   case-insensitive rules) *)
Definition lower_b (c : byte) : byte := if in_rng c 65 90 then (c + 32)%N else c.
Definition to_lower (b : bytes) : bytes := map lower_b b.

Record prule := { p_values : list bytes; p_mode : rmode; p_ci : bool; p_invert : bool; p_min : Z; p_max : Z }.

(* Rule.Prepare (values non-empty: compileMask refuses a rule without values) *)
Definition prepare (r : rule) : prule :=
  let vs := if r_ci r then map to_lower (r_values r) else r_values r in
  let l0 := match vs with v :: _ => len v | [] => 0 end in
  {| p_values := vs; p_mode := r_mode r; p_ci := r_ci r; p_invert := r_invert r;
     p_min := fold_left (fun a v => Z.min a (len v)) vs l0;
     p_max := fold_left (fun a v => Z.max a (len v)) vs l0 |}.

Fixpoint affix_loop (md : rmode) (cut : bytes) (vs : list bytes) : res bool :=
  match vs with
  | [] => Ok false
  | v :: r =>
      if len cut <? len v then affix_loop md cut r
      else
        data <- (match md with
                 | RSuffix => slice_from cut (len cut - len v)
                 | _ => slice_to cut (len v)
                 end) ;;
        if bytes_eqb data v then Ok true else affix_loop md cut r
  end.

Definition rule_match_raw (p : prule) (raw : bytes) : res bool :=
  if len raw <? p_min p then Ok false
  else match p_mode p with
       | RContains =>
           let data := if p_ci p then to_lower raw else raw in
           Ok (existsb (fun v => negb (len data <? len v) && contains data v) (p_values p))
       | md =>
           cut <- (if len raw <? p_max p then Ok raw
                   else match md with
                        | RSuffix => slice_from raw (len raw - p_max p)
                        | _ => slice_to raw (p_max p)
                        end) ;;
           affix_loop md (if p_ci p then to_lower cut else cut) (p_values p)
       end.
Definition rule_match (p : prule) (raw : bytes) : res bool :=
  ok <- rule_match_raw p raw ;; Ok (if p_invert p then negb ok else ok).

Fixpoint rs_loop (is_or : bool) (rules : list prule) (data : bytes) : res bool :=
  match rules with
  | [] => Ok (negb is_or)
  | r :: rest =>
      m <- rule_match r data ;;
      if m && is_or then Ok true
      else if negb m && negb is_or then Ok false
      else rs_loop is_or rest data
  end.
Definition pruleset := (bool * list prule)%type.
Definition ruleset_match (rs : pruleset) (data : bytes) : res bool :=
  match snd rs with [] => Ok false | _ :: _ => rs_loop (fst rs) (snd rs) data end.

(* Mask.checkMatchRules *)
Fixpoint any_ruleset (rss : list pruleset) (data : bytes) : res bool :=
  match rss with
  | [] => Ok false
  | rs :: rest => m <- ruleset_match rs data ;; if m then Ok true else any_ruleset rest data
  end.
Definition check_match_rules (rss : list pruleset) (data : bytes) : res bool :=
  match rss with [] => Ok true | _ :: _ => any_ruleset rss data end.

(* ---- configuration ------------------------------------------------------------------------------ *)
Definition path := list bytes.
Record mask := {
  m_re : bool;                 (* Re != "" *)
  m_nsub : Z;                  (* Regexp.NumSubexp (oracle) *)
  m_groups : list Z;           (* as configured *)
  m_mode : mmode;
  m_rules : list ruleset;
  m_afield : bytes; m_avalue : bytes;      (* applied_field / applied_value *)
  m_metric : bool;             (* metric_name != "" *)
  m_ign : list path; m_proc : list path    (* mask-specific ignore_fields / process_fields (normalised) *)
}.
Record config := {
  c_masks : list mask;
  c_afield : bytes; c_avalue : bytes;      (* mask_applied_field / mask_applied_value *)
  c_metric : bool;                         (* applied_metric_name != "" *)
  c_ign : list path; c_proc : list path
}.

(* compiled mask: compileMask *)
Record cmask := {
  k_apply : bool;              (* Re != "" && len(Groups) > 0 *)
  k_groups : list Z;           (* after VerifyGroupNumbers *)
  k_nsub : Z;
  k_mode : mmode;
  k_rules : list pruleset;
  k_afield : bytes; k_avalue : bytes;
  k_metric : bool;
  k_own_ign : bool; k_own_proc : bool
}.

Definition is_nil {A} (l : list A) : bool := match l with [] => true | _ => false end.

Definition compile_mask (m : mask) : res cmask :=
  if negb (m_re m) && is_nil (m_rules m) then Err 1
  else
    gs <- (if m_re m then verify_groups (m_groups m) (m_nsub m) else Ok (m_groups m)) ;;
    if existsb (fun rs => is_nil (rs_rules rs) || existsb (fun r => is_nil (r_values r)) (rs_rules rs)) (m_rules m)
    then Err 1
    else if negb (is_nil (m_ign m)) && negb (is_nil (m_proc m)) then Err 1
    else if existsb is_nil (m_ign m) || existsb is_nil (m_proc m) then Err 1
    else Ok {| k_apply := m_re m && negb (is_nil gs); k_groups := gs; k_nsub := m_nsub m; k_mode := m_mode m;
               k_rules := map (fun rs => (rs_or rs, map prepare (rs_rules rs))) (m_rules m);
               k_afield := m_afield m; k_avalue := m_avalue m; k_metric := m_metric m;
               k_own_ign := negb (is_nil (m_ign m)); k_own_proc := negb (is_nil (m_proc m)) |}.

Fixpoint compile_masks (ms : list mask) : res (list cmask) :=
  match ms with
  | [] => Ok []
  | m :: r => k <- compile_mask m ;; ks <- compile_masks r ;; Ok (k :: ks)
  end.

(* ---- the field masks tree (field_masks_node.go), represented by its list entries ----------------
   A node of the Go trie = the entries that pass through it, each with the rest of its path:
   rest = [] : the entry ends here (the node carries its mark); the node has children iff some rest is
   non-empty; the child for key k = the entries whose rest starts with k.
   [inh = false] is the code.  [inh = true] is the README semantics ("all nested fields will be
   processed / ignored"): an entry that ended stays in force below its node. *)
Inductive tag := TProc (i : nat) | TIgn (i : nat) | TGProc | TGIgn.
Definition tag_eqb (a b : tag) : bool :=
  match a, b with
  | TProc i, TProc j => Nat.eqb i j
  | TIgn i, TIgn j => Nat.eqb i j
  | TGProc, TGProc => true
  | TGIgn, TGIgn => true
  | _, _ => false
  end.
Definition fment := (path * tag)%type.
Definition fmnode := list fment.

Definition fm_has_children (n : fmnode) : bool := existsb (fun e => negb (is_nil (fst e))) n.
Definition fm_has_tag (n : fmnode) (t : tag) : bool :=
  existsb (fun e => is_nil (fst e) && tag_eqb (snd e) t) n.
Definition fm_child (inh : bool) (n : fmnode) (k : bytes) : fmnode :=
  flat_map (fun e => match fst e with
                     | [] => if inh then [e] else []
                     | k' :: rest => if key_eqb k' k then [(rest, snd e)] else []
                     end) n.

Record fields := {
  f_any : bool;          (* hasProcessOrIgnoreFields *)
  f_specific : bool;     (* hasMaskSpecificFieldsList *)
  f_gign : bool;         (* hasGlobalIgnoreFields *)
  f_gproc : bool;        (* hasGlobalProcessFields *)
  f_root : option fmnode (* fieldMasksRoot (nil unless f_any) *)
}.

Fixpoint mask_entries (i : nat) (ms : list mask) : list fment :=
  match ms with
  | [] => []
  | m :: r => map (fun p => (p, TIgn i)) (m_ign m) ++ map (fun p => (p, TProc i)) (m_proc m) ++ mask_entries (S i) r
  end.

(* gatherFieldPaths + gatherFieldMasksTree *)
Definition gather_fields (c : config) : res fields :=
  if negb (is_nil (c_ign c)) && negb (is_nil (c_proc c)) then Err 1
  else if existsb is_nil (c_ign c) || existsb is_nil (c_proc c) then Err 1
  else
    let own := filter (fun m => negb (is_nil (m_ign m)) || negb (is_nil (m_proc m))) (c_masks c) in
    let specific := negb (is_nil own) in
    let use_global := (length own <? length (c_masks c))%nat in
    let gign := use_global && negb (is_nil (c_ign c)) in
    let gproc := use_global && negb (is_nil (c_proc c)) in
    let any := specific || gign || gproc in
    let entries := mask_entries 0 (c_masks c)
                   ++ (if gign then map (fun p => (p, TGIgn)) (c_ign c) else [])
                   ++ (if gproc then map (fun p => (p, TGProc)) (c_proc c) else []) in
    Ok {| f_any := any; f_specific := specific; f_gign := gign; f_gproc := gproc;
          f_root := if any then Some entries else None |}.

(* strconv.Itoa for array positions *)
Fixpoint itoa_aux (fuel : nat) (n : N) (acc : bytes) : bytes :=
  match fuel with
  | O => acc
  | S f => let d := (48 + n mod 10)%N in
           if (n <? 10)%N then d :: acc else itoa_aux f (n / 10)%N (d :: acc)
  end.
Definition itoa (n : nat) : bytes := itoa_aux 40 (N.of_nat n) [].

(* strconv.Atoi as insane-json Dig uses it for array positions: optional sign, decimal digits;
   the result is a position only when it is >= 0 *)
Definition is_digit (c : byte) : bool := in_rng c 48 57.
Fixpoint digits_val (l : bytes) (acc : N) : N :=
  match l with [] => acc | c :: r => digits_val r (acc * 10 + (c - 48))%N end.
Definition atoi_pos (k : bytes) : option nat :=
  let '(neg, ds) := match k with
                    | 43%N :: r => (false, r)
                    | 45%N :: r => (true, r)
                    | _ => (false, k)
                    end in
  if is_nil ds || negb (forallb is_digit ds) then None
  else let v := digits_val ds 0 in
       if neg && negb (N.eqb v 0) then None else Some (N.to_nat v).

(* ---- processMask -------------------------------------------------------------------------------- *)
Section Run.
  Variable inh : bool.
  Variable masks : list cmask.
  Variable fl : fields.
  (* FindAllSubmatchIndex of mask i on an input; Err 9 = the case's table has no such entry *)
  Variable oracle : nat -> bytes -> res (list (list Z)).

  (* is mask i in force at a node whose field-masks node is fm (nil pointer = None)? *)
  Definition applicable (k : cmask) (i : nat) (fm : option fmnode) : bool :=
    if negb (f_any fl) then true
    else if k_own_ign k then match fm with Some n => negb (fm_has_tag n (TIgn i)) | None => true end
    else if k_own_proc k then match fm with Some n => fm_has_tag n (TProc i) | None => false end
    else if f_gign fl then match fm with Some n => negb (fm_has_tag n TGIgn) | None => true end
    else if f_gproc fl then match fm with Some n => fm_has_tag n TGProc | None => true end
    else true.

  (* the loop over the masks: src = sourceBuf once copied, updated = shouldUpdateValue,
     fired = indices of the masks that set maskApplied, latest first *)
  Fixpoint pm_loop (i : nat) (ms : list cmask) (fm : option fmnode) (orig src : bytes)
           (updated : bool) (fired : list nat) : res (bytes * bool * list nat) :=
    match ms with
    | [] => Ok (src, updated, fired)
    | k :: r =>
        if negb (applicable k i fm) then pm_loop (S i) r fm orig src updated fired
        else
          rm <- check_match_rules (k_rules k) orig ;;
          if negb rm then pm_loop (S i) r fm orig src updated fired
          else if k_apply k then
            idxs <- oracle i src ;;
            if negb (re_wf_b (len src) (k_nsub k) idxs) then Err 8
            else
              mv <- mask_value src idxs (k_groups k) (k_mode k) ;;
              match mv with
              | None => pm_loop (S i) r fm orig src updated fired
              | Some out => pm_loop (S i) r fm orig out true (i :: fired)
              end
          else pm_loop (S i) r fm orig src updated (i :: fired)
    end.

  (* new content, whether the node is rewritten, fired masks in order *)
  Definition process_mask (fm : option fmnode) (value : bytes) : res (bytes * bool * list nat) :=
    match value with
    | [] => Ok (value, false, [])
    | _ :: _ => '(out, upd, fired) <- pm_loop 0 masks fm value value false [] ;; Ok (out, upd, rev fired)
    end.

  (* ---- traverseTree ----------------------------------------------------------------------------- *)
  Definition should_check (fm : option fmnode) : bool :=
    match fm with Some n => fm_has_children n | None => false end.

  (* the field-masks node for the element / field named k *)
  Definition next_fm (fm : option fmnode) (k : bytes) : option fmnode :=
    match fm with
    | Some n => if fm_has_children n then Some (fm_child inh n k) else fm
    | None => None
    end.
  (* IsField case: None = the field is skipped at once (global ignore, no mask-specific lists) *)
  Definition field_next (fm : option fmnode) (k : bytes) : option (option fmnode) :=
    let nx := next_fm fm k in
    if should_check fm && negb (f_specific fl) &&
       match nx with Some n => fm_has_tag n TGIgn | None => false end
    then None else Some nx.

  Definition tres := (json * bool * list nat)%type.

  Definition leaf (fm : option fmnode) (v : json) (s : bytes) : res tres :=
    '(out, upd, fired) <- process_mask fm s ;;
    Ok (if upd then JStr out else v, upd, fired).

  (* value after the traversal, whether the node itself was rewritten by processMask, fired masks *)
  Fixpoint traverse (fm : option fmnode) (v : json) {struct v} : res tres :=
    match v with
    | JStr s => leaf fm v s
    | JNum s => leaf fm v s
    | JArr l =>
        '(l', fired) <-
          (fix go (i : nat) (l : list json) {struct l} : res (list json * list nat) :=
             match l with
             | [] => Ok ([], [])
             | x :: r =>
                 '(x', _, f1) <- traverse (next_fm fm (itoa i)) x ;;
                 '(r', f2) <- go (S i) r ;;
                 Ok (x' :: r', f1 ++ f2)
             end) 0%nat l ;;
        Ok (JArr l', false, fired)
    | JObj fs =>
        '(fs', fired) <-
          (fix go (fs : list (bytes * json)) {struct fs} : res (list (bytes * json) * list nat) :=
             match fs with
             | [] => Ok ([], [])
             | (k, x) :: r =>
                 '(x', f1) <- (match field_next fm k with
                               | None => Ok (x, [])
                               | Some nx => '(x', _, f1) <- traverse nx x ;; Ok (x', f1)
                               end) ;;
                 '(r', f2) <- go r ;;
                 Ok ((k, x') :: r', f1 ++ f2)
             end) fs ;;
        Ok (JObj fs', false, fired)
    | _ => Ok (v, false, [])
    end.

  (* ---- the applied marks: event.Root.AddFieldNoAlloc(root, name).MutateToString(value) ---------- *)
  Fixpoint set_val (fs : list (bytes * json)) (i : nat) (v : json) : list (bytes * json) :=
    match fs, i with
    | [], _ => []
    | (k, _) :: r, O => (k, v) :: r
    | kv :: r, S i' => kv :: set_val r i' v
    end.

  (* fields after the write and the position written *)
  Definition write_field (fs : list (bytes * json)) (name value : bytes) : list (bytes * json) * nat :=
    match field_index fs name 0 with
    | Some j => (set_val fs j (JStr value), j)
    | None => (fs ++ [(name, JStr value)], length fs)
    end.

  (* marks of the fired masks, in order; hit = some write went to position cur *)
  Fixpoint apply_marks (fired : list nat) (fs : list (bytes * json)) (cur : nat) : list (bytes * json) * bool :=
    match fired with
    | [] => (fs, false)
    | i :: r =>
        match nth_error masks i with
        | Some k =>
            if is_nil (k_afield k) then apply_marks r fs cur
            else let '(fs1, j) := write_field fs (k_afield k) (k_avalue k) in
                 let '(fs2, hit) := apply_marks r fs1 cur in
                 (fs2, Nat.eqb j cur || hit)
        | None => apply_marks r fs cur
        end
    end.

  (* traverseTree on the root object: the fields present at entry, one after the other; a mark may have
     rewritten a field before its turn, or the very field being traversed (then what happens inside it is
     no longer part of the event, unless the field is a leaf that processMask rewrites afterwards) *)
  Fixpoint root_loop (todo i : nat) (fm : option fmnode) (fs : list (bytes * json))
    : res (list (bytes * json) * list nat) :=
    match todo with
    | O => Ok (fs, [])
    | S t =>
        match nth_error fs i with
        | None => Ok (fs, [])
        | Some (k, x) =>
            match field_next fm k with
            | None => root_loop t (S i) fm fs
            | Some nx =>
                '(x', upd, fired) <- traverse nx x ;;
                let '(fs1, hit) := apply_marks fired fs i in
                let fs2 := if negb hit || upd then set_val fs1 i x' else fs1 in
                '(fs3, f2) <- root_loop t (S i) fm fs2 ;;
                Ok (fs3, fired ++ f2)
            end
        end
    end.

  (* insane-json Dig (first field of that name; array position by Atoi) and the write-back *)
  Fixpoint dig_path (j : json) (p : path) : option json :=
    match p with
    | [] => Some j
    | k :: rest =>
        match j with
        | JObj fs => match field_get fs k with Some v => dig_path v rest | None => None end
        | JArr l => match atoi_pos k with
                    | Some n => match nth_error l n with Some v => dig_path v rest | None => None end
                    | None => None
                    end
        | _ => None
        end
    end.
  Fixpoint put_path (j : json) (p : path) (x : json) : json :=
    match p with
    | [] => x
    | k :: rest =>
        match j with
        | JObj fs => match field_index fs k 0, field_get fs k with
                     | Some n, Some v => JObj (set_val fs n (put_path v rest x))
                     | _, _ => j
                     end
        | JArr l => match atoi_pos k with
                    | Some n => match nth_error l n with
                                | Some v => JArr (set_at l n (put_path v rest x))
                                | None => j
                                end
                    | None => j
                    end
        | _ => j
        end
    end.

  (* fast path of Do: global process_fields only — Dig each listed path, traverse it with a nil node *)
  Fixpoint fast_loop (paths : list path) (root : json) : res (json * list nat) :=
    match paths with
    | [] => Ok (root, [])
    | p :: rest =>
        match dig_path root p with
        | None => fast_loop rest root
        | Some x =>
            '(x', upd, fired) <- traverse None x ;;
            let '(root1, hit) :=
              match root, p with
              | JObj fs, k :: _ =>
                  match field_index fs k 0 with
                  | Some cur => let '(fs1, hit) := apply_marks fired fs cur in (JObj fs1, hit)
                  | None => (root, false)
                  end
              | _, _ => (root, false)
              end in
            let root2 := if negb hit || (upd && Nat.eqb (length p) 1) then put_path root1 p x' else root1 in
            '(root3, f2) <- fast_loop rest root2 ;;
            Ok (root3, fired ++ f2)
        end
    end.

  Variable cfg : config.

  (* Plugin.Do on one event: the event afterwards and the masks that fired (with multiplicity) *)
  Definition do_event (root : json) : res (json * list nat) :=
    '(root1, fired) <-
      (if f_gproc fl && negb (f_specific fl) then fast_loop (c_proc cfg) root
       else match root with
            | JObj fs => '(fs', fired) <- root_loop (length fs) 0 (f_root fl) fs ;; Ok (JObj fs', fired)
            | _ => '(v, _, fired) <- traverse (f_root fl) root ;; Ok (v, fired)
            end) ;;
    let root2 := match root1 with
                 | JObj fs => if negb (is_nil fired) && negb (is_nil (c_afield cfg))
                              then JObj (fst (write_field fs (c_afield cfg) (c_avalue cfg))) else root1
                 | _ => root1
                 end in
    Ok (root2, fired).

  (* metrics: the plugin counter and the counter of every mask that has a metric name *)
  Definition count_fired (fired : list nat) (i : nat) : Z := Z.of_nat (count_occ Nat.eq_dec fired i).
  Fixpoint mask_counts (i : nat) (ms : list cmask) (fired : list nat) : list Z :=
    match ms with
    | [] => []
    | k :: r => (if k_metric k then count_fired fired i else 0) :: mask_counts (S i) r fired
    end.

  Fixpoint do_events (evs : list json) : res (list json * Z * list Z) :=
    match evs with
    | [] => Ok ([], 0, map (fun _ => 0) masks)
    | e :: r =>
        '(e', fired) <- do_event e ;;
        '(r', n, cs) <- do_events r ;;
        Ok (e' :: r',
            (if negb (is_nil fired) && c_metric cfg then 1 else 0) + n,
            map (fun ab => fst ab + snd ab) (combine (mask_counts 0 masks fired) cs))
    end.
End Run.

(* Start + Do*: Err 1 = Start refuses the configuration (logger.Fatal) *)
Definition run_plugin (inh : bool) (cfg : config) (oracle : nat -> bytes -> res (list (list Z))) (evs : list json)
  : res (list json * Z * list Z) :=
  ks <- compile_masks (c_masks cfg) ;;
  fl <- gather_fields cfg ;;
  do_events inh ks fl oracle cfg evs.

(* ---- per-mask do_if and metric labels ---------------------------------------------------------------
   mask.go Do: before the traversal every mask that has a do_if gets  use = DoIfChecker.Check(event)
   (masks without one: use = true since compileMask); processMask skips a mask unless
   mask.use && mask.checkMatchRules(value).  pipeline/doif is the subject of C14: the case carries Check's
   answers per event (an oracle, computed by the generator with the real doif package on the event as it
   enters Do).  A mask that is not used behaves as a mask whose match rules reject every value.
   Labels: after the traversal and the mask_applied_field write, Do reads every applied_metric_labels key
   with Root.Dig(key) (ONE key, not a selector) and increments the plugin counter of these label values;
   metrics.go applyMaskMetric does the same for every mask that fired, has a metric name and whose name is
   not the plugin's (registerMetrics leaves such a mask without a counter).  makeMetric refuses (Fatal)
   an empty or repeated label. *)
Definition gate (use : bool) (k : cmask) : cmask :=
  if use then k
  else {| k_apply := k_apply k; k_groups := k_groups k; k_nsub := k_nsub k; k_mode := k_mode k;
          k_rules := [(false, [])];
          k_afield := k_afield k; k_avalue := k_avalue k; k_metric := k_metric k;
          k_own_ign := k_own_ign k; k_own_proc := k_own_proc k |}.
(* bits beyond the list: used *)
Fixpoint gate_all (ks : list cmask) (bits : list bool) : list cmask :=
  match ks, bits with
  | k :: r, b :: br => gate b k :: gate_all r br
  | _, _ => ks
  end.

Record mext := { x_labels : list bytes; x_clash : bool }.   (* metric_labels; metric_name = applied_metric_name *)
Definition mext0 : mext := {| x_labels := []; x_clash := false |}.

(* Node.AsString of insane-json: strings and numbers their text, true / false / null, "" for containers *)
Definition as_label (v : json) : bytes :=
  match v with
  | JStr s => s
  | JNum s => s
  | JBool true => [116; 114; 117; 101]%N
  | JBool false => [102; 97; 108; 115; 101]%N
  | JNull => [110; 117; 108; 108]%N
  | _ => []
  end.
Definition NOT_SET : bytes := [110; 111; 116; 95; 115; 101; 116]%N.
Definition label_val (root : json) (k : bytes) : bytes :=
  match dig_path root [k] with Some v => as_label v | None => NOT_SET end.

Fixpoint has_dup_b (l : list bytes) : bool :=
  match l with [] => false | x :: r => existsb (bytes_eqb x) r || has_dup_b r end.
Definition bad_labels (l : list bytes) : bool := existsb is_nil l || has_dup_b l.

(* one counter: None = not touched by this event, Some (delta, label values) *)
Definition mobs := option (Z * list bytes).

Fixpoint mask_mobs (i : nat) (ks : list cmask) (xs : list mext) (fired : list nat) (root : json) : list mobs :=
  match ks with
  | [] => []
  | k :: r =>
      let '(x, xr) := match xs with x :: xr => (x, xr) | [] => (mext0, []) end in
      (if k_metric k && negb (x_clash x) && (0 <? count_fired fired i)
       then Some (count_fired fired i, map (label_val root) (x_labels x)) else None)
      :: mask_mobs (S i) r xr fired root
  end.

(* the plugin counter first, then the masks in order; root = the event as Do leaves it *)
Definition event_metrics (ks : list cmask) (cfg : config) (plabels : list bytes) (xs : list mext)
           (root : json) (fired : list nat) : list mobs :=
  (if negb (is_nil fired) && c_metric cfg then Some (1, map (label_val root) plabels) else None)
  :: mask_mobs 0 ks xs fired root.

Fixpoint do_events_ext (inh : bool) (ks : list cmask) (fl : fields) (oracle : nat -> bytes -> res (list (list Z)))
         (cfg : config) (plabels : list bytes) (xs : list mext) (evs : list (json * list bool))
  : res (list json * list (list mobs)) :=
  match evs with
  | [] => Ok ([], [])
  | (e, bits) :: r =>
      '(e', fired) <- do_event inh (gate_all ks bits) fl oracle cfg e ;;
      '(r', ms) <- do_events_ext inh ks fl oracle cfg plabels xs r ;;
      Ok (e' :: r', event_metrics ks cfg plabels xs e' fired :: ms)
  end.

Fixpoint labels_refused (ks : list cmask) (xs : list mext) : bool :=
  match ks with
  | [] => false
  | k :: r =>
      let '(x, xr) := match xs with x :: xr => (x, xr) | [] => (mext0, []) end in
      (k_metric k && negb (x_clash x) && bad_labels (x_labels x)) || labels_refused r xr
  end.

Definition run_plugin_ext (inh : bool) (cfg : config) (oracle : nat -> bytes -> res (list (list Z)))
           (plabels : list bytes) (xs : list mext) (evs : list (json * list bool))
  : res (list json * list (list mobs)) :=
  ks <- compile_masks (c_masks cfg) ;;
  fl <- gather_fields cfg ;;
  if (c_metric cfg && bad_labels plabels) || labels_refused ks xs then Err 1
  else do_events_ext inh ks fl oracle cfg plabels xs evs.

(* ---- specification vocabulary (used by the theorems; not by the runner) ------------------------------ *)
(* a value cut into kept and hidden segments *)
Inductive seg := Keep (b : bytes) | Hide (b : bytes).
Definition seg_bytes (s : seg) : bytes := match s with Keep b => b | Hide b => b end.
Definition orig (segs : list seg) : bytes := concat (map seg_bytes segs).
Definition masked (mode : mmode) (segs : list seg) : bytes :=
  concat (map (fun s => match s with Keep b => b | Hide b => repl mode b end) segs).
(* the byte ranges [from, to) of the hidden segments, the first segment starting at pos *)
Fixpoint hidden_ranges (pos : Z) (segs : list seg) : list sec :=
  match segs with
  | [] => []
  | Keep b :: r => hidden_ranges (pos + len b) r
  | Hide b :: r => (pos, pos + len b) :: hidden_ranges (pos + len b) r
  end.
(* r is the range of a selected group that took part in one of the matches *)
Definition selected (idxs : list (list Z)) (groups : list Z) (r : sec) : Prop :=
  exists index g, In index idxs /\ In g groups /\
    idx index (g * 2) = Ok (fst r) /\ idx index (g * 2 + 1) = Ok (snd r) /\ 0 <= fst r /\ 0 <= snd r.
Definition covers (c r : sec) : Prop := fst c <= fst r /\ snd r <= snd c.
Definition groups_ok (nsub : Z) (groups : list Z) : Prop := forall g, In g groups -> 0 <= g <= nsub.

(* what a match rule means: some value is a prefix / infix / suffix of the (lower-cased) data *)
Definition affix_test (md : rmode) (data v : bytes) : bool :=
  (len v <=? len data) &&
  match md with
  | RPrefix => bytes_eqb (firstn (length v) data) v
  | RSuffix => bytes_eqb (skipn (length data - length v) data) v
  | RContains => contains data v
  end.
Definition rule_spec (r : rule) (raw : bytes) : bool :=
  let vs := if r_ci r then map to_lower (r_values r) else r_values r in
  let data := if r_ci r then to_lower raw else raw in
  xorb (r_invert r) (existsb (affix_test (r_mode r) data) vs).

(* same document skeleton: same keys in the same order, same array lengths, null / bool untouched;
   a string or number is itself or has become a string *)
Definition leaf_like (v : json) : Prop := match v with JStr _ | JNum _ => True | _ => False end.
Inductive same_shape : json -> json -> Prop :=
| SS_refl v : same_shape v v
| SS_leaf v s : leaf_like v -> same_shape v (JStr s)
| SS_arr l l' : Forall2 same_shape l l' -> same_shape (JArr l) (JArr l')
| SS_obj fs fs' : Forall2 (fun a b => fst a = fst b /\ same_shape (snd a) (snd b)) fs fs' ->
                  same_shape (JObj fs) (JObj fs').

(* the root object after Do: the fields of the event keep their position and key; a value keeps its
   skeleton unless its key is a configured mark field (then it is a string); new fields are marks *)
Definition root_frame (names : list bytes) (fs fs' : list (bytes * json)) : Prop :=
  exists extra,
    map fst fs' = map fst fs ++ extra /\ (forall k, In k extra -> In k names) /\
    forall i k v v', nth_error fs i = Some (k, v) -> nth_error fs' i = Some (k, v') ->
      same_shape v v' \/ (In k names /\ exists s, v' = JStr s).
Definition event_frame (names : list bytes) (root root' : json) : Prop :=
  match root with
  | JObj fs => exists fs', root' = JObj fs' /\ root_frame names fs fs'
  | _ => same_shape root root'
  end.
Definition mark_names (ks : list cmask) (cfg : config) : list bytes :=
  filter (fun n => negb (is_nil n)) (c_afield cfg :: map k_afield ks).

(* field lists: the node the traversal carries at JSON path p below node n *)
Fixpoint fm_at (inh : bool) (n : fmnode) (p : path) : fmnode :=
  match p with
  | [] => n
  | k :: r => if fm_has_children n then fm_at inh (fm_child inh n k) r else n
  end.
Fixpoint is_prefix (q p : path) : Prop :=
  match q, p with
  | [], _ => True
  | a :: q', b :: p' => a = b /\ is_prefix q' p'
  | _ :: _, [] => False
  end.
Definition strict_prefix (q p : path) : Prop := is_prefix q p /\ (length q < length p)%nat.
(* no entry of a list lies strictly above an entry of the same or another list *)
Definition prefix_free (n : fmnode) : Prop :=
  forall e1 e2, In e1 n -> In e2 n -> ~ strict_prefix (fst e1) (fst e2).
Definition all_entries (cfg : config) : fmnode :=
  mask_entries 0 (c_masks cfg) ++ map (fun p => (p, TGIgn)) (c_ign cfg) ++ map (fun p => (p, TGProc)) (c_proc cfg).

(* ---- exchange glue --------------------------------------------------------------------------------
   which = 1: case = (global masks events table)
     global = (#applied_field #applied_value metric (path ...) (path ...))        path = (#key ...)
     mask   = (has_re nsub (group ...) mode (ruleset ...) #afield #avalue metric (path ...) (path ...) #re_source)
     mode   = (0 max_count) | (1 #word) | (2)
     ruleset = (is_or (rule ...))   rule = ((#value ...) mode ci invert)   mode 0 prefix 1 contains 2 suffix
     table  = ((mask_index #input (index ...)) ...)       index = (z ...)  as FindAllSubmatchIndex returns it
   which = 0: case = (mask #value (index ...))  — one mask, the event is the JSON string #value
   obs = (0 (event ...) plugin_counter (mask_counter ...)) | (1 1) | (2)                                 *)
Definition mode_of_sx (s : sx) : option mmode :=
  match s with
  | SL [SZ 0; SZ mc] => Some (MMask mc)
  | SL [SZ 1; SB w] => Some (MReplace w)
  | SL [SZ 2] => Some MCut
  | _ => None
  end.
Definition rmode_of_sx (s : sx) : option rmode :=
  match s with SZ 0 => Some RPrefix | SZ 1 => Some RContains | SZ 2 => Some RSuffix | _ => None end.
Definition rule_of_sx (s : sx) : option rule :=
  match s with
  | SL [vs; md; ci; inv] =>
      match as_list as_B vs, rmode_of_sx md, as_bool ci, as_bool inv with
      | Some vs, Some md, Some ci, Some inv => Some {| r_values := vs; r_mode := md; r_ci := ci; r_invert := inv |}
      | _, _, _, _ => None
      end
  | _ => None
  end.
Definition ruleset_of_sx (s : sx) : option ruleset :=
  match s with
  | SL [o; rs] => match as_bool o, as_list rule_of_sx rs with
                  | Some o, Some rs => Some {| rs_or := o; rs_rules := rs |}
                  | _, _ => None
                  end
  | _ => None
  end.
Definition paths_of_sx (s : sx) : option (list path) := as_list (as_list as_B) s.

Definition mask_of_sx (s : sx) : option mask :=
  match s with
  | SL [re; nsub; gs; md; rss; af; av; mt; ig; pr; SB _] =>
      match as_bool re, as_Z nsub, as_list as_Z gs, mode_of_sx md, as_list ruleset_of_sx rss with
      | Some re, Some nsub, Some gs, Some md, Some rss =>
          match as_B af, as_B av, as_bool mt, paths_of_sx ig, paths_of_sx pr with
          | Some af, Some av, Some mt, Some ig, Some pr =>
              Some {| m_re := re; m_nsub := nsub; m_groups := gs; m_mode := md; m_rules := rss;
                      m_afield := af; m_avalue := av; m_metric := mt; m_ign := ig; m_proc := pr |}
          | _, _, _, _, _ => None
          end
      | _, _, _, _, _ => None
      end
  | _ => None
  end.

Definition table := list (nat * bytes * list (list Z)).
Definition entry_of_sx (s : sx) : option (nat * bytes * list (list Z)) :=
  match s with
  | SL [i; SB b; ix] => match as_nat i, as_list (as_list as_Z) ix with
                        | Some i, Some ix => Some (i, b, ix)
                        | _, _ => None
                        end
  | _ => None
  end.
Fixpoint lookup (t : table) (i : nat) (b : bytes) : res (list (list Z)) :=
  match t with
  | [] => Err 9
  | (j, c, ix) :: r => if Nat.eqb i j && bytes_eqb b c then Ok ix else lookup r i b
  end.

Definition config_of_sx (g ms : sx) : option config :=
  match g, as_list mask_of_sx ms with
  | SL [SB af; SB av; mt; ig; pr], Some ms =>
      match as_bool mt, paths_of_sx ig, paths_of_sx pr with
      | Some mt, Some ig, Some pr =>
          Some {| c_masks := ms; c_afield := af; c_avalue := av; c_metric := mt; c_ign := ig; c_proc := pr |}
      | _, _, _ => None
      end
  | _, _ => None
  end.

Definition sx_of_out (r : res (list json * Z * list Z)) : sx :=
  match r with
  | Ok (evs, n, cs) => SL [SZ 0; SL (map sx_of_json evs); SZ n; SL (map SZ cs)]
  | Err e => SL [SZ 1; SZ 1]
  | Panic _ => SL [SZ 2]
  end.

Definition is_oracle_err {A} (r : res A) : bool :=
  match r with Err 8 => true | Err 9 => true | _ => false end.

(* verdict: the predicate of the property is "the events and counters are what the README semantics
   (inh = true) prescribe"; the code's own field tree (inh = false) is the operational model *)
Definition c17_verdict (cfg : config) (t : table) (evs : list json) (obs : sx) : verdict :=
  let code := run_plugin false cfg (lookup t) evs in
  let spec := run_plugin true cfg (lookup t) evs in
  if is_oracle_err code || is_oracle_err spec then BadCase
  else
    let pred := sx_eqb (sx_of_out spec) obs in
    if sx_eqb (sx_of_out code) obs
    then (if pred then Agree else Violates (sx_of_out spec))
    else (if pred then Differ (sx_of_out code) else Violates (sx_of_out spec)).

(* which = 2: case = (global masks events table ext)
     ext = (route (#plugin_label ...) (((#mask_label ...) clash do_if) ...) ((use ...) ...))
       route and do_if tell the harness how to build the real plugin (literal configuration or the JSON text
       through the plugin registry's factory + cfg.DecodeConfig; the do_if tree) and are not read here;
       one list of use bits per event, one bit per mask
   obs = (0 (event ...) ((counter ...) ...)) | (1 1) | (2)    one list per event: the plugin counter, then the
       masks';  counter = () untouched | (delta #label_value ...)                                          *)
Definition mext_of_sx (s : sx) : option mext :=
  match s with
  | SL [ls; cl; _] => match as_list as_B ls, as_bool cl with
                      | Some ls, Some cl => Some {| x_labels := ls; x_clash := cl |}
                      | _, _ => None
                      end
  | _ => None
  end.
Definition sx_of_mobs (m : mobs) : sx :=
  match m with None => SL [] | Some (d, vs) => SL (SZ d :: map SB vs) end.
Definition sx_of_out_ext (r : res (list json * list (list mobs))) : sx :=
  match r with
  | Ok (evs, ms) => SL [SZ 0; SL (map sx_of_json evs); SL (map (fun l => SL (map sx_of_mobs l)) ms)]
  | Err e => SL [SZ 1; SZ 1]
  | Panic _ => SL [SZ 2]
  end.
Fixpoint zip_bits (evs : list json) (bits : list (list bool)) : option (list (json * list bool)) :=
  match evs, bits with
  | [], [] => Some []
  | e :: r, b :: br => match zip_bits r br with Some l => Some ((e, b) :: l) | None => None end
  | _, _ => None
  end.

Definition c17_verdict_ext (cfg : config) (t : table) (pl : list bytes) (xs : list mext)
           (evs : list (json * list bool)) (obs : sx) : verdict :=
  let code := run_plugin_ext false cfg (lookup t) pl xs evs in
  let spec := run_plugin_ext true cfg (lookup t) pl xs evs in
  if is_oracle_err code || is_oracle_err spec then BadCase
  else
    let pred := sx_eqb (sx_of_out_ext spec) obs in
    if sx_eqb (sx_of_out_ext code) obs
    then (if pred then Agree else Violates (sx_of_out_ext spec))
    else (if pred then Differ (sx_of_out_ext code) else Violates (sx_of_out_ext spec)).

Definition c17_entry (which : Z) (case obs : sx) : verdict :=
  match which with
  | 0 =>
      match case with
      | SL [m; SB v; ix] =>
          match mask_of_sx m, as_list (as_list as_Z) ix with
          | Some m, Some ix =>
              c17_verdict {| c_masks := [m]; c_afield := []; c_avalue := []; c_metric := true; c_ign := []; c_proc := [] |}
                          [(0%nat, v, ix)] [JStr v] obs
          | _, _ => BadCase
          end
      | _ => BadCase
      end
  | 2 =>
      match case with
      | SL [g; ms; evs; tb; SL [_; pl; xs; bits]] =>
          match config_of_sx g ms, as_list json_of_sx evs, as_list entry_of_sx tb with
          | Some cfg, Some evs, Some t =>
              match as_list as_B pl, as_list mext_of_sx xs, as_list (as_list as_bool) bits with
              | Some pl, Some xs, Some bits =>
                  match zip_bits evs bits with
                  | Some evb =>
                      if (length xs =? length (c_masks cfg))%nat &&
                         forallb (fun b => (length b =? length (c_masks cfg))%nat) bits
                      then c17_verdict_ext cfg t pl xs evb obs else BadCase
                  | None => BadCase
                  end
              | _, _, _ => BadCase
              end
          | _, _, _ => BadCase
          end
      | _ => BadCase
      end
  | _ =>
      match case with
      | SL [g; ms; evs; tb] =>
          match config_of_sx g ms, as_list json_of_sx evs, as_list entry_of_sx tb with
          | Some cfg, Some evs, Some t => c17_verdict cfg t evs obs
          | _, _, _ => BadCase
          end
      | _ => BadCase
      end
  end.
