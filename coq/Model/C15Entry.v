(* C15 entry point of the model runner (extracted; evaluated by vm_compute in the cross-check):
   0 = join, 1 = join_template (same state machine, one oracle bit pair per template),
   2 = k8s MultilineAction, 3 = k8s, flush-on-time-out clause (byte conservation);
   4, 5 = which 2 run by the harness with allowed_pod_labels / allowed_node_labels set (label fields
   are not modelled: same sub-model, the harness checks the label fields itself);
   7, 8 = which 2 with the pipeline setting source_name_meta_field set (7: a field of the event, 8: an absent one; the
   label of the max-event-size metric is checked by the harness);
   6 = the real join / join_template plugin inside a real pipeline (Model/C15Pipe.v);
   9 = k8s, sequences with time-outs judged by k_spec_t (after a time-out the action starts afresh). *)
From Verif Require Import Base.Sx Base.GoSem Model.Join Model.K8sMultiline Model.C15Pipe.

Definition c15_entry (which : Z) (case obs : sx) : verdict :=
  match which with
  | 0 | 1 => c15_join_run case obs
  | 2 | 4 | 5 | 7 | 8 => c15_k8s_run case obs
  | 6 => c15_pj_run case obs
  | 9 => c15_k8s_fresh_run case obs
  | 3 => c15_k8s_flush_run case obs
  | _ => BadCase
  end.
