(* C15 entry point of the model runner (extracted; evaluated by vm_compute in the cross-check):
   0 = join, 1 = join_template (same state machine, one oracle bit pair per template),
   2 = k8s MultilineAction, 3 = k8s, flush-on-time-out clause (byte conservation);
   4, 5 = which 2 run by the harness with allowed_pod_labels / allowed_node_labels set (label fields
   are not modelled: same sub-model, the harness checks the label fields itself). *)
From Verif Require Import Base.Sx Base.GoSem Model.Join Model.K8sMultiline.

Definition c15_entry (which : Z) (case obs : sx) : verdict :=
  match which with
  | 0 | 1 => c15_join_run case obs
  | 2 | 4 | 5 => c15_k8s_run case obs
  | 3 => c15_k8s_flush_run case obs
  | _ => BadCase
  end.
