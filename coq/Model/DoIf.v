(* Model of pipeline/doif: field_op.go (fieldOpNode.Check with its short-cuts), logical_op.go,
   len_cmp_op.go (as repaired: commas of an empty container), ts_cmp_op.go, check_type_op.go,
   event_data.go, and the constructors' acceptance conditions (ctor.go / New*Node).
   [check] follows the code; [eval] is the naive reading of the documentation.
   No proofs here (Proofs/DoIf.v). *)
From Verif Require Import Base.Sx Base.GoSem Base.Json.

(* ---- small byte-string helpers ---------------------------------------------------------- *)
Definition bytes_of (d : option bytes) : bytes := match d with Some b => b | None => [] end.
Definition vlen (d : option bytes) : Z := len (bytes_of d).            (* len(nil) = 0 *)
Definition lastn {A} (k : nat) (l : list A) : list A := skipn (length l - k) l.   (* s[len(s)-k:] *)

Definition lower_byte (c : byte) : byte :=
  if (65 <=? c)%N && (c <=? 90)%N then (c + 32)%N else c.
Definition ascii_lower (b : bytes) : bytes := map lower_byte b.        (* bytes.ToLower on ASCII *)
Definition is_ascii (b : bytes) : bool := forallb (fun c => (c <? 128)%N) b.

Definition opt_eqb (a b : option bytes) : bool :=
  match a, b with
  | None, None => true
  | Some x, Some y => bytes_eqb x y
  | _, _ => false
  end.

(* for _, v := range l { if f(v) { return true } }; return false *)
Fixpoint any_of {A} (f : A -> bool) (l : list A) : bool :=
  match l with [] => false | x :: r => if f x then true else any_of f r end.

(* ---- strconv.Atoi on the path element of an array step (short decimal strings) ---------- *)
Definition digit (c : byte) : option Z :=
  if (48 <=? c)%N && (c <=? 57)%N then Some (Z.of_N c - 48) else None.
Fixpoint digits (l : bytes) (acc : Z) : option Z :=
  match l with
  | [] => Some acc
  | c :: r => match digit c with Some d => digits r (acc * 10 + d) | None => None end
  end.
Definition atoi (s : bytes) : option Z :=
  match s with
  | [] => None
  | c :: r =>
      if (c =? 43)%N then match r with [] => None | _ :: _ => digits r 0 end
      else if (c =? 45)%N then
        match r with [] => None | _ :: _ => match digits r 0 with Some z => Some (- z) | None => None end end
      else digits s 0
  end.

(* ---- insane-json: Dig (object keys; array steps by decimal index), AsString ------------- *)
Fixpoint jdig (j : json) (path : list bytes) : option json :=
  match path with
  | [] => Some j
  | k :: rest =>
      match j with
      | JObj fs => match field_get fs k with Some v => jdig v rest | None => None end
      | JArr l =>
          match atoi k with
          | Some i =>
              if (0 <=? i) && (i <? len l)
              then match nth_error l (Z.to_nat i) with Some v => jdig v rest | None => None end
              else None
          | None => None
          end
      | _ => None
      end
  end.

Definition s_null : bytes := [110; 117; 108; 108]%N.
Definition s_true : bytes := [116; 114; 117; 101]%N.
Definition s_false : bytes := [102; 97; 108; 115; 101]%N.

Definition as_string (j : json) : bytes :=
  match j with
  | JNull => s_null
  | JBool true => s_true
  | JBool false => s_false
  | JNum r => r
  | JStr s => s
  | JArr _ | JObj _ => []
  end.

(* eventData.Get: nil for absent and null, one zero byte for arrays and objects *)
Definition get (e : json) (path : list bytes) : option bytes :=
  match jdig e path with
  | None => None
  | Some JNull => None
  | Some (JArr _) | Some (JObj _) => Some [0%N]
  | Some v => Some (as_string v)
  end.

(* what the documentation distinguishes *)
Inductive fdata := FAbsent | FBytes (b : bytes) | FContainer.
Definition fget (e : json) (path : list bytes) : fdata :=
  match jdig e path with
  | None => FAbsent
  | Some JNull => FAbsent
  | Some (JArr _) | Some (JObj _) => FContainer
  | Some v => FBytes (as_string v)
  end.

(* ---- the rule tree ---------------------------------------------------------------------- *)
Inductive fop := FEqual | FContains | FContainsAny | FPrefix | FSuffix | FRegex.
Inductive cmpop := CLt | CLe | CGt | CGe | CEq | CNe.
Inductive lenop := LByte | LArray | LInt.
Inductive jtype := TObj | TArr | TNum | TStr | TNull | TNil | TBad.
Inductive tsmode := TsConst (v : Z) | TsNow (interval : Z).

Inductive node :=
| NField (op : fop) (path : list bytes) (cs : bool) (v0 : option bytes) (vr : list (option bytes))
| NLen (op : lenop) (path : list bytes) (c : cmpop) (v : Z)
| NTs (path : list bytes) (format : bytes) (c : cmpop) (mode : tsmode) (shift : Z)
| NType (path : list bytes) (types : list jtype)
| NAnd (ops : list node)
| NOr (ops : list node)
| NNot (x : node).

Definition compare (c : cmpop) (l r : Z) : bool :=
  match c with
  | CLt => l <? r | CLe => l <=? r | CGt => l >? r | CGe => l >=? r
  | CEq => l =? r | CNe => negb (l =? r)
  end.

Definition min_len (v0 : option bytes) (vr : list (option bytes)) : Z :=
  fold_left (fun m x => Z.min m (vlen x)) vr (vlen v0).
Definition max_len (v0 : option bytes) (vr : list (option bytes)) : Z :=
  fold_left (fun m x => Z.max m (vlen x)) vr (vlen v0).

Definition jtype_eqb (a b : jtype) : bool :=
  match a, b with
  | TObj, TObj | TArr, TArr | TNum, TNum | TStr, TStr | TNull, TNull | TNil, TNil | TBad, TBad => true
  | _, _ => false
  end.
Definition type_is (t : jtype) (v : option json) : bool :=
  match t, v with
  | TObj, Some (JObj _) => true
  | TArr, Some (JArr _) => true
  | TNum, Some (JNum _) => true
  | TStr, Some (JStr _) => true
  | TNull, Some JNull => true
  | TNil, None => true
  | _, _ => false
  end.
(* usedTypesMap: a type already seen adds no second check function *)
Fixpoint dedup (seen l : list jtype) : list jtype :=
  match l with
  | [] => []
  | t :: r => if existsb (jtype_eqb t) seen then dedup seen r else t :: dedup (t :: seen) r
  end.

(* getNodeBytesSize (repaired: an empty array/object has no commas; the original subtracted 1) *)
Definition commas (n : Z) : Z := if n =? 0 then 0 else n - 1.
Fixpoint byte_size (j : json) : Z :=
  match j with
  | JArr l =>
      (fix go (l : list json) : Z := match l with [] => 0 | x :: r => byte_size x + go r end) l
      + commas (len l) + 2
  | JObj fs =>
      (fix go (fs : list (bytes * json)) : Z :=
         match fs with [] => 0 | (k, v) :: r => len k + 2 + 1 + byte_size v + go r end) fs
      + commas (len fs) + 2
  | JStr s => len s + 2
  | JNull | JBool _ | JNum _ => len (as_string j)
  end.

(* the compact JSON text of a value whose strings and keys need no escaping *)
Definition quote (s : bytes) : bytes := 34%N :: s ++ [34%N].
Fixpoint join_comma (l : list bytes) : bytes :=
  match l with
  | [] => []
  | [x] => x
  | x :: r => x ++ 44%N :: join_comma r
  end.
Fixpoint encode (j : json) : bytes :=
  match j with
  | JArr l =>
      91%N :: join_comma ((fix go (l : list json) : list bytes :=
                             match l with [] => [] | x :: r => encode x :: go r end) l) ++ [93%N]
  | JObj fs =>
      123%N :: join_comma ((fix go (fs : list (bytes * json)) : list bytes :=
                              match fs with
                              | [] => []
                              | (k, v) :: r => (quote k ++ 58%N :: encode v) :: go r
                              end) fs) ++ [125%N]
  | JStr s => quote s
  | JNull | JBool _ | JNum _ => as_string j
  end.

(* ---- the second caller of a checker: antispam rules (pipeline/antispam/rules.go antispamData.Get,
        antispammer.go IsSpam). The data is not an event tree: the raw bytes of the record, the source
        name and the meta map; a path selects one of them:  event | source_name | meta.<key>. ------- *)
Record asdata := { as_event : bytes; as_source : bytes; as_meta : list (bytes * bytes) }.
Definition b_event : bytes := [101; 118; 101; 110; 116]%N.
Definition b_source_name : bytes := [115; 111; 117; 114; 99; 101; 95; 110; 97; 109; 101]%N.
Definition b_meta : bytes := [109; 101; 116; 97]%N.
Fixpoint meta_get (m : list (bytes * bytes)) (k : bytes) : option bytes :=
  match m with
  | [] => None
  | (k', v) :: r => if bytes_eqb k' k then Some v else meta_get r k
  end.
Definition as_get (d : asdata) (path : list bytes) : option bytes :=
  match path with
  | [] => None
  | k :: rest =>
      if bytes_eqb k b_event then Some (as_event d)                  (* whatever follows in the path *)
      else if bytes_eqb k b_source_name then Some (as_source d)
      else if bytes_eqb k b_meta then
        match rest with [k2] => meta_get (as_meta d) k2 | _ => None end
      else None
  end.
Definition as_fget (d : asdata) (path : list bytes) : fdata :=
  match as_get d path with None => FAbsent | Some b => FBytes b end.

Section Oracles.
  Variable lower : bytes -> bytes.                       (* bytes.ToLower *)
  Variable re_match : bytes -> bytes -> bool.            (* regexp.MustCompile(p).Match(data) *)
  Variable go_contains_any : bytes -> bytes -> bool.     (* bytes.ContainsAny(data, chars) *)
  Variable parse_time : bytes -> bytes -> option Z.      (* xtime.ParseTime(format, s).UnixNano() *)
  Variable as_int : bytes -> Z.                          (* insane-json AsInt of a number/string text *)

  Definition low (cs : bool) (x : bytes) : bytes := if cs then x else lower x.
  Definition cval (cs : bool) (v : option bytes) : option bytes :=
    match v with Some b => Some (low cs b) | None => None end.

  (* fieldOpNode.Check *)
  Definition field_check (op : fop) (cs : bool) (v0 : option bytes) (vr : list (option bytes))
             (d : option bytes) : bool :=
    let vals := v0 :: vr in
    let cvals := map (cval cs) vals in
    let fast_exit :=
      match op with
      | FRegex | FContainsAny => false
      | _ => vlen d <? min_len v0 vr
      end in
    if fast_exit then false else
    match op with
    | FEqual =>
        match filter (fun c => vlen c =? vlen d) cvals with         (* valuesBySize[len(eventData)] *)
        | [] => false
        | c :: bucket =>
            let d' := if cs then d else match d with Some x => Some (lower x) | None => None end in
            any_of (fun c => opt_eqb d' c) (c :: bucket)
        end
    | FContains =>
        let x := low cs (bytes_of d) in
        any_of (fun c => contains x (bytes_of c)) cvals
    | FContainsAny =>
        let x := low cs (bytes_of d) in
        go_contains_any x (bytes_of (cval cs v0))
    | FPrefix =>
        let x := bytes_of d in
        let m := max_len v0 vr in
        let x1 := if len x >? m then firstn (Z.to_nat m) x else x in
        let x2 := low cs x1 in
        any_of (fun c => has_prefix x2 (bytes_of c)) cvals
    | FSuffix =>
        let x := bytes_of d in
        let m := max_len v0 vr in
        let x1 := if len x >? m then lastn (Z.to_nat m) x else x in
        let x2 := low cs x1 in
        any_of (fun c => has_suffix x2 (bytes_of c)) cvals
    | FRegex =>
        any_of (fun p => re_match (bytes_of p) (bytes_of d)) vals
    end.

  (* the documented meaning of a field operation *)
  Definition field_eval (op : fop) (cs : bool) (vals : list (option bytes)) (d : fdata) : bool :=
    match d with
    | FContainer => false                 (* "Array and object values are considered as not matched" *)
    | _ =>
        let x := match d with FBytes b => b | _ => [] end in
        let f := low cs in
        match op with
        | FEqual =>
            existsb (fun v => match d, v with
                              | FAbsent, None => true            (* null / absent equals the null value only *)
                              | FBytes b, Some y => bytes_eqb (f b) (f y)
                              | _, _ => false
                              end) vals
        | FContains => existsb (fun v => contains (f x) (f (bytes_of v))) vals
        | FContainsAny => existsb (fun v => go_contains_any (f x) (f (bytes_of v))) vals
        | FPrefix => existsb (fun v => has_prefix (f x) (f (bytes_of v))) vals
        | FSuffix => existsb (fun v => has_suffix (f x) (f (bytes_of v))) vals
        | FRegex => existsb (fun v => re_match (bytes_of v) x) vals
        end
    end.

  (* int_val_cmp: AsInt, with 0 accepted only for the text "0" *)
  Definition int_value (v : json) : option Z :=
    match v with
    | JNum t | JStr t =>
        let z := as_int t in
        if (z =? 0) && negb (bytes_eqb t [48%N]) then None else Some z
    | _ => None
    end.

  Definition len_value (size : json -> Z) (op : lenop) (path : list bytes) (e : json) : option Z :=
    match op with
    | LByte =>
        match jdig e path with
        | None => None
        | Some (JArr l) => Some (size (JArr l))
        | Some (JObj fs) => Some (size (JObj fs))
        | Some v => Some (len (as_string v))
        end
    | LArray =>
        match jdig e path with
        | Some (JArr l) => Some (len l)
        | _ => None
        end
    | LInt =>
        match jdig e path with
        | Some v => int_value v
        | None => None
        end
    end.

  Definition len_check (size : json -> Z) (op : lenop) (path : list bytes) (c : cmpop) (v : Z) (e : json) : bool :=
    match len_value size op path e with
    | Some x => compare c x v
    | None => false
    end.

  Definition ts_check (path : list bytes) (format : bytes) (c : cmpop) (mode : tsmode) (shift : Z)
             (e : json) (now : Z) : bool :=
    match jdig e path with
    | Some (JStr s) =>
        match parse_time format s with
        | Some lhs =>
            let rhs := match mode with TsNow interval => now + interval | TsConst v => v end in
            compare c lhs (rhs + shift)
        | None => false
        end
    | _ => false
    end.

  (* Check: the loops of logicalNode.Check return on the first decisive operand *)
  Fixpoint check (n : node) (e : json) (now : Z) {struct n} : bool :=
    match n with
    | NField op path cs v0 vr => field_check op cs v0 vr (get e path)
    | NLen op path c v => len_check byte_size op path c v e
    | NTs path format c mode shift => ts_check path format c mode shift e now
    | NType path types => any_of (fun t => type_is t (jdig e path)) (dedup [] types)
    | NAnd ops =>
        (fix all (l : list node) : bool :=
           match l with [] => true | x :: r => if check x e now then all r else false end) ops
    | NOr ops =>
        (fix any (l : list node) : bool :=
           match l with [] => false | x :: r => if check x e now then true else any r end) ops
    | NNot x => negb (check x e now)
    end.

  (* eval: every operand, every value, no buckets, no truncation, the real encoded length *)
  Fixpoint eval (n : node) (e : json) (now : Z) {struct n} : bool :=
    match n with
    | NField op path cs v0 vr => field_eval op cs (v0 :: vr) (fget e path)
    | NLen op path c v => len_check (fun j => len (encode j)) op path c v e
    | NTs path format c mode shift => ts_check path format c mode shift e now
    | NType path types => existsb (fun t => type_is t (jdig e path)) types
    | NAnd ops => forallb (fun x => eval x e now) ops
    | NOr ops => existsb (fun x => eval x e now) ops
    | NNot x => negb (eval x e now)
    end.

  (* the decisions of one checker over a sequence of (event, clock) pairs: the checker has no state *)
  Definition decisions (n : node) (evs : list (json * Z)) : list bool :=
    map (fun en => check n (fst en) (snd en)) evs.

  (* ---- side conditions of check = eval, as executable predicates ------------------------ *)
  (* what the proof needs of [lower] on the strings of ONE field node and ONE event:
     it keeps the byte length of the field data and of every value, and (prefix / suffix)
     commutes with the truncation to maxValLen bytes. Holds for every ASCII lower-casing. *)
  Definition fhyp (op : fop) (cs : bool) (v0 : option bytes) (vr : list (option bytes)) (x : bytes) : bool :=
    let f := low cs in
    let m := Z.to_nat (max_len v0 vr) in
    (len (f x) =? len x)
    && forallb (fun v => len (f (bytes_of v)) =? vlen v) (v0 :: vr)
    && match op with
       | FPrefix => bytes_eqb (f (firstn m x)) (firstn m (f x))
       | FSuffix => bytes_eqb (f (lastn m x)) (lastn m (f x))
       | _ => true
       end.

  Fixpoint lower_hyp (n : node) (e : json) {struct n} : bool :=
    match n with
    | NField op path cs v0 vr =>
        match fget e path with
        | FContainer => true
        | FAbsent => fhyp op cs v0 vr []
        | FBytes b => fhyp op cs v0 vr b
        end
    | NAnd ops | NOr ops => forallb (fun x => lower_hyp x e) ops
    | NNot x => lower_hyp x e
    | _ => true
    end.

  (* no field operation whose field is an array/object accepts the one-byte placeholder
     eventData.Get substitutes for it *)
  Fixpoint cont_ok (n : node) (e : json) {struct n} : bool :=
    match n with
    | NField op path cs v0 vr =>
        match fget e path with
        | FContainer => negb (field_check op cs v0 vr (Some [0%N]))
        | _ => true
        end
    | NAnd ops | NOr ops => forallb (fun x => cont_ok x e) ops
    | NNot x => cont_ok x e
    | _ => true
    end.

  (* ---- a checker applied to antispam data: only field and logical nodes are supported
          (antispam/README.md); the type assertion data.(eventData) of the other leaves fails ---- *)
  Fixpoint check_as (n : node) (d : asdata) {struct n} : bool :=
    match n with
    | NField op path cs v0 vr => field_check op cs v0 vr (as_get d path)
    | NLen _ _ _ _ | NTs _ _ _ _ _ | NType _ _ => false
    | NAnd ops =>
        (fix all (l : list node) : bool :=
           match l with [] => true | x :: r => if check_as x d then all r else false end) ops
    | NOr ops =>
        (fix any (l : list node) : bool :=
           match l with [] => false | x :: r => if check_as x d then true else any r end) ops
    | NNot x => negb (check_as x d)
    end.

  Fixpoint eval_as (n : node) (d : asdata) {struct n} : bool :=
    match n with
    | NField op path cs v0 vr => field_eval op cs (v0 :: vr) (as_fget d path)
    | NLen _ _ _ _ | NTs _ _ _ _ _ | NType _ _ => false
    | NAnd ops => forallb (fun x => eval_as x d) ops
    | NOr ops => existsb (fun x => eval_as x d) ops
    | NNot x => negb (eval_as x d)
    end.

  Fixpoint lower_hyp_as (n : node) (d : asdata) {struct n} : bool :=
    match n with
    | NField op path cs v0 vr => fhyp op cs v0 vr (bytes_of (as_get d path))
    | NAnd ops | NOr ops => forallb (fun x => lower_hyp_as x d) ops
    | NNot x => lower_hyp_as x d
    | _ => true
    end.

  (* ---- what the constructors accept (NewFieldOpNode, NewLenCmpOpNode, NewCheckTypeOpNode,
          NewLogicalNode); [re_ok p]: regexp.Compile(p) succeeds ----------------------------- *)
  Variable re_ok : bytes -> bool.
  Fixpoint wfb (n : node) : bool :=
    match n with
    | NField op _ _ v0 vr =>
        match op with
        | FContainsAny =>
            match vr, v0 with [], Some (_ :: _) => true | _, _ => false end
        | FRegex => forallb (fun p => re_ok (bytes_of p)) (v0 :: vr)
        | _ => true
        end
    | NLen _ _ _ v => 0 <=? v
    | NTs _ _ _ _ _ => true
    | NType _ types =>
        match types with [] => false | _ :: _ => negb (existsb (jtype_eqb TBad) types) end
    | NAnd ops | NOr ops =>
        match ops with [] => false | _ :: _ => forallb wfb ops end
    | NNot x => wfb x
    end.
End Oracles.

(* ======================================================================================== *)
(* Exchange glue.                                                                            *)
(*   node:  (0 op (#key ...) cs (val ...))        val = 0 (nil) | #bytes                      *)
(*          (1 lenop (#key ...) cmp value)                                                    *)
(*          (2 (#key ...) #format cmp mode a shift)   mode 0: a = constant ns; 1: a = interval *)
(*          (3 (#key ...) (#typename ...))                                                    *)
(*          (4 node ...) and | (5 node ...) or | (6 node ...) not                             *)
(*          (7 code)  a malformed node map (always refused)                                    *)
(*          ts mode 2: value "file_d_start" (a = 0)                                            *)
(*   tables: (lower regexp compile contains-any time int)                                     *)
(* ======================================================================================== *)
Inductive dec := DBad | DReject | DNode (n : node).

Definition fop_of (z : Z) : option fop :=
  match z with
  | 0 => Some FEqual | 1 => Some FContains | 2 => Some FContainsAny
  | 3 => Some FPrefix | 4 => Some FSuffix | 5 => Some FRegex | _ => None
  end.
Definition cmp_of (z : Z) : option cmpop :=
  match z with
  | 0 => Some CLt | 1 => Some CLe | 2 => Some CGt | 3 => Some CGe | 4 => Some CEq | 5 => Some CNe
  | _ => None
  end.
Definition lenop_of (z : Z) : option lenop :=
  match z with 0 => Some LByte | 1 => Some LArray | 2 => Some LInt | _ => None end.

Definition b_obj : bytes := [111; 98; 106]%N.
Definition b_object : bytes := [111; 98; 106; 101; 99; 116]%N.
Definition b_arr : bytes := [97; 114; 114]%N.
Definition b_array : bytes := [97; 114; 114; 97; 121]%N.
Definition b_num : bytes := [110; 117; 109]%N.
Definition b_number : bytes := [110; 117; 109; 98; 101; 114]%N.
Definition b_str : bytes := [115; 116; 114]%N.
Definition b_string : bytes := [115; 116; 114; 105; 110; 103]%N.
Definition b_nil : bytes := [110; 105; 108]%N.
Definition jtype_of_name (b : bytes) : jtype :=
  if bytes_eqb b b_obj || bytes_eqb b b_object then TObj
  else if bytes_eqb b b_arr || bytes_eqb b b_array then TArr
  else if bytes_eqb b b_num || bytes_eqb b b_number then TNum
  else if bytes_eqb b b_str || bytes_eqb b b_string then TStr
  else if bytes_eqb b s_null then TNull
  else if bytes_eqb b b_nil then TNil
  else TBad.

Definition val_of_sx (s : sx) : option (option bytes) :=
  match s with SZ 0 => Some None | SB b => Some (Some b) | _ => None end.
Definition path_of_sx (s : sx) : option (list bytes) := as_list as_B s.

Fixpoint node_of_sx (s : sx) : dec :=
  match s with
  | SL [SZ 0; SZ op; p; SZ cs; SL vals] =>
      match fop_of op, path_of_sx p, as_bool (SZ cs), opt_map val_of_sx vals with
      | Some o, Some path, Some c, Some vs =>
          match vs with
          | [] => DReject                                  (* "values are not provided" *)
          | v0 :: vr => DNode (NField o path c v0 vr)
          end
      | _, _, _, _ => DBad
      end
  | SL [SZ 1; SZ op; p; SZ c; SZ v] =>
      match lenop_of op, path_of_sx p, cmp_of c with
      | Some o, Some path, Some c' => DNode (NLen o path c' v)
      | _, _, _ => DBad
      end
  | SL [SZ 2; p; SB format; SZ c; SZ mode; SZ a; SZ shift] =>
      match path_of_sx p, cmp_of c, mode with
      | Some path, Some c', 0 => DNode (NTs path format c' (TsConst a) shift)
      | Some path, Some c', 1 => DNode (NTs path format c' (TsNow a) shift)
      | Some path, Some c', 2 => DNode (NTs path format c' (TsNow 0) shift)   (* value "file_d_start": the clock read once *)
      | _, _, _ => DBad
      end
  | SL [SZ 3; p; SL names] =>
      match path_of_sx p, opt_map as_B names with
      | Some path, Some ns => DNode (NType path (map jtype_of_name ns))
      | _, _ => DBad
      end
  | SL [SZ 7; SZ _] => DReject        (* a node map ctor.go refuses (missing / mistyped key, unknown op): harness table *)
  | SL (SZ k :: ops) =>
      if (k =? 4) || (k =? 5) || (k =? 6) then
        let r := (fix go (l : list sx) : option (option (list node)) :=   (* None bad | Some None rejected *)
                    match l with
                    | [] => Some (Some [])
                    | x :: r =>
                        match node_of_sx x, go r with
                        | DBad, _ => None
                        | _, None => None
                        | DReject, Some _ => Some None
                        | DNode _, Some None => Some None
                        | DNode n, Some (Some ns) => Some (Some (n :: ns))
                        end
                    end) ops in
        match r with
        | None => DBad
        | Some None => DReject
        | Some (Some ns) =>
            if k =? 4 then DNode (NAnd ns)
            else if k =? 5 then DNode (NOr ns)
            else match ns with [x] => DNode (NNot x) | _ => DReject end   (* not: exactly one operand *)
        end
      else DBad
  | _ => DBad
  end.

(* ---- oracle tables ---------------------------------------------------------------------- *)
Record tables := {
  t_lower : list (bytes * bytes);
  t_re : list (bytes * bytes * bool);
  t_reok : list (bytes * bool);
  t_any : list (bytes * bytes * bool);
  t_time : list (bytes * bytes * option Z);
  t_int : list (bytes * Z) }.

Fixpoint lookup1 {V} (t : list (bytes * V)) (k : bytes) : option V :=
  match t with
  | [] => None
  | (k', v) :: r => if bytes_eqb k' k then Some v else lookup1 r k
  end.
Fixpoint lookup2 {V} (t : list (bytes * bytes * V)) (k1 k2 : bytes) : option V :=
  match t with
  | [] => None
  | (a, b, v) :: r => if bytes_eqb a k1 && bytes_eqb b k2 then Some v else lookup2 r k1 k2
  end.

Definition tables_of_sx (s : sx) : option tables :=
  match s with
  | SL [lo; re; reok; any; tm; it] =>
      match as_list (fun x => match x with SL [SB a; SB b] => Some (a, b) | _ => None end) lo,
            as_list (fun x => match x with SL [SB a; SB b; v] =>
                                 match as_bool v with Some t => Some (a, b, t) | None => None end
                               | _ => None end) re,
            as_list (fun x => match x with SL [SB a; v] =>
                                 match as_bool v with Some t => Some (a, t) | None => None end
                               | _ => None end) reok,
            as_list (fun x => match x with SL [SB a; SB b; v] =>
                                 match as_bool v with Some t => Some (a, b, t) | None => None end
                               | _ => None end) any,
            as_list (fun x => match x with
                              | SL [SB a; SB b; SZ 0] => Some (a, b, None)
                              | SL [SB a; SB b; SL [SZ z]] => Some (a, b, Some z)
                              | _ => None end) tm,
            as_list (fun x => match x with SL [SB a; SZ z] => Some (a, z) | _ => None end) it
      with
      | Some l, Some r, Some ro, Some a, Some t, Some i =>
          Some {| t_lower := l; t_re := r; t_reok := ro; t_any := a; t_time := t; t_int := i |}
      | _, _, _, _, _, _ => None
      end
  | _ => None
  end.

(* bytes.ToLower: the ASCII fast path is computed; everything else is looked up *)
Definition tlower (t : tables) (x : bytes) : bytes :=
  if is_ascii x then ascii_lower x
  else match lookup1 (t_lower t) x with Some y => y | None => x end.
Definition tre (t : tables) (p d : bytes) : bool :=
  match lookup2 (t_re t) p d with Some b => b | None => false end.
Definition treok (t : tables) (p : bytes) : bool :=
  match lookup1 (t_reok t) p with Some b => b | None => false end.
Definition tany (t : tables) (d c : bytes) : bool :=
  match lookup2 (t_any t) d c with Some b => b | None => false end.
Definition ttime (t : tables) (f s : bytes) : option Z :=
  match lookup2 (t_time t) f s with Some r => r | None => None end.
Definition tint (t : tables) (s : bytes) : Z :=
  match lookup1 (t_int t) s with Some z => z | None => 0 end.

Definition has_lower (t : tables) (x : bytes) : bool :=
  is_ascii x || match lookup1 (t_lower t) x with Some _ => true | None => false end.
Definition isSome {A} (o : option A) : bool := match o with Some _ => true | None => false end.

(* every oracle value the model may consult on this case is present in the tables *)
Fixpoint needs_ok (t : tables) (n : node) (e : json) {struct n} : bool :=
  match n with
  | NField op path cs v0 vr =>
      let vals := v0 :: vr in
      let x := bytes_of (get e path) in
      let m := Z.to_nat (max_len v0 vr) in
      (cs || (has_lower t x && forallb (fun v => has_lower t (bytes_of v)) vals
              && has_lower t (firstn m x) && has_lower t (lastn m x)))
      && match op with
         | FRegex => forallb (fun p => isSome (lookup1 (t_reok t) (bytes_of p))
                                       && isSome (lookup2 (t_re t) (bytes_of p) x)) vals
         | FContainsAny =>
             forallb (fun v => isSome (lookup2 (t_any t) (low (tlower t) cs x) (low (tlower t) cs (bytes_of v)))) vals
         | _ => true
         end
  | NLen LInt path _ _ =>
      match jdig e path with
      | Some (JNum s) | Some (JStr s) => isSome (lookup1 (t_int t) s)
      | _ => true
      end
  | NLen _ _ _ _ => true
  | NTs path format _ _ _ =>
      match jdig e path with
      | Some (JStr s) => isSome (lookup2 (t_time t) format s)
      | _ => true
      end
  | NType _ _ => true
  | NAnd ops | NOr ops => forallb (fun x => needs_ok t x e) ops
  | NNot x => needs_ok t x e
  end.

Definition t_check (t : tables) := check (tlower t) (tre t) (tany t) (ttime t) (tint t).
Definition t_eval (t : tables) := eval (tlower t) (tre t) (tany t) (ttime t) (tint t).
Definition t_wfb (t : tables) := wfb (treok t).

Definition obs_reject : sx := SL [SZ 2].

(* verdict for one boolean decision: [m] what the code model computes, [s] the documented value *)
Definition verdict3 (m s obs : sx) : verdict :=
  if sx_eqb obs s then (if sx_eqb obs m then Agree else Differ m)
  else Violates (SL [m; s]).

(* the side conditions of c14_check_eq_eval, evaluated by the model with the case's oracle values *)
Definition t_hyps (t : tables) (n : node) (e : json) : bool :=
  lower_hyp (tlower t) n e && cont_ok (tlower t) (tre t) (tany t) n e.

(* ---- antispam data: (9 #event #source_name ((#key #value) ...)) ------------------------------ *)
Definition asdata_of_sx (s : sx) : option asdata :=
  match s with
  | SL [SZ 9; SB ev; SB src; SL ms] =>
      match opt_map (fun x => match x with SL [SB k; SB v] => Some (k, v) | _ => None end) ms with
      | Some m => Some {| as_event := ev; as_source := src; as_meta := m |}
      | None => None
      end
  | _ => None
  end.

Fixpoint needs_ok_as (t : tables) (n : node) (d : asdata) {struct n} : bool :=
  match n with
  | NField op path cs v0 vr =>
      let vals := v0 :: vr in
      let x := bytes_of (as_get d path) in
      let m := Z.to_nat (max_len v0 vr) in
      (cs || (has_lower t x && forallb (fun v => has_lower t (bytes_of v)) vals
              && has_lower t (firstn m x) && has_lower t (lastn m x)))
      && match op with
         | FRegex => forallb (fun p => isSome (lookup1 (t_reok t) (bytes_of p))
                                       && isSome (lookup2 (t_re t) (bytes_of p) x)) vals
         | FContainsAny =>
             forallb (fun v => isSome (lookup2 (t_any t) (low (tlower t) cs x) (low (tlower t) cs (bytes_of v)))) vals
         | _ => true
         end
  | NAnd ops | NOr ops => forallb (fun x => needs_ok_as t x d) ops
  | NNot x => needs_ok_as t x d
  | _ => true
  end.

Definition t_check_as (t : tables) := check_as (tlower t) (tre t) (tany t).
Definition t_eval_as (t : tables) := eval_as (tlower t) (tre t) (tany t).

(* which = 0 with antispam data in the place of the event: the rule is one antispam rule with threshold 0
   (discard), the decision is Antispammer.IsSpam *)
Definition c14_as_run (via : Z) (tree : sx) (d : asdata) (tb obs : sx) : verdict :=
  match node_of_sx tree, tables_of_sx tb with
  | DReject, Some _ => exact_verdict obs_reject obs
  | DNode n, Some t =>
      if negb (t_wfb t n) then exact_verdict obs_reject obs
      else if negb (needs_ok_as t n d) then BadCase
      else if Z.testbit via 1 && negb (lower_hyp_as (tlower t) n d) then BadCase
      else verdict3 (of_bool (t_check_as t n d)) (of_bool (t_eval_as t n d)) obs
  | _, _ => BadCase
  end.

(* which = 0: case = (via tree event now tables), obs = 0 | 1 | (2) constructor error.
   via: bit 0 = built with the New*Node constructors (else NewFromMap); bit 1 = the harness found
   the side conditions to hold with the real bytes.ToLower — the model re-evaluates them;
   bits 2.. = which spelling of the rule the real code was given and which reader read it (terse map
   with the documented defaults left out, JSON text through fd.extractDoIfChecker /
   extractAntispamRules / extractPipelineParams): the meaning of the rule does not depend on them. *)
Definition c14_check_run (case obs : sx) : verdict :=
  match case with
  | SL [SZ via; tree; ev; SZ now; tb] =>
      match asdata_of_sx ev with
      | Some d => c14_as_run via tree d tb obs
      | None =>
      match node_of_sx tree, json_of_sx ev, tables_of_sx tb with
      | DReject, Some _, Some _ => exact_verdict obs_reject obs
      | DNode n, Some e, Some t =>
          if negb (t_wfb t n) then exact_verdict obs_reject obs
          else if negb (needs_ok t n e) then BadCase
          else if Z.testbit via 1 && negb (t_hyps t n e) then BadCase
          else verdict3 (of_bool (t_check t n e now)) (of_bool (t_eval t n e now)) obs
      | _, _, _ => BadCase
      end
      end
  | _ => BadCase
  end.

(* ======================================================================================== *)
(* Action chains: processor.doActions / processEvent over the actions of one pipeline, one    *)
(* stream, one processor. Every action has its own selector and, when entered, answers with   *)
(* the next result of its script (a probe plugin of the harness): pass | break | discard |    *)
(* collapse. An action that answered collapse is BUSY: it gets the next event of the stream   *)
(* without its selector being consulted (processor.go: `if !p.busyActions[index] && ...`).    *)
(* ======================================================================================== *)
Inductive ares := RPass | RBreak | RDiscard | RCollapse.
Record cact := { ca_sel : option node; ca_script : list ares }.     (* no selector: every event *)
Record cst := { cs_busy : bool; cs_pos : nat }.

Definition script_at (s : list ares) (k : nat) : ares := nth (Nat.modulo k (length s)) s RPass.
Definition sel_dec (dec : node -> bool) (a : cact) : bool :=
  match ca_sel a with Some n => dec n | None => true end.
Definition cst_next (s : cst) (busy : bool) : cst := {| cs_busy := busy; cs_pos := S (cs_pos s) |}.

(* one event through the actions: (entered bits, reaches the output, states afterwards) *)
Fixpoint chain_step (dec : node -> bool) (acts : list cact) (sts : list cst) : list bool * bool * list cst :=
  match acts, sts with
  | a :: ar, s :: sr =>
      if cs_busy s || sel_dec dec a then
        match script_at (ca_script a) (cs_pos s) with
        | RPass => let '(bs, o, sr') := chain_step dec ar sr in (true :: bs, o, cst_next s false :: sr')
        | RBreak => (true :: map (fun _ => false) ar, true, cst_next s false :: sr)
        | RDiscard => (true :: map (fun _ => false) ar, false, cst_next s false :: sr)
        | RCollapse => (true :: map (fun _ => false) ar, false, cst_next s true :: sr)
        end
      else let '(bs, o, sr') := chain_step dec ar sr in (false :: bs, o, s :: sr')
  | _, _ => ([], true, [])
  end.

(* the events of the stream in order *)
Fixpoint chain_run {E} (dec : E -> node -> bool) (acts : list cact) (sts : list cst) (evs : list E)
  : list (list bool * bool) :=
  match evs with
  | [] => []
  | e :: r => let '(bs, o, sts') := chain_step (dec e) acts sts in (bs, o) :: chain_run dec acts sts' r
  end.

Definition cst_init (acts : list cact) : list cst := map (fun _ => {| cs_busy := false; cs_pos := 0 |}) acts.

(* the documented reading, for an action that is not in the middle of a sequence: it is entered iff
   the event got as far as this action (every earlier action the event entered passed it on) and
   its selector holds *)
Fixpoint chain_spec_free (dec : node -> bool) (acts : list cact) (results : list ares) : list bool :=
  match acts, results with
  | a :: ar, r :: rr =>
      if sel_dec dec a then
        match r with
        | RPass => true :: chain_spec_free dec ar rr
        | _ => true :: map (fun _ => false) ar
        end
      else false :: chain_spec_free dec ar rr
  | _, _ => []
  end.

(* glue: chain = (10 action ...), action = (selector (result ...)), selector = node | 0 (none) |
   (8 (#key ...) #json-text): a match_fields value that is neither a string nor a list of strings
   (documented forms: string, /regexp/, list of strings) — the configuration is refused *)
Definition ares_of (z : Z) : option ares :=
  match z with 0 => Some RPass | 1 => Some RBreak | 2 => Some RDiscard | 3 => Some RCollapse | _ => None end.
Inductive cdec := CBad | CReject | CAct (a : cact).
Definition cact_of_sx (s : sx) : cdec :=
  match s with
  | SL [sel; SL rs] =>
      match opt_map (fun x => match x with SZ z => ares_of z | _ => None end) rs with
      | None => CBad
      | Some script =>
          match sel with
          | SZ 0 => CAct {| ca_sel := None; ca_script := script |}
          | SL [SZ 8; _; SB _] => CReject
          | _ => match node_of_sx sel with
                 | DBad => CBad
                 | DReject => CReject
                 | DNode n => CAct {| ca_sel := Some n; ca_script := script |}
                 end
          end
      end
  | _ => CBad
  end.

Definition sx_of_row (r : list bool * bool) : sx := SL [SL (map of_bool (fst r)); of_bool (snd r)].

(* which = 1: the same checkers over a sequence of events (one decoded root per event, every
   checker in turn): case = (via (tree ...) (event ...) now tables), obs = ((bit ...) ...) | (2) *)
(* which = 1 with (10 action ...) in the place of the trees: a real pipeline whose actions are probes;
   obs = (((entered ...) reached-output) ...) one row per event | (2) configuration refused *)
Definition c14_chain_run (via : Z) (acts : list sx) (evs : list sx) (now : Z) (tb obs : sx) : verdict :=
  match opt_map json_of_sx evs, tables_of_sx tb with
  | Some es, Some t =>
      let ds := map cact_of_sx acts in
      if existsb (fun d => match d with CBad => true | _ => false end) ds then BadCase
      else if existsb (fun d => match d with
                                | CReject => true
                                | CAct a => match ca_sel a with Some n => negb (t_wfb t n) | None => false end
                                | CBad => false end) ds
      then exact_verdict obs_reject obs
      else
        let cs := flat_map (fun d => match d with CAct a => [a] | _ => [] end) ds in
        let ns := flat_map (fun a => match ca_sel a with Some n => [n] | None => [] end) cs in
        if negb (forallb (fun e => forallb (fun n => needs_ok t n e) ns) es) then BadCase
        else if Z.testbit via 1 && negb (forallb (fun e => forallb (fun n => t_hyps t n e) ns) es) then BadCase
        else
          let m := SL (map sx_of_row (chain_run (fun e n => t_check t n e now) cs (cst_init cs) es)) in
          let s := SL (map sx_of_row (chain_run (fun e n => t_eval t n e now) cs (cst_init cs) es)) in
          verdict3 m s obs
  | _, _ => BadCase
  end.

Definition c14_seq_run (case obs : sx) : verdict :=
  match case with
  | SL [SZ via; SL (SZ 10 :: acts); SL evs; SZ now; tb] => c14_chain_run via acts evs now tb obs
  | SL [SZ via; SL trees; SL evs; SZ now; tb] =>
      match opt_map json_of_sx evs, tables_of_sx tb with
      | Some es, Some t =>
          let ds := map node_of_sx trees in
          if existsb (fun d => match d with DBad => true | _ => false end) ds then BadCase
          else if existsb (fun d => match d with DReject => true | DNode n => negb (t_wfb t n) | DBad => false end) ds
          then exact_verdict obs_reject obs
          else
            let ns := flat_map (fun d => match d with DNode n => [n] | _ => [] end) ds in
            if negb (forallb (fun e => forallb (fun n => needs_ok t n e) ns) es) then BadCase
            else if Z.testbit via 1 && negb (forallb (fun e => forallb (fun n => t_hyps t n e) ns) es) then BadCase
            else
              let m := SL (map (fun e => SL (map (fun n => of_bool (t_check t n e now)) ns)) es) in
              let s := SL (map (fun e => SL (map (fun n => of_bool (t_eval t n e now)) ns)) es) in
              verdict3 m s obs
      | _, _ => BadCase
      end
  | _ => BadCase
  end.
