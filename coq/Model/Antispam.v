(* Model of pipeline/antispam/antispammer.go: Antispammer.IsSpam / Maintenance, per source.
   No proofs here (Proofs/Antispam.v). Ends with the exchange glue of property C20 (c20_entry). *)
From Verif Require Import Base.Sx Base.GoSem Model.Admission.

(* a.sources[id] + a.sourcesThresholds[id]; absent entry = None *)
Record src := { counter : Z; ts : Z; sthr : Z }.

(* ---- which threshold applies to an event (exceptions, rules) --------------------------------
   matchrule / doif are abstract: an event comes with the list of booleans "exception i matches"
   and, for rules, the list (rule j matches, rule j threshold).  [rules = None] <-> a.rules == nil. *)
Inductive decision :=
| Pass                (* IsSpam returns false before touching the source *)
| Block               (* IsSpam returns true before touching the source (threshold 0 = "discard all") *)
| Count (thr : Z).    (* the source is counted against thr *)

Definition by_threshold (thr : Z) : decision :=
  if thr =? -1 then Pass else if thr =? 0 then Block else Count thr.

Fixpoint first_rule (rs : list (bool * Z)) : option Z :=
  match rs with
  | [] => None
  | (m, thr) :: rs' => if m then Some thr else first_rule rs'
  end.

Definition resolve (T : Z) (rules : option (list (bool * Z))) (exc : list bool) : decision :=
  match rules with
  | None =>
      if T =? -1 then Pass                                   (* a.rules == nil && a.threshold == -1 *)
      else if existsb (fun m => m) exc then Pass             (* the first matching exception *)
      else by_threshold T
  | Some rs =>
      match first_rule rs with
      | Some thr => by_threshold thr
      | None => by_threshold T
      end
  end.

(* ---- IsSpam after the threshold is known ------------------------------------------------------
     src absent: create {counter 0, timestamp t}, sourcesThresholds[id] = thr
     isNewSource: counter = 0; return false
     x := counter; diff := t - timestamp.Swap(t); if diff < MI { x = counter.Inc() }
     if x == thr { counter = U*thr }
     return x >= thr                                                                          *)
Definition count_step (MI U thr : Z) (s : option src) (isNew : bool) (t : Z) : option src * bool :=
  let x0 := match s with Some x => x | None => {| counter := 0; ts := t; sthr := thr |} end in
  if isNew then (Some {| counter := 0; ts := ts x0; sthr := sthr x0 |}, false)
  else
    let x := if (t - ts x0) <? MI then counter x0 + 1 else counter x0 in
    (Some {| counter := if x =? thr then U * thr else x; ts := t; sthr := sthr x0 |}, thr <=? x).

(* ---- Maintenance, one source --------------------------------------------------------------
     x == 0: delete the entry
     x -= threshold; if x < 0 { x = 0 }; if x > U*threshold { x = U*threshold }; counter = x     *)
Definition maint_step (U : Z) (s : option src) : option src :=
  match s with
  | None => None
  | Some x =>
      if counter x =? 0 then None
      else
        let th := sthr x in
        let y := Z.max (counter x - th) 0 in
        Some {| counter := if U * th <? y then U * th else y; ts := ts x; sthr := th |}
  end.

Inductive aop :=
| Ev (d : decision) (isNew : bool) (t : Z)   (* one IsSpam call, event time t *)
| Maint.                                     (* one Maintenance round *)

Definition astep (MI U : Z) (s : option src) (o : aop) : option src * bool :=
  match o with
  | Ev Pass _ _ => (s, false)
  | Ev Block _ _ => (s, true)
  | Ev (Count thr) isNew t => count_step MI U thr s isNew t
  | Maint => (maint_step U s, false)
  end.

Fixpoint arun (MI U : Z) (s : option src) (ops : list aop) : option src * list bool :=
  match ops with
  | [] => (s, [])
  | o :: r =>
      let '(s1, v) := astep MI U s o in
      let '(s2, vs) := arun MI U s1 r in
      (s2, v :: vs)
  end.

Fixpoint maint_n (U : Z) (n : nat) (s : option src) : option src :=
  match n with O => s | S k => maint_n U k (maint_step U s) end.

(* ---- specification vocabulary ---------------------------------------------------------------- *)
Definition counter_of (s : option src) : Z := match s with Some x => counter x | None => 0 end.
Definition ts_of (s : option src) : option Z := match s with Some x => Some (ts x) | None => None end.
Definition banned (T : Z) (s : option src) : bool := T <=? counter_of s.

(* how many of the calls count as "quick" (gap to the previous event of the source < MI), defined on
   the event times alone; p = time of the previous event (None: the source has no entry, its first
   event creates it with its own time, gap 0) *)
Fixpoint quick_count (MI : Z) (p : option Z) (ops : list aop) : Z :=
  match ops with
  | [] => 0
  | Ev (Count _) false t :: r =>
      (if (t - match p with Some q => q | None => t end) <? MI then 1 else 0) + quick_count MI (Some t) r
  | Ev (Count _) true t :: r =>
      quick_count MI (Some (match p with Some q => q | None => t end)) r
  | _ :: r => quick_count MI p r
  end.

Definition is_count_ev (T : Z) (o : aop) : bool :=
  match o with Ev (Count thr) _ _ => thr =? T | _ => false end.
Definition uniform_op (T : Z) (o : aop) : bool :=
  match o with Ev (Count thr) _ _ => thr =? T | Ev _ _ _ => false | Maint => true end.
Definition thr_is (T : Z) (s : option src) : Prop := match s with Some x => sthr x = T | None => True end.

(* ---- several sources: a.sources as a table indexed by source number -------------------------- *)
Inductive mop :=
| MEv (id : nat) (d : decision) (isNew : bool) (t : Z)
| MMaint
| MPanic.   (* an IsSpam call that panics before it touches any source (an exception rule without values:
               matchrule.Rule.Prepare leaves it unprepared and Rule.Match panics "rule must be prepared") *)

Fixpoint set_nth {A} (k : nat) (v : A) (l : list A) : list A :=
  match l, k with
  | [], _ => []
  | _ :: r, O => v :: r
  | x :: r, S k' => x :: set_nth k' v r
  end.

(* observation of one step: the verdict of IsSpam, or the counters after a Maintenance round *)
Inductive mobs := OFlag (v : bool) | OCounters (cs : list Z) | OPanic.

Definition obs_counter (s : option src) : Z := match s with Some x => counter x | None => -1 end.

Definition mstep (MI U : Z) (ms : list (option src)) (o : mop) : list (option src) * mobs :=
  match o with
  | MEv id d isNew t =>
      match nth_error ms id with
      | None => (ms, OFlag false)
      | Some s => let '(s', v) := astep MI U s (Ev d isNew t) in (set_nth id s' ms, OFlag v)
      end
  | MMaint => let ms' := map (maint_step U) ms in (ms', OCounters (map obs_counter ms'))
  | MPanic => (ms, OPanic)
  end.

Fixpoint mrun (MI U : Z) (ms : list (option src)) (ops : list mop) : list (option src) * list mobs :=
  match ops with
  | [] => (ms, [])
  | o :: r =>
      let '(ms1, v) := mstep MI U ms o in
      let '(ms2, vs) := mrun MI U ms1 r in
      (ms2, v :: vs)
  end.

Definition proj (id : nat) (o : mop) : list aop :=
  match o with
  | MEv id' d isNew t => if Nat.eqb id' id then [Ev d isNew t] else []
  | MMaint => [Maint]
  | MPanic => []
  end.

(* ============================================================================================
   The property's executable predicate on what the implementation was OBSERVED to do (verdicts of
   IsSpam, counters after each Maintenance), per source. It uses no model state.
     r       counter the last round left behind (0 before the first round / entry absent)
     q       quick calls since that round (quick_count, from the event times)
     p       time of the source's previous event (None = no entry)
     silent  rounds since the source's last IsSpam call
     thr     the source's threshold, once an event showed it
     f       a call of the source was flagged since the previous round
   [strong] = the property's wording (at least T events since the previous round);
   not strong = the residual-aware statement r + q >= T that is a theorem of the model.        *)
Record mon := { m_r : Z; m_q : Z; m_p : option Z; m_silent : Z; m_thr : option Z; m_mixed : bool; m_f : bool }.
Definition mon0 : mon := {| m_r := 0; m_q := 0; m_p := None; m_silent := 0; m_thr := None; m_mixed := false; m_f := false |}.

Inductive item :=
| IE (d : decision) (isNew : bool) (t : Z) (flag : bool)
| IM (c : Z).

(* [m_mixed]: the source's events were counted against different thresholds (rules that select by
   event content). "Its threshold" is then undefined and the onset clause is not judged; the unban
   clause is (the counter must be drained after U+1 silent rounds). *)
Definition mon_step (strong : bool) (MI U : Z) (m : mon) (i : item) : mon * bool :=
  match i with
  | IE Pass _ _ flag => (m, negb flag)
  | IE Block _ _ _ => (m, true)
  | IE (Count T) isNew t flag =>
      let prev := match m_p m with Some q => q | None => t end in
      let mixed := m_mixed m || match m_thr m with Some T0 => negb (T0 =? T) | None => false end in
      if isNew then
        ({| m_r := m_r m; m_q := m_q m; m_p := Some prev; m_silent := 0; m_thr := Some T; m_mixed := mixed; m_f := m_f m || flag |},
         mixed || negb flag || (T <=? m_r m) || (T <=? (if strong then 0 else m_r m) + m_q m))
      else
        let q' := m_q m + (if (t - prev) <? MI then 1 else 0) in
        ({| m_r := m_r m; m_q := q'; m_p := Some t; m_silent := 0; m_thr := Some T; m_mixed := mixed; m_f := m_f m || flag |},
         mixed || negb flag || (T <=? m_r m) || (T <=? (if strong then 0 else m_r m) + q'))
  | IM c =>
      let sil := m_silent m + 1 in
      ({| m_r := Z.max c 0; m_q := 0; m_p := if c =? -1 then None else m_p m; m_silent := sil;
          m_thr := m_thr m; m_mixed := m_mixed m; m_f := false |},
       match m_thr m with
       | Some T =>
           (if U + 1 <=? sil then c <=? 0 else true) &&
           (* decay: a round subtracts the source's own threshold.  Since the previous round the counter rose by at
              most one per quick call from what that round left (or, if a call was flagged in between, from the ban
              value U*T), so what THIS round leaves is at most that minus T — a larger residue re-bans the source
              after fewer than T events *)
           (m_mixed m || (c <=? Z.max 0 ((if m_f m then Z.max (m_r m) (U * T) else m_r m) + m_q m - T)))
       | None => true
       end)
  end.

Fixpoint mon_run (strong : bool) (MI U : Z) (m : mon) (is : list item) : bool :=
  match is with
  | [] => true
  | i :: r => let '(m', ok) := mon_step strong MI U m i in ok && mon_run strong MI U m' r
  end.

(* ============================================================================================
   Exchange glue.
   which = 0  checkInputBytes: case = (bytes max cutoff)
              obs = (0) refused | (1 bytes cutoff) | (2) panic
   which = 1  antispam op sequence on the real Antispammer:
              case = (T MI U mode nexc (rule_thr ...) nsrc (op ...))
                mode 0: rules == nil, nexc exceptions;  mode 1: the rules with the listed thresholds
                op = (0) Maintenance | (1 id isNew t (exc_bit ...) (rule_bit ...))
              obs = one entry per op: flag 0/1 | (counter-or--1 per source ...)
              predicate: residual-aware (not strong)
   which = 2  same case/obs; predicate: the property's wording (strong)
   which = 3  the real pipeline: case = (max cutoff mark dec T U nsrc (op ...))
                dec 0 raw | 1 json | 2 cri;  op = (0) Maintenance | (1 id isNew cur soff bytes valid)
                valid: 0 garbage | 1 well-formed (cri: full row) | 2 cri partial row
              obs = per op: (0) refused | (1 payload mark) | (2) panic | (3) lost; Maintenance: (counters)  *)

Definition as_decision_bits (s : sx) : option (list bool) := as_list as_bool s.

Record acase := { c_T : Z; c_MI : Z; c_U : Z; c_mode : Z; c_rthr : list Z; c_n : nat }.

Definition mop_of_sx (cfg : acase) (s : sx) : option mop :=
  match s with
  | SL [SZ 0] => Some MMaint
  | SL [SZ 1; id; isNew; SZ t; eb; rb] =>
      match as_nat id, as_bool isNew, as_decision_bits eb, as_decision_bits rb with
      | Some id, Some isNew, Some eb, Some rb =>
          let rules := if c_mode cfg =? 0 then None else Some (combine rb (c_rthr cfg)) in
          if (id <? c_n cfg)%nat && ((c_mode cfg =? 0) || (length rb =? length (c_rthr cfg))%nat)
          then Some (MEv id (resolve (c_T cfg) rules eb) isNew t) else None
      | _, _, _, _ => None
      end
  | _ => None
  end.

Definition acase_of_sx (s : sx) : option (acase * list mop) :=
  match s with
  | SL [SZ T; SZ MI; SZ U; SZ mode; SZ _; rthr; n; SL ops] =>
      match as_list as_Z rthr, as_nat n with
      | Some rthr, Some n =>
          let cfg := {| c_T := T; c_MI := MI; c_U := U; c_mode := mode; c_rthr := rthr; c_n := n |} in
          match opt_map (mop_of_sx cfg) ops with
          | Some ops => Some (cfg, ops)
          | None => None
          end
      | _, _ => None
      end
  | _ => None
  end.

Definition sx_of_mobs (o : mobs) : sx :=
  match o with OFlag v => of_bool v | OCounters cs => SL (map SZ cs) | OPanic => SZ 2 end.

Definition c20_as_model (case : sx) : option sx :=
  match acase_of_sx case with
  | Some (cfg, ops) =>
      Some (SL (map sx_of_mobs (snd (mrun (c_MI cfg) (c_U cfg) (repeat None (c_n cfg)) ops))))
  | None => None
  end.

(* the items of source id, from the ops and the OBSERVED entries; None = shapes do not fit *)
Fixpoint items_of (id : nat) (ops : list mop) (obs : list sx) : option (list item) :=
  match ops, obs with
  | [], [] => Some []
  | MEv id' d isNew t :: ops', SZ f :: obs' =>
      match items_of id ops' obs' with
      | Some r =>
          if Nat.eqb id' id then
            (if f =? 0 then Some (IE d isNew t false :: r)
             else if f =? 1 then Some (IE d isNew t true :: r) else None)
          else Some r
      | None => None
      end
  | MMaint :: ops', SL cs :: obs' =>
      match items_of id ops' obs', nth_error cs id with
      | Some r, Some (SZ c) => Some (IM c :: r)
      | _, _ => None
      end
  | MPanic :: ops', SZ f :: obs' => if f =? 2 then items_of id ops' obs' else None
  | _, _ => None
  end.

Fixpoint all_sources (strong : bool) (cfg : acase) (ops : list mop) (obs : list sx) (k : nat) : bool :=
  match k with
  | O => true
  | S k' =>
      match items_of k' ops obs with
      | Some is => mon_run strong (c_MI cfg) (c_U cfg) mon0 is
      | None => false
      end && all_sources strong cfg ops obs k'
  end.

Definition c20_as_pred (strong : bool) (case obs : sx) : bool :=
  match acase_of_sx case, obs with
  | Some (cfg, ops), SL os => all_sources strong cfg ops os (c_n cfg)
  | _, _ => false
  end.

Definition c20_as_run (strong : bool) (case obs : sx) : verdict :=
  match c20_as_model case with
  | None => BadCase
  | Some m =>
      if c20_as_pred strong case obs then (if sx_eqb m obs then Agree else Differ m) else Violates m
  end.

(* ---- which = 0 ---------------------------------------------------------------------------- *)
Definition sx_of_outcome (r : res outcome) : sx :=
  match r with
  | Ok (Refuse _) => SL [SZ 0]
  | Ok (Keep b) => SL [SZ 1; SB b; SZ 0]
  | Ok (Cut b) => SL [SZ 1; SB b; SZ 1]
  | Err _ => SL [SZ 2]
  | Panic _ => SL [SZ 2]
  end.

Definition c20_admit_model (case : sx) : option sx :=
  match case with
  | SL [SB b; SZ max; c] =>
      match as_bool c with
      | Some c => Some (sx_of_outcome (admit_bytes b max c))
      | None => None
      end
  | _ => None
  end.

(* ---- which = 3: the pipeline entrance with its antispam state -------------------------------
   Non-CRI decoders: cri = Some false; the event time handed to IsSpam is the zero time for every
   call, so every gap is 0 (quick iff 0 < MI; the harness configures MI = 1 hour, the model MI = 1).
   raw decoder: always accepts, the message is the bytes without their last byte;
   json: the harness only sends records that are one JSON object (valid = 1) or garbage (valid = 0),
   so the decoder accepts the bytes it is shown iff valid and they still hold the whole object.
   cri: the harness only sends rows  <30-byte time> SP std(out|err) SP (F|P) SP log  (valid = 1 full,
   2 partial; header = 40 bytes, limits >= 41 so a cut keeps it) or garbage without any space
   (valid = 0: DecodeCRI fails on it and on every prefix); the row time is the same in every row, so
   every gap is 0 as for the other decoders; the message is row.Log. *)
Definition strip_nl (b : bytes) : bytes :=
  match rev_append b [] with
  | c :: r => if N.eqb c NL then rev_append r [] else b
  | [] => b
  end.

Record pcase := { p_cfg : in_cfg; p_dec : Z; p_T : Z; p_U : Z; p_n : nat }.

Inductive pop := PMaint | PIn (id : nat) (isNew : bool) (cur soff : Z) (b : bytes) (valid : Z).

Definition pop_of_sx (s : sx) : option pop :=
  match s with
  | SL [SZ 0] => Some PMaint
  | SL [SZ 1; id; isNew; SZ cur; SZ soff; SB b; SZ valid] =>
      match as_nat id, as_bool isNew with
      | Some id, Some isNew => Some (PIn id isNew cur soff b valid)
      | _, _ => None
      end
  | _ => None
  end.

Definition cri_header : nat := 40.
Definition payload (dec valid : Z) (b' : bytes) : bytes :=
  if dec =? 0 then removelast b'
  else if dec =? 1 then strip_nl b'
  else if valid =? 2 then removelast (skipn cri_header b') else skipn cri_header b'.

Definition pstep (pc : pcase) (ms : list (option src)) (o : pop) : list (option src) * sx :=
  match o with
  | PMaint =>
      let ms' := map (maint_step (p_U pc)) ms in (ms', SL (map (fun s => SZ (obs_counter s)) ms'))
  | PIn id isNew cur soff b valid =>
      let dok := fun b' : bytes =>
        if p_dec pc =? 1 then (valid =? 1) && N_eqb_list (strip_nl b') (strip_nl b) else true in
      let cri := fun _ : bytes =>
        if p_dec pc =? 2 then (if valid =? 0 then None else Some (valid =? 2)) else Some false in
      match in_stage1 (p_cfg pc) cri cur soff b with
      | S1Refused _ => (ms, SL [SZ 0])
      | S1Crash => (ms, SL [SZ 2])
      | S1Go b' cut consult =>
          let '(ms', spam) :=
            if consult then
              match nth_error ms id with
              | Some s =>
                  let '(s', v) := astep 1 (p_U pc) s (Ev (resolve (p_T pc) None []) isNew 0) in
                  (set_nth id s' ms, v)
              | None => (ms, false)
              end
            else (ms, false) in
          match in_stage2 (p_cfg pc) dok b' cut consult spam with
          | Delivered d mark => (ms', SL [SZ 1; SB (payload (p_dec pc) valid d); of_bool mark])
          | _ => (ms', SL [SZ 0])
          end
      end
  end.

Fixpoint prun (pc : pcase) (ms : list (option src)) (ops : list pop) : list sx :=
  match ops with
  | [] => []
  | o :: r => let '(ms', x) := pstep pc ms o in x :: prun pc ms' r
  end.

Definition c20_pipe_model (case : sx) : option sx :=
  match case with
  | SL [SZ max; cutoff; mark; SZ dec; SZ T; SZ U; n; SL ops] =>
      match as_bool cutoff, as_bool mark, as_nat n, opt_map pop_of_sx ops with
      | Some cutoff, Some mark, Some n, Some ops =>
          let pc := {| p_cfg := {| max_size := max; cut_on := cutoff; mark_on := mark; as_thr := T;
                                   is_cri := dec =? 2 |};
                       p_dec := dec; p_T := T; p_U := U; p_n := n |} in
          if forallb (fun o => match o with PIn id _ _ _ _ _ => (id <? n)%nat | PMaint => true end) ops
          then Some (SL (prun pc (repeat None n) ops)) else None
      | _, _, _, _ => None
      end
  | _ => None
  end.

(* ============================================================================================
   which = 4: exceptions given as concrete cfg/matchrule rule sets, events / source names as bytes.
   The model computes the "exception i matches" bits itself from the SPECIFICATION of a rule:
     prefix / contains / suffix of at least one value, both sides lower-cased when case_insensitive,
     negated when invert; a rule set = all (cond and) / any (cond or) of its rules, no rule = no match.
   (matchrule.go gets there by cutting the data to the longest value first and comparing windows; the
   minValueSize / maxValueSize / len(cutData) < len(value) guards are an optimisation of this.)
   Lower-casing is modelled for ASCII only: a case-insensitive rule over data or values with a byte
   >= 0x80 is outside the model (None -> BadCase) unless the op carries its bits explicitly
   (7th element; bytes.ToLower / strings.ToLower = Unicode case mapping is external behaviour).
     case = (T MI U nsrc (exc ...) (op ...))
       exc  = (check_source_name cond (rule ...))        cond 0 and | 1 or   (matchrule.CondAnd/CondOr)
       rule = (mode ci invert (#value ...))              mode 0 prefix | 1 contains | 2 suffix
       op   = (0) Maintenance | (1 id isNew t #name #event) | (1 id isNew t #name #event (bit ...))
     obs and predicate as which = 1                                                            *)
Fixpoint is_prefix (v b : bytes) : bool :=
  match v, b with
  | [], _ => true
  | x :: v', y :: b' => N.eqb x y && is_prefix v' b'
  | _ :: _, [] => false
  end.
Definition is_suffix (v b : bytes) : bool := is_prefix (rev_append v []) (rev_append b []).
Fixpoint contains (v b : bytes) : bool :=
  match b with
  | [] => is_prefix v []
  | _ :: r => is_prefix v b || contains v r
  end.
Definition lower_ascii (b : bytes) : bytes :=
  map (fun c => if (N.leb 65 c && N.leb c 90)%bool then (c + 32)%N else c) b.
Definition all_ascii (b : bytes) : bool := forallb (fun c => N.ltb c 128) b.

Record mrule := { mr_mode : Z; mr_ci : bool; mr_inv : bool; mr_vals : list bytes }.
Record mexc := { me_name : bool; me_or : bool; me_rules : list mrule }.

Definition rule_in_model (r : mrule) (raw : bytes) : bool :=
  negb (mr_ci r) || (all_ascii raw && forallb all_ascii (mr_vals r)).

Definition rule_match (r : mrule) (raw : bytes) : bool :=
  let raw' := if mr_ci r then lower_ascii raw else raw in
  let hit := fun v : bytes =>
    let v' := if mr_ci r then lower_ascii v else v in
    if mr_mode r =? 0 then is_prefix v' raw'
    else if mr_mode r =? 1 then contains v' raw'
    else is_suffix v' raw' in
  xorb (mr_inv r) (existsb hit (mr_vals r)).

(* Three-valued: a rule without values was never prepared (Rule.Prepare returns early) and Rule.Match panics when
   it is REACHED; RuleSet.Match walks the rules in order and stops at the first match (or) / first non-match (and). *)
Inductive m3 := M3T | M3F | M3P.

Definition rule_match3 (r : mrule) (raw : bytes) : m3 :=
  match mr_vals r with
  | [] => M3P
  | _ => if rule_match r raw then M3T else M3F
  end.

Fixpoint rules_eval (or : bool) (rs : list mrule) (data : bytes) : m3 :=
  match rs with
  | [] => if or then M3F else M3T
  | r :: rs' =>
      match rule_match3 r data with
      | M3P => M3P
      | M3T => if or then M3T else rules_eval or rs' data
      | M3F => if or then rules_eval or rs' data else M3F
      end
  end.

Definition exc_match (e : mexc) (name ev : bytes) : option m3 :=
  let data := if me_name e then name else ev in
  if forallb (fun r => rule_in_model r data) (me_rules e) then
    Some (match me_rules e with
          | [] => M3F                                   (* len(rs.Rules) == 0: no match *)
          | _ => rules_eval (me_or e) (me_rules e) data
          end)
  else None.

(* IsSpam walks the exceptions in order: the first one that matches ends the call (Pass), one that panics ends it too *)
Fixpoint excs_eval (excs : list mexc) (name ev : bytes) : option m3 :=
  match excs with
  | [] => Some M3F
  | e :: r =>
      match exc_match e name ev with
      | None => None
      | Some M3F => excs_eval r name ev
      | Some v => match excs_eval r name ev with None => None | Some _ => Some v end
      end
  end.

Definition mrule_of_sx (s : sx) : option mrule :=
  match s with
  | SL [SZ mode; ci; inv; vals] =>
      match as_bool ci, as_bool inv, as_list as_B vals with
      | Some ci, Some inv, Some vs =>
          if (0 <=? mode) && (mode <=? 2) then Some {| mr_mode := mode; mr_ci := ci; mr_inv := inv; mr_vals := vs |}
          else None
      | _, _, _ => None
      end
  | _ => None
  end.

Definition mexc_of_sx (s : sx) : option mexc :=
  match s with
  | SL [nm; cond; rules] =>
      match as_bool nm, as_bool cond, as_list mrule_of_sx rules with
      | Some nm, Some cond, Some rules => Some {| me_name := nm; me_or := cond; me_rules := rules |}
      | _, _, _ => None
      end
  | _ => None
  end.

Definition mop4_of_sx (T : Z) (n : nat) (excs : list mexc) (s : sx) : option mop :=
  match s with
  | SL [SZ 0] => Some MMaint
  | SL [SZ 1; id; isNew; SZ t; SB name; SB ev] =>
      match as_nat id, as_bool isNew, excs_eval excs name ev with
      | Some id, Some isNew, Some m =>
          if (id <? n)%nat then
            Some (match m with
                  | M3P => if T =? -1 then MEv id Pass isNew t else MPanic   (* threshold -1: IsSpam returns first *)
                  | M3T => MEv id (resolve T None [true]) isNew t
                  | M3F => MEv id (resolve T None [false]) isNew t
                  end)
          else None
      | _, _, _ => None
      end
  | SL [SZ 1; id; isNew; SZ t; SB _; SB _; bits] =>
      match as_nat id, as_bool isNew, as_decision_bits bits with
      | Some id, Some isNew, Some bits =>
          if (id <? n)%nat && (length bits =? length excs)%nat
          then Some (MEv id (resolve T None bits) isNew t) else None
      | _, _, _ => None
      end
  | _ => None
  end.

Definition c20_ops_run (strong : bool) (cfg : acase) (ops : list mop) (obs : sx) : verdict :=
  let m := SL (map sx_of_mobs (snd (mrun (c_MI cfg) (c_U cfg) (repeat None (c_n cfg)) ops))) in
  let ok := match obs with SL os => all_sources strong cfg ops os (c_n cfg) | _ => false end in
  if ok then (if sx_eqb m obs then Agree else Differ m) else Violates m.

Definition c20_rules_run (case obs : sx) : verdict :=
  match case with
  | SL [SZ T; SZ MI; SZ U; n; excs; SL ops] =>
      match as_nat n, as_list mexc_of_sx excs with
      | Some n, Some excs =>
          match opt_map (mop4_of_sx T n excs) ops with
          | Some ops =>
              c20_ops_run false {| c_T := T; c_MI := MI; c_U := U; c_mode := 0; c_rthr := []; c_n := n |} ops obs
          | None => BadCase
          end
      | _, _ => BadCase
      end
  | _ => BadCase
  end.

(* ============================================================================================
   which = 5: the real pipeline with the CRI decoder, rows that differ in their time and stream.
     case = (max cutoff mark dec T U nsrc (op ...) MI)
       op = (0) Maintenance | (1 id isNew cur (soff_stdout soff_stderr soff_noname) stream hdr bytes valid t)
       stream 0 stdout | 1 stderr: the saved offset that counts is the one of the row's own stream
       hdr    length of the row header "<time> <stream> <tag> "
       t      the time IsSpam is handed for this row, in ns: the row time when it has the layout
              2006-01-02T15:04:05.999999999Z, the zero time.Time otherwise (computed by the generator)
     obs as which = 3.  A gap of two rows of one source is quick iff it is < MI (event times, not the clock). *)
Inductive pop5 :=
| P5Maint
| P5In (id : nat) (isNew : bool) (cur : Z) (soffs : list Z) (stream hdr : nat) (b : bytes) (valid t : Z).

Definition pop5_of_sx (s : sx) : option pop5 :=
  match s with
  | SL [SZ 0] => Some P5Maint
  | SL [SZ 1; id; isNew; SZ cur; soffs; stream; hdr; SB b; SZ valid; SZ t] =>
      match as_nat id, as_bool isNew, as_list as_Z soffs, as_nat stream, as_nat hdr with
      | Some id, Some isNew, Some soffs, Some stream, Some hdr => Some (P5In id isNew cur soffs stream hdr b valid t)
      | _, _, _, _, _ => None
      end
  | _ => None
  end.

Definition payload5 (dec valid : Z) (hdr : nat) (b' : bytes) : bytes :=
  if dec =? 0 then removelast b'
  else if dec =? 1 then strip_nl b'
  else if valid =? 2 then removelast (skipn hdr b') else skipn hdr b'.

Definition pstep5 (pc : pcase) (MI : Z) (ms : list (option src)) (o : pop5) : option (list (option src) * sx) :=
  match o with
  | P5Maint =>
      let ms' := map (maint_step (p_U pc)) ms in Some (ms', SL (map (fun s => SZ (obs_counter s)) ms'))
  | P5In id isNew cur soffs stream hdr b valid t =>
      match nth_error soffs stream with
      | None => None
      | Some soff =>
      let dok := fun b' : bytes =>
        if p_dec pc =? 1 then (valid =? 1) && N_eqb_list (strip_nl b') (strip_nl b) else true in
      let cri := fun _ : bytes =>
        if p_dec pc =? 2 then (if valid =? 0 then None else Some (valid =? 2)) else Some false in
      Some match in_stage1 (p_cfg pc) cri cur soff b with
      | S1Refused _ => (ms, SL [SZ 0])
      | S1Crash => (ms, SL [SZ 2])
      | S1Go b' cut consult =>
          let '(ms', spam) :=
            if consult then
              match nth_error ms id with
              | Some s =>
                  let '(s', v) := astep MI (p_U pc) s (Ev (resolve (p_T pc) None []) isNew t) in
                  (set_nth id s' ms, v)
              | None => (ms, false)
              end
            else (ms, false) in
          match in_stage2 (p_cfg pc) dok b' cut consult spam with
          | Delivered d mark => (ms', SL [SZ 1; SB (payload5 (p_dec pc) valid hdr d); of_bool mark])
          | _ => (ms', SL [SZ 0])
          end
      end
      end
  end.

Fixpoint prun5 (pc : pcase) (MI : Z) (ms : list (option src)) (ops : list pop5) : option (list sx) :=
  match ops with
  | [] => Some []
  | o :: r =>
      match pstep5 pc MI ms o with
      | Some (ms', x) => match prun5 pc MI ms' r with Some xs => Some (x :: xs) | None => None end
      | None => None
      end
  end.

Definition c20_pipe5_model (case : sx) : option sx :=
  match case with
  | SL [SZ max; cutoff; mark; SZ dec; SZ T; SZ U; n; SL ops; SZ MI] =>
      match as_bool cutoff, as_bool mark, as_nat n, opt_map pop5_of_sx ops with
      | Some cutoff, Some mark, Some n, Some ops =>
          let pc := {| p_cfg := {| max_size := max; cut_on := cutoff; mark_on := mark; as_thr := T;
                                   is_cri := dec =? 2 |};
                       p_dec := dec; p_T := T; p_U := U; p_n := n |} in
          if forallb (fun o => match o with P5In id _ _ _ _ _ _ _ _ => (id <? n)%nat | P5Maint => true end) ops
          then match prun5 pc MI (repeat None n) ops with Some xs => Some (SL xs) | None => None end
          else None
      | _, _, _, _ => None
      end
  | _ => None
  end.

(* ============================================================================================
   which = 6: the real pipeline with the options the streams above leave at their defaults.
     case = ((max cutoff mark dec T U nsrc nmeta) (streams meta_on pool spread auto) (op ...))
       dec      0 raw | 1 json | 2 cri | 3 postgres (rows "<header of hdr bytes>log", the decoder fails on garbage only)
       streams  0: Pipeline.DisableStreams() - the input's PassEvent is never asked
       meta_on  1: settings.SourceNameMetaField is set: an event whose meta carries the field is counted under the
                   meta VALUE (source key nsrc + meta, isNewSource forced to false), one without it under its source id
       pool / spread / auto: event pool type, UseSpread(), decoder "auto" resolved by SuggestDecoder / the default at
                   Start - they must not change what gets through (the model ignores them)
       op = (0) antispam Maintenance
          | (1 id isNew cur soff hdr bytes valid pass meta)
            pass  what the input's PassEvent answers ("already committed": false); meta -1 = the field is absent
     obs as which = 3, plus (4) = refused by the input's PassEvent (asked after the decoder accepted the event).
     Maintenance: the counters of the nsrc source ids, then of the nmeta meta values. *)
Inductive in_result3 := R3 (r : in_result) | RefusedByInput.

(* streamEvent: the input is asked only about an event that got through everything else, and only with streams on *)
Definition in_stage3 (streams_on pass : bool) (r : in_result) : in_result3 :=
  match r with
  | Delivered _ _ => if streams_on && negb pass then RefusedByInput else R3 r
  | _ => R3 r
  end.

Definition pipeline_in3 (c : in_cfg) (cri : bytes -> option bool) (decode_ok : bytes -> bool)
           (spam : bytes -> bool) (cur soff : Z) (b : bytes) (streams_on pass : bool) : in_result3 :=
  in_stage3 streams_on pass (pipeline_in c cri decode_ok spam cur soff b).

(* which antispam entry an event is counted under, and whether it may reset it *)
Definition source_key (meta_on : bool) (nsrc id : nat) (isNew : bool) (meta : Z) : nat * bool :=
  if meta_on && (0 <=? meta) then ((nsrc + Z.to_nat meta)%nat, false) else (id, isNew).

Inductive pop6 :=
| P6Maint
| P6In (id : nat) (isNew : bool) (cur soff : Z) (hdr : nat) (b : bytes) (valid : Z) (pass : bool) (meta : Z).

Definition pop6_of_sx (s : sx) : option pop6 :=
  match s with
  | SL [SZ 0] => Some P6Maint
  | SL [SZ 1; id; isNew; SZ cur; SZ soff; hdr; SB b; SZ valid; pass; SZ meta] =>
      match as_nat id, as_bool isNew, as_nat hdr, as_bool pass with
      | Some id, Some isNew, Some hdr, Some pass => Some (P6In id isNew cur soff hdr b valid pass meta)
      | _, _, _, _ => None
      end
  | _ => None
  end.

Definition pstep6 (pc : pcase) (streams_on meta_on : bool) (nsrc : nat) (ms : list (option src)) (o : pop6)
  : list (option src) * sx :=
  match o with
  | P6Maint =>
      let ms' := map (maint_step (p_U pc)) ms in (ms', SL (map (fun s => SZ (obs_counter s)) ms'))
  | P6In id isNew cur soff hdr b valid pass meta =>
      let '(key, isNew') := source_key meta_on nsrc id isNew meta in
      let dok := fun b' : bytes =>
        if p_dec pc =? 1 then (valid =? 1) && N_eqb_list (strip_nl b') (strip_nl b)
        else if p_dec pc =? 3 then negb (valid =? 0) else true in
      let cri := fun _ : bytes =>
        if p_dec pc =? 2 then (if valid =? 0 then None else Some (valid =? 2)) else Some false in
      match in_stage1 (p_cfg pc) cri cur soff b with
      | S1Refused _ => (ms, SL [SZ 0])
      | S1Crash => (ms, SL [SZ 2])
      | S1Go b' cut consult =>
          let '(ms', spam) :=
            if consult then
              match nth_error ms key with
              | Some s =>
                  let '(s', v) := astep 1 (p_U pc) s (Ev (resolve (p_T pc) None []) isNew' 0) in
                  (set_nth key s' ms, v)
              | None => (ms, false)
              end
            else (ms, false) in
          match in_stage3 streams_on pass (in_stage2 (p_cfg pc) dok b' cut consult spam) with
          | R3 (Delivered d mark) => (ms', SL [SZ 1; SB (payload5 (p_dec pc) valid hdr d); of_bool mark])
          | RefusedByInput => (ms', SL [SZ 4])
          | R3 _ => (ms', SL [SZ 0])
          end
      end
  end.

Fixpoint prun6 (pc : pcase) (streams_on meta_on : bool) (nsrc : nat) (ms : list (option src)) (ops : list pop6) : list sx :=
  match ops with
  | [] => []
  | o :: r => let '(ms', x) := pstep6 pc streams_on meta_on nsrc ms o in x :: prun6 pc streams_on meta_on nsrc ms' r
  end.

Definition c20_pipe6_model (case : sx) : option sx :=
  match case with
  | SL [SL [SZ max; cutoff; mark; SZ dec; SZ T; SZ U; nsrc; nmeta]; SL [streams; meta_on; SZ _; SZ _; SZ _]; SL ops] =>
      match as_bool cutoff, as_bool mark, as_nat nsrc, as_nat nmeta, as_bool streams, as_bool meta_on, opt_map pop6_of_sx ops with
      | Some cutoff, Some mark, Some nsrc, Some nmeta, Some streams, Some meta_on, Some ops =>
          let pc := {| p_cfg := {| max_size := max; cut_on := cutoff; mark_on := mark; as_thr := T;
                                   is_cri := dec =? 2 |};
                       p_dec := dec; p_T := T; p_U := U; p_n := (nsrc + nmeta)%nat |} in
          if forallb (fun o => match o with
                               | P6In id _ _ _ _ _ _ _ meta => (id <? nsrc)%nat && (meta <? Z.of_nat nmeta) && (-1 <=? meta)
                               | P6Maint => true end) ops
             && (0 <=? dec) && (dec <=? 3)
          then Some (SL (prun6 pc streams meta_on nsrc (repeat None (nsrc + nmeta)) ops)) else None
      | _, _, _, _, _, _, _ => None
      end
  | _ => None
  end.

(* ============================================================================================
   which = 7: the pipeline's OWN antispam maintenance goroutine (antispammerMaintenance: a ticker of
   Antispam.MaintenanceInterval) instead of rounds called by the harness.
     case = (T U n mi_ms)     n events of one source through In (raw decoder, all quick), then silence
     obs  = ((flag ...) (sample ...) final)
       flag    1 = In refused the event
       sample  the distinct successive values of the source's counter read while waiting (-1 = no entry), the first one
               taken right after the burst; the harness stops at the first -1 (or gives up)
       final   flag of one more event sent after the entry disappeared
   The rounds happen when the ticker fires, so the harness may miss a value: the samples must be a SUBSEQUENCE of the
   model's decay sequence (counter after the burst, after each round, ..., -1) and end with -1. *)
Fixpoint decay_seq (U : Z) (fuel : nat) (s : option src) : list Z :=
  match fuel with
  | O => []
  | S k =>
      let s' := maint_step U s in
      obs_counter s' :: match s' with None => [] | Some _ => decay_seq U k s' end
  end.

Fixpoint subseq (a b : list Z) {struct b} : bool :=
  match b with
  | [] => match a with [] => true | _ :: _ => false end
  | y :: b' =>
      match a with
      | [] => true
      | x :: a' => if x =? y then subseq a' b' else subseq a b'
      end
  end.

Definition c20_tick_run (case obs : sx) : verdict :=
  match case with
  | SL [SZ T; SZ U; SZ n; SZ _] =>
      let '(s, flags) := arun 1 U None (repeat (Ev (resolve T None []) false 0) (Z.to_nat n)) in
      let d := obs_counter s :: decay_seq U (Z.to_nat (Z.max U 0 + Z.max n 0 + 3)) s in
      let final := snd (astep 1 U None (Ev (resolve T None []) false 0)) in
      let m := SL [SL (map of_bool flags); SL (map SZ d); of_bool final] in
      match obs with
      | SL [SL fs; samples; f] =>
          match as_list as_Z samples with
          | Some smp =>
              if sx_eqb (SL fs) (SL (map of_bool flags)) && subseq smp d && (last smp 0 =? -1) && sx_eqb f (of_bool final)
              then Agree else Violates m
          | None => Violates m
          end
      | _ => Violates m
      end
  | _ => BadCase
  end.

(* ============================================================================================
   which = 8: the counter as the code keeps it - an atomic.Int32: Inc wraps, the ban value U*threshold and what a round
   stores are clamped to MaxInt32 (clampInt32, repair a92854d), comparisons are made in int. Same case / obs as which = 1.
   Proofs/AntispamCov.v: this model and the unbounded one above coincide on every run that is too short to leave the
   int32 range (arun32_exact), which is what the theorems about the unbounded model rest on. *)
Definition MAX32 : Z := 2147483647.
Definition wrap32 (z : Z) : Z := (z + 2147483648) mod 4294967296 - 2147483648.
Definition clamp32 (v : Z) : Z := if MAX32 <? v then MAX32 else wrap32 v.

Definition count_step32 (MI U thr : Z) (s : option src) (isNew : bool) (t : Z) : option src * bool :=
  let x0 := match s with Some x => x | None => {| counter := 0; ts := t; sthr := thr |} end in
  if isNew then (Some {| counter := 0; ts := ts x0; sthr := sthr x0 |}, false)
  else
    let x := if (t - ts x0) <? MI then wrap32 (counter x0 + 1) else counter x0 in
    (Some {| counter := if x =? thr then clamp32 (U * thr) else x; ts := t; sthr := sthr x0 |}, thr <=? x).

Definition maint_step32 (U : Z) (s : option src) : option src :=
  match s with
  | None => None
  | Some x =>
      if counter x =? 0 then None
      else
        let th := sthr x in
        let y := Z.max (counter x - th) 0 in
        Some {| counter := clamp32 (if U * th <? y then U * th else y); ts := ts x; sthr := th |}
  end.

Definition astep32 (MI U : Z) (s : option src) (o : aop) : option src * bool :=
  match o with
  | Ev Pass _ _ => (s, false)
  | Ev Block _ _ => (s, true)
  | Ev (Count thr) isNew t => count_step32 MI U thr s isNew t
  | Maint => (maint_step32 U s, false)
  end.

Fixpoint arun32 (MI U : Z) (s : option src) (ops : list aop) : option src * list bool :=
  match ops with
  | [] => (s, [])
  | o :: r =>
      let '(s1, v) := astep32 MI U s o in
      let '(s2, vs) := arun32 MI U s1 r in
      (s2, v :: vs)
  end.

Definition mstep32 (MI U : Z) (ms : list (option src)) (o : mop) : list (option src) * mobs :=
  match o with
  | MEv id d isNew t =>
      match nth_error ms id with
      | None => (ms, OFlag false)
      | Some s => let '(s', v) := astep32 MI U s (Ev d isNew t) in (set_nth id s' ms, OFlag v)
      end
  | MMaint => let ms' := map (maint_step32 U) ms in (ms', OCounters (map obs_counter ms'))
  | MPanic => (ms, OPanic)
  end.

Fixpoint mrun32 (MI U : Z) (ms : list (option src)) (ops : list mop) : list mobs :=
  match ops with
  | [] => []
  | o :: r => let '(ms1, v) := mstep32 MI U ms o in v :: mrun32 MI U ms1 r
  end.

Definition c20_as32_model (case : sx) : option sx :=
  match acase_of_sx case with
  | Some (cfg, ops) => Some (SL (map sx_of_mobs (mrun32 (c_MI cfg) (c_U cfg) (repeat None (c_n cfg)) ops)))
  | None => None
  end.

(* entry point of the model runner *)
Definition c20_entry (which : Z) (case obs : sx) : verdict :=
  match which with
  | 0 => match c20_admit_model case with Some m => exact_verdict m obs | None => BadCase end
  | 1 => c20_as_run false case obs
  | 2 => c20_as_run true case obs
  | 4 => c20_rules_run case obs
  | 5 => match c20_pipe5_model case with Some m => exact_verdict m obs | None => BadCase end
  | 6 => match c20_pipe6_model case with Some m => exact_verdict m obs | None => BadCase end
  | 7 => c20_tick_run case obs
  | 8 => match c20_as32_model case with Some m => exact_verdict m obs | None => BadCase end
  | 9 => (* case = ((group_len ...) <which = 1 case>): the ops of a group were run by different goroutines at once; the
            generator only groups calls whose every interleaving must look like the sequential run *)
         match case with SL [_; inner] => c20_as_run false inner obs | _ => BadCase end
  | _ => match c20_pipe_model case with Some m => exact_verdict m obs | None => BadCase end
  end.
