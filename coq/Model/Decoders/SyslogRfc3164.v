(* decoder/syslog_rfc3164.go  syslogRFC3164Decoder.Decode / validateTimestamp, line for line (as
   repaired by fixes/C12-syslog-rfc3164.patch: the byte after the closing bracket of the ProcID is
   read only if it exists).  No proofs here. *)
From Verif Require Import Base.Sx Base.GoSem Model.Decoders.Common Model.Decoders.Syslog.

Record s3164_row := { s3_pri : bytes; s3_fac : bytes; s3_sev : bytes; s3_ts : bytes; s3_host : bytes;
                      s3_app : bytes; s3_procid : bytes; s3_msg : bytes }.

Definition STAMP_LEN := 15.      (* len(time.Stamp) = len("Jan _2 15:04:05") *)

(* validates "Jan _2 15:04:05 " *)
Definition s3164_validate_timestamp (ts : bytes) : res bool :=
  if len ts <? STAMP_LEN + 1 then Ok false else
  c3 <- idx ts 3 ;; c6 <- idx ts 6 ;; c9 <- idx ts 9 ;; c12 <- idx ts 12 ;; c15 <- idx ts 15 ;;
  if negb (beq c3 SP && beq c6 SP && beq c9 58%N && beq c12 58%N && beq c15 SP) then Ok false else
  (* Mmm *)
  c0 <- idx ts 0 ;; c1 <- idx ts 1 ;; c2 <- idx ts 2 ;;
  if (c0 <? 65)%N || (90 <? c0)%N || (c1 <? 97)%N || (122 <? c1)%N || (c2 <? 97)%N || (122 <? c2)%N
  then Ok false else
  (* dd *)
  c4 <- idx ts 4 ;; c5 <- idx ts 5 ;;
  if negb ((beq c4 SP || is_digit c4) && is_digit c5) then Ok false else
  (* time *)
  hh <- slice ts 7 9 ;; mm <- slice ts 10 12 ;; ss <- slice ts 13 15 ;;
  if negb (check_number hh 0 23 && check_number mm 0 59 && check_number ss 0 59) then Ok false else
  Ok true.

Definition decode_s3164 (fac_str sev_str : bool) (data : bytes) : res s3164_row :=
  let data := trim_nl data in
  if len data =? 0 then Err E_FORMAT else
  (* priority *)
  ' (pri, offset) <- syslog_parse_priority data ;;
  priority <- slice data 1 offset ;;
  data <- slice_from data (offset + 1) ;;
  let fac := facility_of pri fac_str in
  let sev := severity_of pri sev_str in
  (* timestamp *)
  ok <- s3164_validate_timestamp data ;;
  if negb ok then Err E_TS else
  ts <- slice_to data STAMP_LEN ;;
  data <- slice_from data (STAMP_LEN + 1) ;;
  (* hostname *)
  let offset := index_byte data SP in
  if offset <? 0 then Err E_FORMAT else
  host <- slice_to data offset ;;
  data <- slice_from data (offset + 1) ;;
  (* appname *)
  let offset := index_any data [91%N; 58%N; SP] in                    (* "[: " *)
  if offset <? 0 then Err E_FORMAT else
  app <- slice_to data offset ;;
  data <- slice_from data offset ;;
  (* optional procid *)
  c0 <- idx data 0 ;;
  ' (procid, data) <-
    (if beq c0 91%N then
       let offset := index_byte data 93%N in                          (* ']' *)
       if (offset <? 0) || (len data <=? offset + 1) then Err E_FORMAT else
       c <- idx data (offset + 1) ;;
       if negb (beq c 58%N) then Err E_FORMAT else
       procid <- slice data 1 offset ;;
       d <- slice_from data (offset + 2) ;;
       Ok (procid, d)
     else d <- slice_from data 1 ;; Ok ([], d)) ;;
  (* message *)
  data <- (if 0 <? len data then
             c <- idx data 0 ;; if beq c SP then slice_from data 1 else Ok data
           else Ok data) ;;
  Ok {| s3_pri := priority; s3_fac := fac; s3_sev := sev; s3_ts := ts; s3_host := host;
        s3_app := app; s3_procid := procid; s3_msg := data |}.

Definition sx_s3164 (r : s3164_row) : sx :=
  SL [SB (s3_pri r); SB (s3_fac r); SB (s3_sev r); SB (s3_ts r); SB (s3_host r); SB (s3_app r);
      SB (s3_procid r); SB (s3_msg r)].
Definition s3164_model (fac_str sev_str : bool) (data : bytes) : sx :=
  sx_of_res sx_s3164 (decode_s3164 fac_str sev_str data).
