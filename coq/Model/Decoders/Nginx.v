(* decoder/nginx.go  nginxErrorDecoder.Decode / extractCustomFields / spaceSplit, line for line
   (unchanged code: no repair was needed).  No proofs here.
   External: the key test "contains only letters" (bytes.ContainsFunc + unicode.IsLetter on the
   UTF-8 runes of the key) is the parameter [only_letters]; totality holds for every such oracle,
   the runner instantiates it with the ASCII letter test (the harness keeps keys ASCII on the
   compared streams and checks that instance against the real library on every run). *)
From Verif Require Import Base.Sx Base.GoSem Model.Decoders.Common.

Record nginx_row := { ng_time : bytes; ng_level : bytes; ng_pid : bytes; ng_tid : bytes;
                      ng_cid : bytes; ng_msg : bytes; ng_fields : list (bytes * bytes) }.

(* error enum: 1 incorrect format, missing required fields | 2 incorrect log level format, too
   short | 3 incorrect log pid#tid format *)

(* for i := 0; i < len(b) && len(res) < limit; i++ { if b[i] == ' ' { res = append(res, i) } } *)
Fixpoint space_split_from (b : bytes) (i : Z) (limit : nat) : list Z :=
  match limit with
  | O => []
  | S k =>
      match b with
      | [] => []
      | c :: r => if beq c SP then i :: space_split_from r (i + 1) k
                  else space_split_from r (i + 1) limit
      end
  end.
Definition space_split (b : bytes) (limit : nat) : list Z := space_split_from b 0 limit.

(* for i := split[2]+1; i < split[3]; i++ : n = number of iterations left; pid / tid reversed *)
Fixpoint ng_pid_loop (n : nat) (data : bytes) (i : Z) (pidc : bool) (pid tid : bytes)
  : res (bool * bool * bytes * bytes) :=
  match n with
  | O => Ok (pidc, false, pid, tid)
  | S k =>
      c <- idx data i ;;
      if beq c 35%N then ng_pid_loop k data (i + 1) true pid tid            (* '#' *)
      else if beq c 58%N then Ok (pidc, true, pid, tid)                     (* ':' *)
      else if pidc then ng_pid_loop k data (i + 1) pidc pid (c :: tid)
      else ng_pid_loop k data (i + 1) pidc (c :: pid) tid
  end.

Section Nginx.
  Variable only_letters : bytes -> bool.

  (* for len(data) > 0 { sepIdx = LastIndex(data, ", ") ... data = data[:sepIdx] } *)
  Fixpoint ng_fields_loop (fuel : nat) (data : bytes) (fields : list (bytes * bytes))
    : res (bytes * list (bytes * bytes)) :=
    if len data <=? 0 then Ok (data, fields) else
    match fuel with
    | O => OutOfFuel
    | S f =>
        let sepIdx := last_index_sub data [44%N; SP] in
        if sepIdx =? -1 then Ok (data, fields) else
        field <- slice_from data (sepIdx + 2) ;;
        let i := index_byte field 58%N in
        if i =? -1 then Ok (data, fields) else
        key <- slice_to field i ;;
        if negb (only_letters key) then Ok (data, fields) else
        rest <- slice_from field (i + 1) ;;
        value <- (if 1 <? len rest then v <- slice_from field (i + 2) ;; Ok (trim_byte QUOTE v)
                  else Ok []) ;;
        data' <- slice_to data sepIdx ;;
        ng_fields_loop f data' (map_set fields key value)
    end.

  Definition ng_extract (with_custom : bool) (data : bytes) : res (bytes * list (bytes * bytes)) :=
    if negb with_custom then Ok (data, []) else ng_fields_loop (S (length data)) data [].

  Definition decode_nginx (with_custom : bool) (data : bytes) : res nginx_row :=
    let data := trim_nl data in
    let split := space_split data 5 in
    if len split <? 4 then Err 1 else
    s1 <- idx split 1 ;;
    time <- slice_to data s1 ;;
    s2 <- idx split 2 ;;
    if s2 - s1 <? 4 then Err 2 else
    level <- slice data (s1 + 2) (s2 - 1) ;;
    s3 <- idx split 3 ;;
    ' (pidc, tidc, pid, tid) <- ng_pid_loop (Z.to_nat (s3 - (s2 + 1))) data (s2 + 1) false [] [] ;;
    if negb (pidc && tidc) then Err 3 else
    let row := {| ng_time := time; ng_level := level; ng_pid := rev' pid; ng_tid := rev' tid;
                  ng_cid := []; ng_msg := []; ng_fields := [] |} in
    if len data <=? s3 + 1 then Ok row else
    let plain :=
      rest <- slice_from data (s3 + 1) ;;
      ' (msg, fs) <- ng_extract with_custom rest ;;
      Ok {| ng_time := time; ng_level := level; ng_pid := rev' pid; ng_tid := rev' tid;
            ng_cid := []; ng_msg := msg; ng_fields := fs |} in
    if 4 <? len split then
      c <- idx data (s3 + 1) ;;
      if beq c 42%N then                                                     (* '*' *)
        s4 <- idx split 4 ;;
        cid <- slice data (s3 + 2) s4 ;;
        if s4 + 1 <? len data then
          rest <- slice_from data (s4 + 1) ;;
          ' (msg, fs) <- ng_extract with_custom rest ;;
          Ok {| ng_time := time; ng_level := level; ng_pid := rev' pid; ng_tid := rev' tid;
                ng_cid := cid; ng_msg := msg; ng_fields := fs |}
        else Ok {| ng_time := time; ng_level := level; ng_pid := rev' pid; ng_tid := rev' tid;
                   ng_cid := cid; ng_msg := []; ng_fields := [] |}
      else plain
    else plain.
End Nginx.

(* ASCII instance of the key test *)
Definition ascii_letter (c : byte) : bool :=
  ((65 <=? c)%N && (c <=? 90)%N) || ((97 <=? c)%N && (c <=? 122)%N).
Definition ascii_only_letters (k : bytes) : bool := forallb ascii_letter k.

Definition sx_nginx (r : nginx_row) : sx :=
  SL [SB (ng_time r); SB (ng_level r); SB (ng_pid r); SB (ng_tid r); SB (ng_cid r); SB (ng_msg r);
      sx_kvs (ng_fields r)].
Definition nginx_model (with_custom : bool) (data : bytes) : sx :=
  sx_of_res sx_nginx (decode_nginx ascii_only_letters with_custom data).
