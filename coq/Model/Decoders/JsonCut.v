(* decoder/json.go  cutFieldsBySize (json_max_fields_size): the byte surgery only.
   gjson (third-party) is NOT modelled: for each configured path the harness hands over what
   gjson.GetBytes reported — Index (offset of the value's opening quote) and len(Str) (length of
   the UNESCAPED string) — and the model performs findPos + the cut on those numbers.
   JSON decoding proper (insane-json) and protobuf decoding are library code: not modelled.
   No proofs here. *)
From Verif Require Import Base.Sx Base.GoSem Model.Decoders.Common.

(* findPos: start = Index + limit + 1, end = Index + len(Str); cut iff len(Str) > limit *)
Definition json_cut_pos (index strlen limit : Z) : option (Z * Z) :=
  if strlen <=? limit then None else Some (index + limit + 1, index + strlen).

(* append(data[:start], data[end+1:]...) *)
Definition json_cut_at (data : bytes) (pos : Z * Z) : res bytes :=
  a <- slice_to data (fst pos) ;;
  b <- slice_from data (snd pos + 1) ;;
  Ok (a ++ b).

(* the fast way: exactly one configured path *)
Definition json_cut (data : bytes) (index strlen limit : Z) : res bytes :=
  match json_cut_pos index strlen limit with
  | None => Ok data
  | Some pos => json_cut_at data pos
  end.

(* several paths: positions sorted by descending start, cut one after the other *)
Fixpoint insert_desc (p : Z * Z) (l : list (Z * Z)) : list (Z * Z) :=
  match l with
  | [] => [p]
  | q :: r => if fst q <? fst p then p :: l else q :: insert_desc p r
  end.
Definition sort_desc (l : list (Z * Z)) : list (Z * Z) := fold_right insert_desc [] l.
Fixpoint json_cut_all (data : bytes) (ps : list (Z * Z)) : res bytes :=
  match ps with
  | [] => Ok data
  | p :: r => d <- json_cut_at data p ;; json_cut_all d r
  end.
Definition json_cut_many (data : bytes) (found : list (Z * Z * Z)) : res bytes :=
  json_cut_all data
    (sort_desc (flat_map (fun '(index, strlen, limit) =>
                            match json_cut_pos index strlen limit with Some p => [p] | None => [] end) found)).

(* what the clause "cut only the named string field and leave valid JSON" means at byte level:
   the document is  pre "raw" post  and the result is  pre "<a prefix of raw>" post *)
Definition cut_keeps_framing (pre raw post out : bytes) : Prop :=
  exists k, out = pre ++ QUOTE :: firstn k raw ++ QUOTE :: post.
