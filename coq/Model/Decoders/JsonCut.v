(* decoder/json.go  cutFieldsBySize (json_max_fields_size), as repaired by ed38629
   ("json_max_fields_size must cut the escaped string, not at its unescaped length"), a08bbd4 (a string
   named by two paths is cut once) and 86e6b5f (a path whose result is not a slice of the document is
   ignored).
   For each configured path the harness hands over what gjson.GetBytes reported that the model does
   not compute itself: Index (offset of the value's opening quote) and len(Str) (length of the
   UNESCAPED string; it only decides WHETHER the field is cut).  The raw (still escaped) text of the
   string - gjson's v.Raw without its two quotes - is found by the model itself: a JSON string ends at
   the first quote that is not preceded by an unpaired backslash ([json_raw_len]).  findPos, jsonCutKeep
   and the cut are modelled line for line on those numbers.
   JSON decoding proper (insane-json) and protobuf decoding are library code: not modelled.
   No proofs here. *)
From Verif Require Import Base.Sx Base.GoSem Model.Decoders.Common.

Definition BSLASH : byte := 92%N.
Definition LOWER_U : byte := 117%N.

(* the oracle values are inconsistent with the document (data[Index] is not a quote / the string that
   starts there is not terminated): not a Go panic, but excluded by the same theorems *)
Definition BadOracle {A} : res A := Panic 5.

(* ---- len(v.Raw) - 2 ------------------------------------------------------------------------------ *)
(* [l] = the document after the opening quote; length of the text before the closing quote *)
Fixpoint json_raw_len (l : bytes) (i : Z) : option Z :=
  match l with
  | [] => None
  | c :: r =>
      if beq c QUOTE then Some i
      else if beq c BSLASH then
        match r with
        | [] => None
        | _ :: r' => json_raw_len r' (i + 2)
        end
      else json_raw_len r (i + 1)
  end.

Definition json_raw_len_at (data : bytes) (index : Z) : option Z :=
  if (0 <=? index) && (index <? len data) then
    match skipn (Z.to_nat index) data with
    | q :: tail => if beq q QUOTE then json_raw_len tail 0 else None
    | [] => None
    end
  else None.

(* ---- jsonCutKeep ---------------------------------------------------------------------------------- *)
(* the loop  for i < limit { ... }  with rest = content[i:].  content[i] beyond the end is Go's
   index-out-of-range panic (unreachable from json_cut_keep, whose guard gives limit < len content) *)
Definition json_keep_end (i limit : Z) : res Z := if limit <=? i then Ok limit else Panic 2.

Fixpoint json_cut_keep_from (rest : bytes) (i limit : Z) : res Z :=
  match rest with
  | [] => json_keep_end i limit
  | c :: r =>
      if limit <=? i then Ok limit
      else if negb (beq c BSLASH) then json_cut_keep_from r (i + 1) limit
      else
        match r with
        | [] =>                                             (* i+1 < len(content) is false: n = 2 *)
            if limit <? i + 2 then Ok i else json_keep_end (i + 2) limit
        | u :: r1 =>
            if beq u LOWER_U then                           (* n = 6 *)
              if limit <? i + 6 then Ok i
              else match r1 with
                   | _ :: _ :: _ :: _ :: r2 => json_cut_keep_from r2 (i + 6) limit
                   | _ => json_keep_end (i + 6) limit
                   end
            else                                            (* n = 2 *)
              if limit <? i + 2 then Ok i else json_cut_keep_from r1 (i + 2) limit
        end
  end.

Definition json_cut_keep (content : bytes) (limit : Z) : res Z :=
  if len content <=? limit then Ok (len content) else json_cut_keep_from content 0 limit.

(* ---- findPos --------------------------------------------------------------------------------------- *)
(* one answer of gjson: Index, len(Str), the configured limit, Raw (the value as gjson returns it) *)
Definition jfound : Type := Z * Z * Z * bytes.

(* v.Index+len(v.Raw) > len(data) || string(data[v.Index:v.Index+len(v.Raw)]) != v.Raw  (86e6b5f): gjson
   leaves Index at 0 when the result is not a slice of the document (a|@this, multipaths) *)
Definition json_raw_at (data : bytes) (index : Z) (raw : bytes) : res bool :=
  if len data <? index + len raw then Ok false
  else s <- slice data index (index + len raw) ;; Ok (bytes_eqb s raw).

(* !v.Exists() || v.Type != String are decided by the caller (the glue drops such paths);
   cut iff len(Str) > limit and Raw stands at Index; rawLen = len(Raw) - 2, start = Index + keep + 1,
   end = Index + rawLen.  The model re-finds the closing quote of the string at Index itself and insists
   that gjson's Raw is exactly that string (BadOracle otherwise). *)
Definition json_cut_pos (data : bytes) (index strlen limit : Z) (raw : bytes) : res (option (Z * Z)) :=
  if strlen <=? limit then Ok None
  else
    here <- json_raw_at data index raw ;;
    if negb here then Ok None
    else
      let rawlen := len raw - 2 in
      match json_raw_len_at data index with
      | None => BadOracle
      | Some n =>
          if negb (n =? rawlen) then BadOracle
          else
            content <- slice data (index + 1) (index + 1 + rawlen) ;;
            keep <- json_cut_keep content limit ;;
            Ok (Some (index + keep + 1, index + rawlen))
      end.

(* append(data[:start], data[end+1:]...) *)
Definition json_cut_at (data : bytes) (pos : Z * Z) : res bytes :=
  a <- slice_to data (fst pos) ;;
  b <- slice_from data (snd pos + 1) ;;
  Ok (a ++ b).

(* the fast way: exactly one configured path *)
Definition json_cut (data : bytes) (index strlen limit : Z) (raw : bytes) : res bytes :=
  p <- json_cut_pos data index strlen limit raw ;;
  match p with
  | None => Ok data
  | Some pos => json_cut_at data pos
  end.

(* several paths: every position is found on the ORIGINAL document, then the positions are sorted by
   descending start and cut one after the other (a string named twice: once) *)
Fixpoint insert_desc (p : Z * Z) (l : list (Z * Z)) : list (Z * Z) :=
  match l with
  | [] => [p]
  | q :: r => if fst q <? fst p then p :: l else q :: insert_desc p r
  end.
Definition sort_desc (l : list (Z * Z)) : list (Z * Z) := fold_right insert_desc [] l.
Fixpoint json_find_all (data : bytes) (found : list jfound) : res (list (Z * Z)) :=
  match found with
  | [] => Ok []
  | (index, strlen, limit, raw) :: r =>
      p <- json_cut_pos data index strlen limit raw ;;
      ps <- json_find_all data r ;;
      Ok (match p with Some p => p :: ps | None => ps end)
  end.
(* for i, p := range cutPositions { if i+1 < len && cutPositions[i+1].end == p.end { continue }; cut p }
   (a08bbd4): two paths may name the same string (a and \a); its positions have the same end and are
   adjacent after the sort; only the last of them - the smallest start - is cut *)
Fixpoint json_cut_all (data : bytes) (ps : list (Z * Z)) : res bytes :=
  match ps with
  | [] => Ok data
  | p :: r =>
      match r with
      | q :: _ => if snd q =? snd p then json_cut_all data r
                  else d <- json_cut_at data p ;; json_cut_all d r
      | [] => d <- json_cut_at data p ;; json_cut_all d r
      end
  end.
Definition json_cut_many (data : bytes) (found : list jfound) : res bytes :=
  ps <- json_find_all data found ;;
  json_cut_all data (sort_desc ps).

(* ---- what the clause means at byte level ---------------------------------------------------------- *)
(* the escaped content of a valid JSON string (RFC 8259 string grammar, UTF-8 well-formedness aside, as
   for encoding/json.Valid and gjson.Valid): no bare quote, no control character, every backslash
   starts a two-byte escape (backslash + one of  quote \ / b f n r t)  or a six-byte escape  \uXXXX *)
Definition is_hex (c : byte) : bool :=
  ((48 <=? c) && (c <=? 57) || (65 <=? c) && (c <=? 70) || (97 <=? c) && (c <=? 102))%N.
Definition is_simple_escape (c : byte) : bool :=
  mem_byte c [34; 92; 47; 98; 102; 110; 114; 116]%N.

Fixpoint esc_valid (l : bytes) : bool :=
  match l with
  | [] => true
  | c :: r =>
      if beq c QUOTE then false
      else if (c <? 32)%N then false
      else if beq c BSLASH then
        match r with
        | [] => false
        | e :: r1 =>
            if beq e LOWER_U then
              match r1 with
              | h1 :: h2 :: h3 :: h4 :: r2 => is_hex h1 && is_hex h2 && is_hex h3 && is_hex h4 && esc_valid r2
              | _ => false
              end
            else is_simple_escape e && esc_valid r1
        end
      else esc_valid r
  end.

(* Raw occurs in the document at offset index *)
Definition raw_occurs_at (data : bytes) (index : Z) (raw : bytes) : Prop :=
  exists a b, data = a ++ raw ++ b /\ len a = index.

(* how many bytes of the raw text of a string survive: all of them when the unescaped length fits *)
Definition json_kept (raw : bytes) (strlen limit : Z) : nat :=
  if strlen <=? limit then length raw
  else match json_cut_keep raw limit with Ok k => Z.to_nat k | _ => length raw end.

(* the document is  pre "raw" post  and the result is  pre "<a prefix of raw>" post *)
Definition cut_keeps_framing (pre raw post out : bytes) : Prop :=
  exists k, out = pre ++ QUOTE :: firstn k raw ++ QUOTE :: post.

(* a document with several string values:  pre "raw1" post1 "raw2" post2 ... *)
Fixpoint json_fields_doc (fs : list (bytes * bytes)) : bytes :=
  match fs with
  | [] => []
  | (raw, post) :: r => QUOTE :: raw ++ QUOTE :: post ++ json_fields_doc r
  end.

(* several limited strings: (raw text, the bytes that follow it up to the next one, len(Str), a limit,
   further limits given for the SAME string by other paths); the document, what gjson reports (one
   answer per path, Raw = the quoted text; the first opening quote is at offset [at_]), the result: every string is cut by the
   smallest of its limits *)
Definition jfield : Type := bytes * bytes * Z * Z * list Z.
Definition jf_limit (limit : Z) (more : list Z) : Z := fold_right Z.min limit more.
Definition jf_doc (fs : list jfield) : bytes :=
  json_fields_doc (map (fun '(raw, post, _, _, _) => (raw, post)) fs).
Definition jf_cut (fs : list jfield) : bytes :=
  json_fields_doc (map (fun '(raw, post, strlen, limit, more) =>
                          (firstn (json_kept raw strlen (jf_limit limit more)) raw, post)) fs).
Fixpoint jf_found (at_ : Z) (fs : list jfield) : list jfound :=
  match fs with
  | [] => []
  | (raw, post, strlen, limit, more) :: r =>
      @map Z jfound (fun l => (at_, strlen, l, QUOTE :: raw ++ [QUOTE])) (limit :: more)
      ++ jf_found (at_ + len raw + 2 + len post) r
  end.
Definition jf_ok (f : jfield) : Prop :=
  let '(raw, _, _, limit, more) := f in esc_valid raw = true /\ 0 <= limit /\ Forall (fun l => 0 <= l) more.

(* the strings of fs shortened to their first ks bytes *)
Fixpoint cut_doc (fs : list (bytes * bytes)) (ks : list nat) : bytes :=
  match fs, ks with
  | (raw, post) :: r, k :: ks' => QUOTE :: firstn k raw ++ QUOTE :: post ++ cut_doc r ks'
  | _, _ => []
  end.
Definition jf_pairs (fs : list jfield) : list (bytes * bytes) := map (fun '(raw, post, _, _, _) => (raw, post)) fs.

(* ---- the executable form of "only the named strings were shortened" (the runner's verdict) ------- *)
(* [fs] = the named strings in document order with the bytes that follow each;
   true iff out = "p1" post1 "p2" post2 ... for some prefixes p_i of raw_i *)
Fixpoint strip_prefix (p l : bytes) : option bytes :=
  match p, l with
  | [], _ => Some l
  | _ :: _, [] => None
  | a :: p', b :: l' => if beq a b then strip_prefix p' l' else None
  end.

(* out = <a prefix of raw> QUOTE post out' with [k out'] *)
Fixpoint field_framed (k : bytes -> bool) (post raw out : bytes) : bool :=
  (match strip_prefix (QUOTE :: post) out with
   | Some out' => k out'
   | None => false
   end)
  || match raw, out with
     | c :: raw', d :: out' => beq c d && field_framed k post raw' out'
     | _, _ => false
     end.

Fixpoint fields_framed (fs : list (bytes * bytes)) (out : bytes) : bool :=
  match fs with
  | [] => match out with [] => true | _ :: _ => false end
  | (raw, post) :: r =>
      match out with
      | q :: out0 => beq q QUOTE && field_framed (fields_framed r) post raw out0
      | [] => false
      end
  end.

(* the named strings of a document: (index, raw length), ascending and without duplicates *)
Fixpoint insert_asc (p : Z * Z) (l : list (Z * Z)) : list (Z * Z) :=
  match l with
  | [] => [p]
  | q :: r => if fst p <? fst q then p :: l else if fst p =? fst q then l else q :: insert_asc p r
  end.

(* split data (which starts at offset [at]) at the named strings; None when they overlap or lie outside *)
Fixpoint split_fields (data : bytes) (at_ : Z) (strs : list (Z * Z)) : option (bytes * list (bytes * bytes)) :=
  match strs with
  | [] => Some (data, [])
  | (index, rawlen) :: r =>
      let n := Z.to_nat (index - at_) in
      if (at_ <=? index) && (0 <=? rawlen) && (index - at_ + rawlen + 2 <=? len data) then
        let pre := firstn n data in
        let raw := firstn (Z.to_nat rawlen) (skipn (S n) data) in
        let rest := skipn (S (S n) + Z.to_nat rawlen) data in
        match split_fields rest (index + rawlen + 2) r with
        | Some (post, fs) => Some (pre, (raw, post) :: fs)
        | None => None
        end
      else None
  end.

(* an answer whose Raw does not stand at Index names nothing in place *)
Definition json_named_strings (data : bytes) (found : list jfound) : option (list (Z * Z)) :=
  fold_right (fun '(index, _, _, raw) acc =>
                match acc, json_raw_at data index raw with
                | Some l, Ok true =>
                    match json_raw_len_at data index with
                    | Some rawlen => if rawlen =? len raw - 2 then Some (insert_asc (index, rawlen) l) else None
                    | None => None
                    end
                | Some l, Ok false => Some l
                | _, _ => None
                end) (Some []) found.

Definition json_cut_framed (data : bytes) (found : list jfound) (out : bytes) : option bool :=
  match json_named_strings data found with
  | Some strs =>
      match split_fields data 0 strs with
      | Some (pre, fs) =>
          Some (match strip_prefix pre out with
                | Some out' => fields_framed fs out'
                | None => false
                end)
      | None => None
      end
  | None => None
  end.
