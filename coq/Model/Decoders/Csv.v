(* decoder/csv.go  CSVDecoder.Decode / CheckInvalidLine, line for line (as repaired by
   fixes/C12-csv.patch: an empty rest is an empty last field, a closing quote at the very end
   of the data ends the record).  No proofs here.
   External: bytes.TrimSpace (Unicode white space) is the parameter [trim_space]; totality holds
   for every such function, the runner instantiates it with the ASCII white-space trim (the
   harness keeps the compared streams ASCII and checks that instance against the real library). *)
From Verif Require Import Base.Sx Base.GoSem Model.Decoders.Common.

(* error enum: 1 missing quote in non-quoted field | 2 invalid non-escaped quote |
   3 missing quote in quoted field | 4 wrong number of fields *)

(* str[preIdx:idx] for consecutive fieldIndexes *)
Fixpoint cut_fields (str : bytes) (pre : Z) (idxs : list Z) : res (list bytes) :=
  match idxs with
  | [] => Ok []
  | i :: r => f <- slice str pre i ;; fs <- cut_fields str i r ;; Ok (f :: fs)
  end.

Section Csv.
  Variable trim_space : bytes -> bytes.
  Variable delim : byte.

  (* the parseField loop; quoted = inside the inner loop of a quoted field.
     rb = recordBuffer, idxs = fieldIndexes *)
  Fixpoint csv_loop (fuel : nat) (quoted : bool) (data rb : bytes) (idxs : list Z)
      : res (bytes * list Z) :=
    match fuel with
    | O => OutOfFuel
    | S f =>
        if quoted then
          let i := index_byte data QUOTE in
          if i <? 0 then Err 3 else
          (* hit next quote *)
          pre <- slice_to data i ;;
          let rb := rb ++ pre in
          data <- slice_from data (i + 1) ;;
          if len data =? 0 then Ok (rb, idxs ++ [len rb]) else         (* quote at the very end *)
          rn <- idx data 0 ;;
          if beq rn QUOTE then
            d <- slice_from data 1 ;; csv_loop f true d (rb ++ [QUOTE]) idxs
          else if beq rn delim then
            d <- slice_from data 1 ;; csv_loop f false d rb (idxs ++ [len rb])
          else if (len data =? 1) && beq rn NL then Ok (rb, idxs ++ [len rb])
          else Err 2
        else
          isq <- (if len data =? 0 then Ok false else c <- idx data 0 ;; Ok (beq c QUOTE)) ;;
          if negb isq then
            (* non-quoted string field *)
            let i := index_byte data delim in
            field <- (if 0 <=? i then slice_to data i else Ok (trim_space data)) ;;
            if 0 <=? index_byte field QUOTE then Err 1 else
            let rb := rb ++ field in
            let idxs := idxs ++ [len rb] in
            if 0 <=? i then d <- slice_from data (i + 1) ;; csv_loop f false d rb idxs
            else Ok (rb, idxs)
          else
            (* quoted string field *)
            d <- slice_from data 1 ;; csv_loop f true d rb idxs
    end.

  Definition decode_csv (data : bytes) : res (list bytes) :=
    if len data =? 0 then Ok [] else
    let n := len data in
    (* CRLF -> LF, in place inside the line *)
    data <- (if 2 <=? n then
               c1 <- idx data (n - 2) ;; c2 <- idx data (n - 1) ;;
               if beq c1 13%N && beq c2 NL then pre <- slice_to data (n - 2) ;; Ok (pre ++ [NL])
               else Ok data
             else Ok data) ;;
    ' (rb, idxs) <- csv_loop (S (length data)) false data [] [] ;;
    cut_fields rb 0 idxs.

  (* Decode followed by CheckInvalidLine (modes "default" and "continue"; "fatal" exits the process) *)
  Definition decode_csv_checked (ncols : Z) (continue_mode : bool) (data : bytes) : res (list bytes) :=
    row <- decode_csv data ;;
    if negb (ncols =? 0) && negb (len row =? ncols) && negb continue_mode then Err 4 else Ok row.

  (* the same with all three modes of invalid_line_mode: 1 "continue", 2 "fatal", anything else ("default", an unknown
     word; 0 and 3 in the exchange format) takes the default branch of the switch.  "fatal" is logger.Fatalf - the process
     ends by configuration, not by a crash: the distinguished error 5 (the harness' logger records it) *)
  Definition decode_csv_mode (ncols mode : Z) (data : bytes) : res (list bytes) :=
    row <- decode_csv data ;;
    if negb (ncols =? 0) && negb (len row =? ncols) then
      (if mode =? 2 then Err 5 else if mode =? 1 then Ok row else Err 4)
    else Ok row.
End Csv.

(* ASCII instance of bytes.TrimSpace: '\t' '\n' '\v' '\f' '\r' ' ' *)
Definition ascii_space (c : byte) : bool := ((9 <=? c)%N && (c <=? 13)%N) || beq c SP.
Fixpoint drop_space (l : bytes) : bytes :=
  match l with [] => [] | x :: r => if ascii_space x then drop_space r else l end.
Definition ascii_trim_space (l : bytes) : bytes := rev' (drop_space (rev' (drop_space l))).

(* "f1,f2,...,fn" *)
Fixpoint csv_line (delim : byte) (fields : list bytes) : bytes :=
  match fields with
  | [] => []
  | [f] => f
  | f :: r => f ++ delim :: csv_line delim r
  end.

Definition csv_model (delim : byte) (ncols : Z) (continue_mode : bool) (data : bytes) : sx :=
  sx_of_res (fun row => SL (map SB row)) (decode_csv_checked ascii_trim_space delim ncols continue_mode data).
Definition csv_model_mode (delim : byte) (ncols mode : Z) (data : bytes) : sx :=
  sx_of_res (fun row => SL (map SB row)) (decode_csv_mode ascii_trim_space delim ncols mode data).
