(* How a pipeline comes to the decoder Pipeline.In runs (the mechanism "Pipeline.In selects the decoder"):
     decoder/decoder.go      TypeFromString, New
     pipeline/pipeline.go    New (233-242: TypeFromString(settings.Decoder), Fatal on NO, decoder.New, Fatal on error),
                             SuggestDecoder (913-924), Start (345-351: an unresolved AUTO becomes JSON built with nil params),
                             the switch of In (501-516)
   decoder.Type: 0 NO | 1 AUTO | 2 JSON | 3 RAW | 4 CRI | 5 POSTGRES | 6 NGINX_ERROR | 7 PROTOBUF | 8 SYSLOG_RFC3164 |
                 9 SYSLOG_RFC5424 | 10 CSV.   No proofs here. *)
From Verif Require Import Base.Sx Base.GoSem Model.Decoders.Common Model.Decoders.ToJson.

Definition type_names : list (bytes * Z) :=
  [ (nm [106;115;111;110] (* json *), 2); (nm [114;97;119] (* raw *), 3); (nm [99;114;105] (* cri *), 4);
    (nm [112;111;115;116;103;114;101;115] (* postgres *), 5);
    (nm [110;103;105;110;120;95;101;114;114;111;114] (* nginx_error *), 6);
    (nm [112;114;111;116;111;98;117;102] (* protobuf *), 7);
    (nm [115;121;115;108;111;103;95;114;102;99;51;49;54;52] (* syslog_rfc3164 *), 8);
    (nm [115;121;115;108;111;103;95;114;102;99;53;52;50;52] (* syslog_rfc5424 *), 9);
    (nm [99;115;118] (* csv *), 10); (nm [97;117;116;111] (* auto *), 1) ].

(* TypeFromString: a switch over the ten names, default NO *)
Fixpoint lookup_name (tbl : list (bytes * Z)) (s : bytes) : Z :=
  match tbl with
  | [] => 0
  | (n, t) :: r => if bytes_eqb s n then t else lookup_name r s
  end.
Definition type_from_string (s : bytes) : Z := lookup_name type_names s.

(* the configuration name of a type (what the harness writes into Settings.Decoder); [] for anything else *)
Fixpoint name_of (tbl : list (bytes * Z)) (t : Z) : bytes :=
  match tbl with
  | [] => []
  | (n, t') :: r => if t =? t' then n else name_of r t
  end.
Definition type_name (t : Z) : bytes := name_of type_names t.

(* decoder.New: a decoder object of that type | (nil, nil) | an error.
   [pok t] = the constructor of decoder t accepts the DecoderParams it is given *)
Inductive new_res := NewDec (t : Z) | NewNil | NewErr.

Definition has_decoder_object (t : Z) : bool :=
  (t =? 2) || (t =? 6) || (t =? 7) || (t =? 8) || (t =? 9) || (t =? 10).
Definition decoder_new (pok : Z -> bool) (t : Z) : new_res :=
  if has_decoder_object t then (if pok t then NewDec t else NewErr)
  else if (t =? 3) || (t =? 4) || (t =? 5) || (t =? 1) then NewNil
  else NewErr.

(* the fields of Pipeline that In reads; ps_params = the decoder was built from Settings.DecoderParams (Start's JSON
   fallback passes nil) *)
Record pstate := { ps_type : Z; ps_dec : new_res; ps_params : bool }.

(* None = logger.Fatal (the process does not start) *)
Definition pipe_new (pok : Z -> bool) (name : bytes) : option pstate :=
  let t := type_from_string name in
  if t =? 0 then None
  else match decoder_new pok t with
       | NewErr => None
       | d => Some {| ps_type := t; ps_dec := d; ps_params := true |}
       end.

Definition pipe_suggest (pok : Z -> bool) (st : pstate) (s : Z) : option pstate :=
  if negb (ps_type st =? 1) || (s =? 0) then Some st
  else match decoder_new pok s with
       | NewErr => None
       | d => Some {| ps_type := s; ps_dec := d; ps_params := true |}
       end.

Fixpoint pipe_suggest_all (pok : Z -> bool) (st : pstate) (ss : list Z) : option pstate :=
  match ss with
  | [] => Some st
  | s :: r => match pipe_suggest pok st s with Some st' => pipe_suggest_all pok st' r | None => None end
  end.

Definition pipe_start (st : pstate) : pstate :=
  if ps_type st =? 1 then {| ps_type := 2; ps_dec := NewDec 2; ps_params := false |} else st.

Definition pipe_resolve (pok : Z -> bool) (name : bytes) (suggested : list Z) : option pstate :=
  match pipe_new pok name with
  | Some st => match pipe_suggest_all pok st suggested with
               | Some st' => Some (pipe_start st')
               | None => None
               end
  | None => None
  end.

(* the switch of In: p.decoder.DecodeToJson | RAW | CRI (decoded before the event is taken) | DecodePostgresToJson |
   default: p.logger.Panic("unknown decoder") *)
Inductive route := RDecoder | RRaw | RCri | RPostgres | RUnknown.
Definition in_route (t : Z) : route :=
  if has_decoder_object t then RDecoder
  else if t =? 3 then RRaw else if t =? 4 then RCri else if t =? 5 then RPostgres else RUnknown.

(* which 40: case = #name, obs = (type 0) New gave (nil, nil) | (type 1 t') a decoder whose Type() is t' | (type 2) an error *)
Definition select_model (name : bytes) : sx :=
  let t := type_from_string name in
  match decoder_new (fun _ => true) t with
  | NewDec t' => SL [SZ t; SZ 1; SZ t']
  | NewNil => SL [SZ t; SZ 0]
  | NewErr => SL [SZ t; SZ 2]
  end.
