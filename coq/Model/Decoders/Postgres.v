(* decoder/postgres.go  DecodePostgres, line for line (as repaired by fixes/C12-postgres.patch:
   pid needs pos >= 1, each credential needs its end after its '=', the log needs pos+2 <= len).
   No proofs here. *)
From Verif Require Import Base.Sx Base.GoSem Model.Decoders.Common.

Definition LBRACK : byte := 91%N.    (* [ *)
Definition RBRACK : byte := 93%N.    (* ] *)
Definition EQUALS : byte := 61%N.    (* = *)
Definition COMMA : byte := 44%N.     (* , *)

Record pg_row := { pg_time : bytes; pg_pid : bytes; pg_num : bytes; pg_client : bytes;
                   pg_db : bytes; pg_user : bytes; pg_log : bytes }.

(* error enum: 1 timestamp is not found | 2 pid is not found | 3 pid message number start |
   4 pid message number end | 5 client start | 6 client end | 7 db start | 8 db end |
   9 user start | 10 user end | 11 log is not found *)

(* one "key=value<end>" credential: openPos = IndexByte(data,'='); pos = IndexByte(data,end);
   value = data[openPos+1:pos]; data = data[pos+1:] *)
Definition pg_cred (data : bytes) (endc : byte) (e_start e_end : Z) : res (bytes * bytes) :=
  let openPos := index_byte data EQUALS in
  if openPos <? 0 then Err e_start else
  let pos := index_byte data endc in
  if (pos <? 0) || (pos <? openPos) then Err e_end else
  v <- slice data (openPos + 1) pos ;;
  d <- slice_from data (pos + 1) ;;
  Ok (v, d).

Definition decode_postgres (data : bytes) : res pg_row :=
  (* time: three space separated tokens. Go appends them onto data[:pos] in place, which rewrites
     the same bytes at the same positions; the value is the concatenation *)
  let pos := index_byte data SP in
  if pos <? 0 then Err 1 else
  t1 <- slice_to data pos ;;
  data <- slice_from data (pos + 1) ;;
  let pos := index_byte data SP in
  if pos <? 0 then Err 1 else
  t2 <- slice_to data pos ;;
  data <- slice_from data (pos + 1) ;;
  let pos := index_byte data SP in
  if pos <? 0 then Err 1 else
  t3 <- slice_to data pos ;;
  data <- slice_from data (pos + 1) ;;
  let time := t1 ++ SP :: t2 ++ SP :: t3 in
  (* pid *)
  let pos := index_byte data RBRACK in
  if pos <? 1 then Err 2 else
  pid <- slice data 1 pos ;;
  data <- slice_from data (pos + 1) ;;
  (* pid message number *)
  let pos := index_byte data LBRACK in
  if pos <? 0 then Err 3 else
  data <- slice_from data (pos + 1) ;;
  let pos := index_byte data RBRACK in
  if pos <? 0 then Err 4 else
  num <- slice_to data pos ;;
  data <- slice_from data (pos + 1) ;;
  ' (client, data) <- pg_cred data COMMA 5 6 ;;
  ' (db, data) <- pg_cred data COMMA 7 8 ;;
  ' (user, data) <- pg_cred data SP 9 10 ;;
  (* log *)
  let pos := index_byte data SP in
  if (pos <? 0) || (len data <? pos + 2) then Err 11 else
  log <- slice_from data (pos + 2) ;;
  Ok {| pg_time := time; pg_pid := pid; pg_num := num; pg_client := client; pg_db := db;
        pg_user := user; pg_log := log |}.

(* "<t1> <t2> <t3> [<pid>] <sep>[<num>] <k1>=<client>,<k2>=<db>,<k3>=<user> <level>  <log>" *)
Definition pg_line (t1 t2 t3 pid sep num k1 client k2 db k3 user level log : bytes) : bytes :=
  t1 ++ SP :: t2 ++ SP :: t3 ++ SP :: LBRACK :: pid ++ RBRACK :: sep ++ LBRACK :: num ++ RBRACK ::
  k1 ++ EQUALS :: client ++ COMMA :: k2 ++ EQUALS :: db ++ COMMA :: k3 ++ EQUALS :: user ++ SP ::
  level ++ SP :: SP :: log.

Definition sx_pg (r : pg_row) : sx :=
  SL [SB (pg_time r); SB (pg_pid r); SB (pg_num r); SB (pg_client r); SB (pg_db r); SB (pg_user r); SB (pg_log r)].
Definition pg_model (data : bytes) : sx := sx_of_res sx_pg (decode_postgres data).
