(* The parameter checks of the decoder constructors, line for line:
     decoder/json.go extractJsonParams + common.go anyToInt, nginx.go extractNginxErrorParams, syslog.go
     extractSyslogParams / syslogPriorityFormatValidate, csv.go extractCSVParams / validDelim, protobuf.go
     extractProtobufParams and the three failures of NewProtobufDecoder after it.
   A Params value (map[string]any) travels as ((#key value) ...) with distinct keys; a value (Go `any`) is
     (0 #s) string | (1 n) int | (2 b) bool | (3 v ...) []any | (4 (#k v) ...) map[string]any | (5 n) float64 n/2 |
     (6 #s) json.Number | (7) nil | (8 #s ...) []string (a slice, but not a []any)
   No proofs here (Proofs/Decoders/Params.v). *)
From Verif Require Import Base.Sx Base.GoSem Model.Decoders.Common Model.Decoders.ToJson.

Definition K_json_max_fields_size : bytes := nm [106;115;111;110;95;109;97;120;95;102;105;101;108;100;115;95;115;105;122;101].
Definition K_nginx_with_custom_fields : bytes := nm [110;103;105;110;120;95;119;105;116;104;95;99;117;115;116;111;109;95;102;105;101;108;100;115].
Definition K_syslog_facility_format : bytes := nm [115;121;115;108;111;103;95;102;97;99;105;108;105;116;121;95;102;111;114;109;97;116].
Definition K_syslog_severity_format : bytes := nm [115;121;115;108;111;103;95;115;101;118;101;114;105;116;121;95;102;111;114;109;97;116].
Definition K_columns : bytes := nm [99;111;108;117;109;110;115].
Definition K_prefix : bytes := nm [112;114;101;102;105;120].
Definition K_invalid_line_mode : bytes := nm [105;110;118;97;108;105;100;95;108;105;110;101;95;109;111;100;101].
Definition K_delimiter : bytes := nm [100;101;108;105;109;105;116;101;114].
Definition K_proto_file : bytes := nm [112;114;111;116;111;95;102;105;108;101].
Definition K_proto_message : bytes := nm [112;114;111;116;111;95;109;101;115;115;97;103;101].
Definition K_proto_import_paths : bytes := nm [112;114;111;116;111;95;105;109;112;111;114;116;95;112;97;116;104;115].
Definition K_number : bytes := nm [110;117;109;98;101;114].
Definition K_string : bytes := nm [115;116;114;105;110;103].
Definition K_default : bytes := nm [100;101;102;97;117;108;116].

(* params[key] *)
Fixpoint par_get (ps : list sx) (key : bytes) : option sx :=
  match ps with
  | [] => None
  | SL [SB k; v] :: r => if bytes_eqb k key then Some v else par_get r key
  | _ :: r => par_get r key
  end.

(* v.([]any) = as_tagged 3, v.(map[string]any) = as_tagged 4: the members *)
Definition as_tagged (tag : Z) (v : sx) : option (list sx) :=
  match v with SL (SZ t :: r) => if t =? tag then Some r else None | _ => None end.

(* v.(string), v.(bool) *)
Definition any_string (v : sx) : option bytes := match v with SL [SZ 0; SB s] => Some s | _ => None end.
Definition any_bool (v : sx) : option bool :=
  match v with SL [SZ 2; SZ 0] => Some false | SL [SZ 2; SZ 1] => Some true | _ => None end.

(* json.Number.Int64 = strconv.ParseInt(s, 10, 64): an optional sign, one or more digits, the int64 range *)
Definition parse_int64 (s : bytes) : option Z :=
  let '(neg, digits) := match s with
                        | c :: r => if beq c 45%N then (true, r) else if beq c 43%N then (false, r) else (false, s)
                        | [] => (false, s)
                        end in
  match atoi digits with
  | Some x => let v := if neg then - x else x in
              if (- 9223372036854775808 <=? v) && (v <=? 9223372036854775807) then Some v else None
  | None => None
  end.

(* anyToInt: int | float64 (truncated toward zero) | json.Number *)
Definition any_to_int (v : sx) : option Z :=
  match v with
  | SL [SZ 1; SZ n] => Some n
  | SL [SZ 5; SZ n] => Some (Z.quot n 2)
  | SL [SZ 6; SB s] => parse_int64 s
  | _ => None
  end.

(* ---- json: 1 must be map | 2 each value must be int | 3 each value must not be negative -------------------- *)
Fixpoint json_limits (entries : list sx) : res (list (bytes * Z)) :=
  match entries with
  | [] => Ok []
  | SL [SB k; v] :: r =>
      match any_to_int v with
      | None => Err 2
      | Some n => if n <? 0 then Err 3 else rest <- json_limits r ;; Ok (map_set rest k n)
      end
  | _ :: _ => Err 2
  end.

Definition json_params (ps : list sx) : res (list (bytes * Z)) :=
  match par_get ps K_json_max_fields_size with
  | None => Ok []
  | Some v => match as_tagged 4 v with Some entries => json_limits entries | None => Err 1 end
  end.

(* ---- nginx_error: 1 must be bool ------------------------------------------------------------------------------ *)
Definition nginx_params (ps : list sx) : res bool :=
  match par_get ps K_nginx_with_custom_fields with
  | None => Ok false
  | Some v => match any_bool v with Some b => Ok b | None => Err 1 end
  end.

(* ---- syslog: 1 facility must be string | 2 invalid facility format | 3 severity must be string | 4 invalid severity -- *)
Definition syslog_format (ps : list sx) (key : bytes) (e_type e_value : Z) : res bytes :=
  match par_get ps key with
  | None => Ok K_number
  | Some v =>
      match any_string v with
      | None => Err e_type
      | Some s => if bytes_eqb s K_number || bytes_eqb s K_string then Ok s else Err e_value
      end
  end.
Definition syslog_params (ps : list sx) : res (bytes * bytes) :=
  ff <- syslog_format ps K_syslog_facility_format 1 2 ;;
  sf <- syslog_format ps K_syslog_severity_format 3 4 ;;
  Ok (ff, sf).

(* ---- csv: 1 columns must be slice | 2 each column must be string | 3 prefix must be string | 4 invalid_line_mode must be
        string | 5 delimiter must be a string of length 1 | 6 invalid delimiter ---------------------------------------------- *)
Record csv_cfg := { cc_columns : list bytes; cc_prefix : bytes; cc_mode : bytes; cc_delim : byte }.

Fixpoint csv_columns (vs : list sx) : res (list bytes) :=
  match vs with
  | [] => Ok []
  | v :: r => match any_string v with
              | Some s => rest <- csv_columns r ;; Ok (s :: rest)
              | None => Err 2
              end
  end.

Definition valid_delim_byte (c : byte) : bool :=
  negb (beq c 0%N) && negb (beq c QUOTE) && negb (beq c 13%N) && negb (beq c NL).

Definition csv_params (ps : list sx) : res csv_cfg :=
  cols <- match par_get ps K_columns with
          | None => Ok []
          | Some v => match as_tagged 3 v with Some vs => csv_columns vs | None => Err 1 end
          end ;;
  prefix <- match par_get ps K_prefix with
            | None => Ok []
            | Some v => match any_string v with Some s => Ok s | None => Err 3 end
            end ;;
  mode <- match par_get ps K_invalid_line_mode with
          | None => Ok K_default
          | Some v => match any_string v with Some s => Ok s | None => Err 4 end
          end ;;
  delim <- match par_get ps K_delimiter with
           | None => Ok 44%N
           | Some v => match any_string v with
                       | Some [c] => if valid_delim_byte c then Ok c else Err 6
                       | _ => Err 5
                       end
           end ;;
  Ok {| cc_columns := cols; cc_prefix := prefix; cc_mode := mode; cc_delim := delim |}.

(* ---- protobuf: 1 file not set | 2 file must be string | 3 message not set | 4 message must be string | 5 import paths
        must be slice | 6 each import path must be string | 7 the file does not compile | 8 no such message.
        Whether the file compiles / has the message is the generator's knowledge (the compiler is library code). ---------- *)
Fixpoint all_strings (vs : list sx) : bool :=
  match vs with [] => true | v :: r => match any_string v with Some _ => all_strings r | None => false end end.

Definition proto_params (ps : list sx) (compiles has_message : bool) : res unit :=
  match par_get ps K_proto_file with
  | None => Err 1
  | Some f =>
      match any_string f with
      | None => Err 2
      | Some _ =>
          match par_get ps K_proto_message with
          | None => Err 3
          | Some m =>
              match any_string m with
              | None => Err 4
              | Some _ =>
                  match par_get ps K_proto_import_paths with
                  | Some v =>
                      match as_tagged 3 v with
                      | Some vs =>
                          if all_strings vs then (if compiles then (if has_message then Ok tt else Err 8) else Err 7) else Err 6
                      | None => Err 5
                      end
                  | None => if compiles then (if has_message then Ok tt else Err 8) else Err 7
                  end
              end
          end
      end
  end.

(* ---- which 41: case = (kind ((#key value) ...) compiles hasMessage), kind a decoder.Type number;
        obs = (0 cfg) | (1 e) | (2 #site) with cfg as the constructor stored it (read back through reflection):
        json ((#path limit) ...) sorted | nginx wc | syslog (#ff #sf) | csv ((#col ...) #prefix #mode delim) | protobuf () *)
Definition params_model (kind : Z) (ps : list sx) (compiles has_message : bool) : option sx :=
  if kind =? 2 then Some (sx_of_res (fun ls => SL (map (fun kv => SL [SB (fst kv); SZ (snd kv)]) ls)) (json_params ps))
  else if kind =? 6 then Some (sx_of_res of_bool (nginx_params ps))
  else if (kind =? 8) || (kind =? 9) then Some (sx_of_res (fun p => SL [SB (fst p); SB (snd p)]) (syslog_params ps))
  else if kind =? 10 then
    Some (sx_of_res (fun c => SL [SL (map SB (cc_columns c)); SB (cc_prefix c); SB (cc_mode c); SZ (Z.of_N (cc_delim c))])
                    (csv_params ps))
  else if kind =? 7 then Some (sx_of_res (fun _ => SL []) (proto_params ps compiles has_message))
  else None.

Definition params_run (case obs : sx) : verdict :=
  match case with
  | SL [SZ kind; SL ps; c; h] =>
      match as_bool c, as_bool h with
      | Some c, Some h =>
          match params_model kind ps c h with
          | Some m => if is_bad_obs obs then Violates m else exact_verdict m obs
          | None => BadCase
          end
      | _, _ => BadCase
      end
  | _ => BadCase
  end.
