(* The Root side of decoding: what DecodeToJson (decoder/{postgres,nginx,syslog,syslog_rfc3164,
   syslog_rfc5424,csv}.go) leaves in the insane-json Root, as a function of the ROW the scanner models
   compute (exchange form).  Pure glue over the scanner models, no proofs here.

   insane-json is not modelled; the one fact used is that AddFieldNoAlloc(root, name) returns the node of
   an existing field of that name (it digs first), so a later write under a name replaces the earlier
   value (an RFC5424 SD element called "message" turns the message field into an object).  Map-derived
   entries (SD elements, SD params, nginx custom fields) are written in Go's random map order; their names
   are pairwise distinct, so the final CONTENT does not depend on that order and both sides of the
   comparison list the fields sorted by name.
   A value is  SB bytes  (string field)  or  the key-sorted ((#k #v) ...) of an object's fields. *)
From Verif Require Import Base.Sx Base.GoSem Model.Decoders.Common.

(* field names as byte lists (no Coq strings in extracted code) *)
Definition nm (l : list Z) : bytes := map Z.to_N l.

Definition jfields := list (bytes * sx).

Definition jset (m : jfields) (k v : bytes) : jfields := map_set m k (SB v).
Definition jset_nonempty (m : jfields) (k v : bytes) : jfields :=      (* if len(row.X) > 0 { ... } *)
  match v with [] => m | _ :: _ => map_set m k (SB v) end.
Definition jset_all (m : jfields) (kvs : list (bytes * bytes)) : jfields :=
  fold_left (fun m kv => jset m (fst kv) (snd kv)) kvs m.

Definition as_kv (x : sx) : option (bytes * bytes) :=
  match x with SL [SB k; SB v] => Some (k, v) | _ => None end.

(* for id, params := range row.StructuredData { if len(params) == 0 { continue }; obj := AddFieldNoAlloc(id).MutateToObject() ... } *)
Fixpoint jset_sd (m : jfields) (sd : list sx) : option jfields :=
  match sd with
  | [] => Some m
  | SL [SB id; SL params] :: r =>
      match opt_map as_kv params with
      | Some [] => jset_sd m r
      | Some (_ :: _) => jset_sd (map_set m id (SL params)) r
      | None => None
      end
  | _ => None
  end.

(* strconv.Itoa for n >= 0 *)
Fixpoint itoa_loop (fuel : nat) (n : Z) (acc : bytes) : bytes :=
  match fuel with
  | O => acc
  | S f => let acc' := Z.to_N (48 + n mod 10) :: acc in
           if n <? 10 then acc' else itoa_loop f (n / 10) acc'
  end.
Definition itoa (n : Z) : bytes := itoa_loop 20 n [].

(* CSVDecoder.GenerateColumnName: the configured name ("c<i>" in the harness) below ncols, else prefix + i (the option
   `prefix`, default "") *)
Definition csv_name (prefix : bytes) (ncols i : Z) : bytes :=
  if i <? ncols then 99%N :: itoa i else prefix ++ itoa i.
Fixpoint jset_csv (m : jfields) (prefix : bytes) (ncols i : Z) (row : list sx) : option jfields :=
  match row with
  | [] => Some m
  | SB f :: r => jset_csv (jset m (csv_name prefix ncols i) f) prefix ncols (i + 1) r
  | _ => None
  end.

(* k = the scanner (1 postgres, 2 nginx, 3 rfc3164, 4 rfc5424, 5 csv), row = the fields of its model's (0 row) *)
Definition tojson_fields (k ncols : Z) (prefix : bytes) (row : sx) : option jfields :=
  match k, row with
  | 1, SL [SB time; SB pid; SB num; SB client; SB db; SB user; SB log] =>
      Some (jset_all [] [((nm [116;105;109;101] (* time *)), time); ((nm [112;105;100] (* pid *)), pid); ((nm [112;105;100;95;109;101;115;115;97;103;101;95;110;117;109;98;101;114] (* pid_message_number *)), num);
                         ((nm [99;108;105;101;110;116] (* client *)), client); ((nm [100;98] (* db *)), db); ((nm [117;115;101;114] (* user *)), user); ((nm [108;111;103] (* log *)), log)])
  | 2, SL [SB time; SB level; SB pid; SB tid; SB cid; SB msg; SL kvs] =>
      match opt_map as_kv kvs with
      | Some fs =>
          let m := jset_all [] [((nm [116;105;109;101] (* time *)), time); ((nm [108;101;118;101;108] (* level *)), level); ((nm [112;105;100] (* pid *)), pid); ((nm [116;105;100] (* tid *)), tid)] in
          Some (jset_all (jset_nonempty (jset_nonempty m ((nm [99;105;100] (* cid *))) cid) ((nm [109;101;115;115;97;103;101] (* message *))) msg) fs)
      | None => None
      end
  | 3, SL [SB pri; SB fac; SB sev; SB ts; SB host; SB app; SB procid; SB msg] =>
      let m := jset_all [] [((nm [112;114;105;111;114;105;116;121] (* priority *)), pri); ((nm [102;97;99;105;108;105;116;121] (* facility *)), fac); ((nm [115;101;118;101;114;105;116;121] (* severity *)), sev)] in
      Some (jset_nonempty (jset_nonempty (jset_nonempty (jset_nonempty (jset_nonempty m
              ((nm [116;105;109;101;115;116;97;109;112] (* timestamp *))) ts) ((nm [104;111;115;116;110;97;109;101] (* hostname *))) host) ((nm [97;112;112;95;110;97;109;101] (* app_name *))) app) ((nm [112;114;111;99;101;115;115;95;105;100] (* process_id *))) procid)
              ((nm [109;101;115;115;97;103;101] (* message *))) msg)
  | 4, SL [SB pri; SB fac; SB sev; SB ver; SB ts; SB host; SB app; SB procid; SB msgid; SB msg; SL sd] =>
      let m := jset_all [] [((nm [112;114;105;111;114;105;116;121] (* priority *)), pri); ((nm [102;97;99;105;108;105;116;121] (* facility *)), fac); ((nm [115;101;118;101;114;105;116;121] (* severity *)), sev)] in
      jset_sd (jset_nonempty (jset_nonempty (jset_nonempty (jset_nonempty (jset_nonempty (jset_nonempty
                (jset_nonempty m ((nm [112;114;111;116;111;95;118;101;114;115;105;111;110] (* proto_version *))) ver) ((nm [116;105;109;101;115;116;97;109;112] (* timestamp *))) ts) ((nm [104;111;115;116;110;97;109;101] (* hostname *))) host)
                ((nm [97;112;112;95;110;97;109;101] (* app_name *))) app) ((nm [112;114;111;99;101;115;115;95;105;100] (* process_id *))) procid) ((nm [109;101;115;115;97;103;101;95;105;100] (* message_id *))) msgid) ((nm [109;101;115;115;97;103;101] (* message *))) msg) sd
  | 5, SL fields => jset_csv [] prefix ncols 0 fields
  | _, _ => None
  end.

Definition sx_jfields (m : jfields) : sx := SL (map (fun kv => SL [SB (fst kv); snd kv]) m).

(* the expected observable of one DecodeToJson call, from the scanner model's observable *)
Definition tojson_expect (k ncols : Z) (prefix : bytes) (scan_obs : sx) : option sx :=
  match scan_obs with
  | SL [SZ 0; row] =>
      match tojson_fields k ncols prefix row with Some m => Some (SL [SZ 0; sx_jfields m]) | None => None end
  | other => Some other                                   (* (1 e): the decoder's error; (2): the model panics *)
  end.

Definition csv_ncols (k : Z) (item : sx) : Z :=
  match k, item with 5, SL (_ :: SZ n :: _) => n | _, _ => 0 end.
(* the optional fifth member of a csv case: the `prefix` option *)
Definition csv_prefix (k : Z) (item : sx) : bytes :=
  match k, item with 5, SL (_ :: _ :: _ :: _ :: SB p :: _) => p | _, _ => [] end.

(* which = 30 + k: case = (item ...), every item a case of scanner k, decoded one after the other into ONE
   Root (reset with DecodeString("{}") before each, as Pipeline.In does with a pooled event);
   obs = (obs-item ...), obs-item = (0 ((#name value) ...)) | (1 e) | (2 ..) | (3).
   A pure function of the line: anything but the expected list violates the property; so does a panic, a
   write outside the line, or an inconsistency the harness found in the Root (reported as (2 ..)). *)
Definition tojson_run (scan : Z -> sx -> option sx) (k : Z) (case obs : sx) : verdict :=
  match case, obs with
  | SL items, SL os =>
      match opt_map (fun it => match scan k it with
                               | Some m => tojson_expect k (csv_ncols k it) (csv_prefix k it) m
                               | None => None end) items with
      | Some ms => if existsb is_bad_obs os then Violates (SL ms) else exact_verdict (SL ms) obs
      | None => BadCase
      end
  | _, _ => BadCase
  end.

(* which = 36: the json decoder (DecodeToJson = cut + Root.DecodeBytes; Decode = DecodeBytesAdditional) against
   encoding/json as the reference ("a valid JSON object passes through decode and re-encode semantically
   unchanged").  case = ((#doc #extra) ...) on ONE Root; obs-item = (vin err same xin xerr xsame):
     vin   encoding/json.Valid(doc)          err   DecodeToJson returned an error
     same  the re-encoded Root equals doc (encoding/json, numbers as text), also after a field was added
           the way Pipeline.In adds meta fields
     xin / xerr / xsame  the same for `extra` decoded additionally into the same Root (empty extra: 0 0 0);
           xsame also says the Root itself is still equal to doc
   Nothing is modelled: a valid document must decode and come back equal; an invalid one may do anything
   but crash. *)
Definition json_rt_item_ok (o : sx) : option bool :=
  match o with
  | SL [vin; err; same; xin; xerr; xsame] =>
      match as_bool vin, as_bool err, as_bool same, as_bool xin, as_bool xerr, as_bool xsame with
      | Some vin, Some err, Some same, Some xin, Some xerr, Some xsame =>
          Some ((negb vin || (negb err && same)) && (negb (vin && xin) || (negb xerr && xsame)))
      | _, _, _, _, _, _ => None
      end
  | _ => None
  end.

Definition json_roundtrip_run (case obs : sx) : verdict :=
  match case, obs with
  | SL items, SL os =>
      if existsb is_bad_obs os then Violates (SL [])
      else if negb (Nat.eqb (length items) (length os)) then Violates (SL [])
      else match opt_map json_rt_item_ok os with
           | Some oks => if forallb (fun b => b) oks then Agree else Violates (SL [])
           | None => BadCase
           end
  | _, _ => BadCase
  end.
