(* decoder/syslog.go: syslogParsePriority, facility / severity rendering.  No proofs here. *)
From Verif Require Import Base.Sx Base.GoSem Model.Decoders.Common.

(* error enum (errors.Is on the sentinel the Go error wraps): 1 errSyslogInvalidFormat |
   2 errSyslogInvalidPriority | 3 errSyslogInvalidTimestamp | 4 errSyslogInvalidVersion |
   5 errSyslogInvalidSD *)
Definition E_FORMAT := 1. Definition E_PRI := 2. Definition E_TS := 3. Definition E_VER := 4. Definition E_SD := 5.

(* (priority value, offset of '>') *)
Definition syslog_parse_priority (data : bytes) : res (Z * Z) :=
  if len data <? 3 then Err E_FORMAT else
  c0 <- idx data 0 ;;
  if negb (beq c0 60%N) then Err E_FORMAT else                       (* '<' *)
  let offset := index_byte data 62%N in                              (* '>' *)
  if (offset <? 2) || (4 <? offset) then Err E_FORMAT else
  num <- slice data 1 offset ;;
  match atoi num with
  | None => Err E_PRI
  | Some p => if 191 <? p then Err E_PRI else Ok (p, offset)
  end.

Definition str (l : list Z) : bytes := map Z.to_N l.

Definition facility_string (f : Z) : bytes :=
  match f with
  | 0 => str [75;69;82;78]                       (* KERN *)
  | 1 => str [85;83;69;82]                       (* USER *)
  | 2 => str [77;65;73;76]                       (* MAIL *)
  | 3 => str [68;65;69;77;79;78]                 (* DAEMON *)
  | 4 => str [65;85;84;72]                       (* AUTH *)
  | 5 => str [83;89;83;76;79;71]                 (* SYSLOG *)
  | 6 => str [76;80;82]                          (* LPR *)
  | 7 => str [78;69;87;83]                       (* NEWS *)
  | 8 => str [85;85;67;80]                       (* UUCP *)
  | 9 => str [67;82;79;78]                       (* CRON *)
  | 10 => str [65;85;84;72;80;82;73;86]          (* AUTHPRIV *)
  | 11 => str [70;84;80]                         (* FTP *)
  | 12 => str [78;84;80]                         (* NTP *)
  | 13 => str [83;69;67;85;82;73;84;89]          (* SECURITY *)
  | 14 => str [67;79;78;83;79;76;69]             (* CONSOLE *)
  | 15 => str [83;79;76;65;82;73;83;67;82;79;78] (* SOLARISCRON *)
  | 16 => str [76;79;67;65;76;48]                (* LOCAL0 *)
  | 17 => str [76;79;67;65;76;49]
  | 18 => str [76;79;67;65;76;50]
  | 19 => str [76;79;67;65;76;51]
  | 20 => str [76;79;67;65;76;52]
  | 21 => str [76;79;67;65;76;53]
  | 22 => str [76;79;67;65;76;54]
  | 23 => str [76;79;67;65;76;55]                (* LOCAL7 *)
  | _ => str [85;78;75;78;79;87;78]              (* UNKNOWN *)
  end.

Definition severity_string (s : Z) : bytes :=
  match s with
  | 0 => str [69;77;69;82;71]                    (* EMERG *)
  | 1 => str [65;76;69;82;84]                    (* ALERT *)
  | 2 => str [67;82;73;84]                       (* CRIT *)
  | 3 => str [69;82;82;79;82]                    (* ERROR *)
  | 4 => str [87;65;82;78]                       (* WARN *)
  | 5 => str [78;79;84;73;67;69]                 (* NOTICE *)
  | 6 => str [73;78;70;79]                       (* INFO *)
  | 7 => str [68;69;66;85;71]                    (* DEBUG *)
  | _ => str [85;78;75;78;79;87;78]              (* UNKNOWN *)
  end.

(* format parameter: false = "number", true = "string" *)
Definition facility_of (p : Z) (as_string : bool) : bytes :=
  if as_string then facility_string (p / 8) else itoa2 (p / 8).
Definition severity_of (p : Z) (as_string : bool) : bytes :=
  if as_string then severity_string (p mod 8) else itoa2 (p mod 8).
