(* decoder/cri.go  DecodeCRI, line for line (as repaired by fixes/C12-cri.patch: the partial-line
   newline removal is guarded by len(log) > 0).  No proofs here. *)
From Verif Require Import Base.Sx Base.GoSem Model.Decoders.Common.

Record cri_row := { cri_time : bytes; cri_stream : bytes; cri_partial : bool; cri_log : bytes }.

(* error enum: 1 timestamp is not found | 2 stream type is not found | 3 log tag is not found |
   4 log tag is empty *)

(* for len(stream) != 6 { pos = IndexByte(data,' '); if pos < 0 {return err};
                          stream = data[:pos]; data = data[pos+1:] } *)
Fixpoint cri_stream_loop (fuel : nat) (stream data : bytes) : res (bytes * bytes) :=
  if len stream =? 6 then Ok (stream, data) else
  match fuel with
  | O => OutOfFuel
  | S f =>
      let pos := index_byte data SP in
      if pos <? 0 then Err 2 else
      s <- slice_to data pos ;;
      d <- slice_from data (pos + 1) ;;
      cri_stream_loop f s d
  end.

Definition decode_cri (data : bytes) : res cri_row :=
  (* time *)
  let pos := index_byte data SP in
  if pos <? 0 then Err 1 else
  time <- slice_to data pos ;;
  data <- slice_from data (pos + 1) ;;
  (* stderr or stdout *)
  ' (stream, data) <- cri_stream_loop (S (length data)) [] data ;;
  (* tags *)
  let pos := index_byte data SP in
  if pos <? 0 then Err 3 else
  tags <- slice_to data pos ;;
  data <- slice_from data (pos + 1) ;;
  if len tags =? 0 then Err 4 else
  t0 <- idx tags 0 ;;
  let partial := beq t0 80%N in                      (* tags[0] == 'P' *)
  (* remove \n from log for partial logs *)
  log <- (if partial && (0 <? len data) then slice_to data (len data - 1) else Ok data) ;;
  Ok {| cri_time := time; cri_stream := stream; cri_partial := partial; cri_log := log |}.

(* a well-formed CRI line assembled from its fields *)
Definition cri_line (time stream tag log : bytes) : bytes :=
  time ++ SP :: stream ++ SP :: tag ++ SP :: log.

Definition sx_cri (r : cri_row) : sx :=
  SL [SB (cri_time r); SB (cri_stream r); of_bool (cri_partial r); SB (cri_log r)].
Definition cri_model (data : bytes) : sx := sx_of_res sx_cri (decode_cri data).
