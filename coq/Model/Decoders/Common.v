(* Helpers shared by the C12 scanner models (decoder/*.go): stdlib `bytes` functions the scanners
   call that Base/GoSem.v does not have, decoder/common.go (atoi, isDigit, checkNumber), a Go map
   with []byte keys kept as a key-sorted association list (so the observable is canonical), and
   the exchange glue.  No proofs here. *)
From Verif Require Import Base.Sx Base.GoSem.

Definition SP : byte := 32%N.
Definition NL : byte := 10%N.
Definition QUOTE : byte := 34%N.

(* a loop modelled with fuel ran out of fuel: excluded by every <dec>_total theorem (they state
   "<> Panic _", and out-of-fuel IS a Panic here, so fuel sufficiency is proved, not assumed) *)
Definition OutOfFuel {A} : res A := Panic 4.

Definition beq (a b : byte) : bool := N.eqb a b.

(* bytes.TrimSuffix(data, "\n") *)
Fixpoint trim_nl (l : bytes) : bytes :=
  match l with
  | [] => []
  | c :: r => match r with
              | [] => if beq c NL then [] else [c]
              | _ :: _ => c :: trim_nl r
              end
  end.

(* bytes.IndexAny(data, chars) for ASCII chars *)
Fixpoint mem_byte (c : byte) (cs : bytes) : bool :=
  match cs with [] => false | x :: r => beq c x || mem_byte c r end.
Fixpoint index_any_from (l cs : bytes) (i : Z) : Z :=
  match l with
  | [] => -1
  | x :: r => if mem_byte x cs then i else index_any_from r cs (i + 1)
  end.
Definition index_any (l cs : bytes) : Z := index_any_from l cs 0.

(* bytes.LastIndex(data, sep) *)
Fixpoint last_index_sub_from (l needle : bytes) (i best : Z) : Z :=
  match l with
  | [] => if has_prefix [] needle then i else best
  | _ :: r => last_index_sub_from r needle (i + 1) (if has_prefix l needle then i else best)
  end.
Definition last_index_sub (l needle : bytes) : Z := last_index_sub_from l needle 0 (-1).

(* bytes.Trim(s, cutset) for the one-byte cutset the scanners use (a double quote) *)
Fixpoint drop_lead (c : byte) (l : bytes) : bytes :=
  match l with [] => [] | x :: r => if beq x c then drop_lead c r else l end.
Definition trim_byte (c : byte) (l : bytes) : bytes :=
  rev' (drop_lead c (rev' (drop_lead c l))).

(* decoder/common.go *)
Definition is_digit (c : byte) : bool := (48 <=? c)%N && (c <=? 57)%N.

(* atoi: Go's int arithmetic is unbounded Z here; every caller that USES the value passes at most
   4 digits (the others only use the ok flag), so 64-bit wrap-around cannot be observed *)
Fixpoint atoi_from (l : bytes) (x : Z) : option Z :=
  match l with
  | [] => Some x
  | c :: r => if is_digit c then atoi_from r (x * 10 + Z.of_N c - 48) else None
  end.
Definition atoi (l : bytes) : option Z :=
  match l with [] => None | _ :: _ => atoi_from l 0 end.
Definition check_number (num : bytes) (lo hi : Z) : bool :=
  match atoi num with Some x => (lo <=? x) && (x <=? hi) | None => false end.

(* strconv.Itoa for 0 <= n < 100 (facility <= 23, severity <= 7) *)
Definition itoa2 (n : Z) : bytes :=
  if n <? 10 then [Z.to_N (48 + n)] else [Z.to_N (48 + n / 10); Z.to_N (48 + n mod 10)].

(* ---- map[string][]byte as a key-sorted association list (Go string order = bytewise) ------- *)
Fixpoint bytes_cmp (a b : bytes) : comparison :=
  match a, b with
  | [], [] => Eq
  | [], _ :: _ => Lt
  | _ :: _, [] => Gt
  | x :: a', y :: b' => match N.compare x y with Eq => bytes_cmp a' b' | c => c end
  end.

Fixpoint map_set {V} (m : list (bytes * V)) (k : bytes) (v : V) : list (bytes * V) :=
  match m with
  | [] => [(k, v)]
  | (k', v') :: r =>
      match bytes_cmp k k' with
      | Lt => (k, v) :: m
      | Eq => (k, v) :: r
      | Gt => (k', v') :: map_set r k v
      end
  end.

(* ---- exchange glue ------------------------------------------------------------------------ *)
Definition sx_kvs (m : list (bytes * bytes)) : sx :=
  SL (map (fun kv => SL [SB (fst kv); SB (snd kv)]) m).

Definition is_bad_obs (obs : sx) : bool :=          (* (2) panic | (3) caller's buffer altered *)
  match obs with SL (SZ 2 :: _) => true | SL (SZ 3 :: _) => true | _ => false end.

(* verdict of one scanner case. A scanner is a pure function and its line-for-line model IS the
   specification of "yields exactly its fields / reports an error" (the faithfulness theorems state
   what the model returns on well-formed lines), so any difference violates the property; a panic
   or a write outside the line violates it whatever the model says. *)
Definition scan_verdict (model obs : sx) : verdict :=
  if is_bad_obs obs then Violates model else exact_verdict model obs.

(* totality-only streams (inputs whose result depends on Unicode tables the model does not carry) *)
Definition total_verdict (model obs : sx) : verdict :=
  if is_bad_obs obs then Violates model
  else match obs with SL (SZ 0 :: _) | SL (SZ 1 :: _) => Agree | _ => BadCase end.

(* faithfulness streams: the case carries the fields the line was assembled from; [expected] is
   computed from those fields alone (independently of the scanner model) *)
Definition faithful_verdict (expected model obs : sx) : verdict :=
  if is_bad_obs obs then Violates model
  else if sx_eqb obs expected then (if sx_eqb model obs then Agree else Differ model)
  else Violates expected.

(* byte strings written as Coq string literals (used by the non-vacuity examples only) *)
From Coq Require Strings.String Strings.Ascii.
Definition bs (s : Strings.String.string) : bytes :=
  map Strings.Ascii.N_of_ascii (Strings.String.list_ascii_of_string s).
