(* decoder/syslog_rfc5424.go  syslogRFC5424Decoder.Decode / validateTimestamp / parseStructuredData /
   readUntilSpaceOrNilValue, line for line (as repaired by fixes/C12-syslog-rfc5424.patch: data[idx-1]
   is read only when idx > 0).  No proofs here. *)
From Verif Require Import Base.Sx Base.GoSem Model.Decoders.Common Model.Decoders.Syslog.

Definition sd_params := list (bytes * bytes).
Definition sd_map := list (bytes * sd_params).

Record s5424_row := { s5_pri : bytes; s5_fac : bytes; s5_sev : bytes; s5_ver : bytes; s5_ts : bytes;
                      s5_host : bytes; s5_app : bytes; s5_procid : bytes; s5_msgid : bytes;
                      s5_msg : bytes; s5_sd : sd_map }.

Definition DASH : byte := 45%N.
Definition COLON : byte := 58%N.
Definition BOM : bytes := [239; 187; 191]%N.

(* readUntilSpaceOrNilValue *)
Definition read_until_sp_or_nil (data : bytes) : res (Z * bool) :=
  if len data <? 2 then Ok (-1, false) else
  c0 <- idx data 0 ;; c1 <- idx data 1 ;;
  if beq c0 DASH && beq c1 SP then Ok (0, true) else
  let offset := index_byte data SP in
  Ok (offset, 0 <? offset).

(* one header field that is either "- " or "<value> ": value (empty for nil) and the rest *)
Definition s5424_field (data : bytes) (e : Z) : res (bytes * bytes) :=
  ' (offset, ok) <- read_until_sp_or_nil data ;;
  if negb ok then Err e else
  if offset =? 0 then d <- slice_from data 2 ;; Ok ([], d)
  else v <- slice_to data offset ;; d <- slice_from data (offset + 1) ;; Ok (v, d).

(* for ; i < len(ts) && isDigit(ts[i]); i++ {} *)
Fixpoint count_digits (l : bytes) : Z :=
  match l with [] => 0 | c :: r => if is_digit c then 1 + count_digits r else 0 end.

(* validates time.RFC3339 / time.RFC3339Nano *)
Definition s5424_validate_timestamp (ts : bytes) : res bool :=
  if len ts <? 20 then Ok false else
  (* format *)
  c4 <- idx ts 4 ;; c7 <- idx ts 7 ;; c10 <- idx ts 10 ;; c13 <- idx ts 13 ;; c16 <- idx ts 16 ;;
  if negb (beq c4 DASH && beq c7 DASH && beq c10 84%N && beq c13 COLON && beq c16 COLON) then Ok false else
  (* date *)
  y <- slice_to ts 4 ;; mo <- slice ts 5 7 ;; d <- slice ts 8 10 ;;
  if negb (check_number y 0 9999 && check_number mo 1 12 && check_number d 1 31) then Ok false else
  (* time *)
  hh <- slice ts 11 13 ;; mi <- slice ts 14 16 ;; ss <- slice ts 17 19 ;;
  if negb (check_number hh 0 23 && check_number mi 0 59 && check_number ss 0 59) then Ok false else
  ts <- slice_from ts 19 ;;
  (* nanoseconds: None = return false *)
  ots <- (if 2 <=? len ts then
            c0 <- idx ts 0 ;; c1 <- idx ts 1 ;;
            if beq c0 46%N && is_digit c1 then
              r2 <- slice_from ts 2 ;;
              let i := 2 + count_digits r2 in
              if 7 <? i then Ok None else t <- slice_from ts i ;; Ok (Some t)
            else Ok (Some ts)
          else Ok (Some ts)) ;;
  match ots with
  | None => Ok false
  | Some ts =>
      (* timezone *)
      z <- (if 0 <? len ts then c0 <- idx ts 0 ;; Ok (beq c0 90%N) else Ok false) ;;
      if z then Ok true else
      if len ts <? 6 then Ok false else
      c0 <- idx ts 0 ;; c3 <- idx ts 3 ;;
      if negb ((beq c0 43%N || beq c0 DASH) && beq c3 COLON) then Ok false else
      hh <- slice ts 1 3 ;; mm <- slice ts 4 6 ;;
      if negb (check_number hh 0 23 && check_number mm 0 59) then Ok false else
      Ok true
  end.

(* paramsLoop of parseStructuredData: [r] is what the bytes.Reader still holds (= data[idx:]).
   Some (idx, params): closed by ']' at idx; None: reader exhausted (wasClose = false);
   Err E_SD: "return nil, 0, false" *)
Fixpoint sd_params_loop (r data : bytes) (i startID startVal : Z) (inside : bool)
    (paramID : bytes) (params : sd_params) : res (option (Z * sd_params)) :=
  match r with
  | [] => Ok None
  | b :: r' =>
      if beq b 93%N then                                                  (* ']' *)
        if i =? 0 then Err E_SD else
        c <- idx data (i - 1) ;;
        if negb (beq c QUOTE) then Err E_SD else Ok (Some (i, params))
      else if beq b SP && negb inside then
        sd_params_loop r' data (i + 1) (i + 1) startVal inside paramID params
      else if beq b 61%N && negb inside then                              (* '=' *)
        bad <- (if i + 1 <? len data then c <- idx data (i + 1) ;; Ok (negb (beq c QUOTE)) else Ok false) ;;
        if bad then Err E_SD else
        pid <- slice data startID i ;;
        sd_params_loop r' data (i + 1) startID startVal inside pid params
      else if beq b QUOTE then
        esc <- (if 0 <? i then c <- idx data (i - 1) ;; Ok (beq c 92%N) else Ok false) ;;   (* '\\' *)
        if esc then sd_params_loop r' data (i + 1) startID startVal inside paramID params
        else if inside then
          v <- slice data startVal i ;;
          sd_params_loop r' data (i + 1) startID startVal false paramID (map_set params paramID v)
        else sd_params_loop r' data (i + 1) startID (i + 1) true paramID params
      else sd_params_loop r' data (i + 1) startID startVal inside paramID params
  end.

(* for len(data) > 0 { if data[0] != '[' {break} ... } : (sd, offset, wasOpen) *)
Fixpoint sd_loop (fuel : nat) (data : bytes) (offset : Z) (wasOpen : bool) (sd : sd_map)
    : res (sd_map * Z * bool) :=
  if len data <=? 0 then Ok (sd, offset, wasOpen) else
  match fuel with
  | O => OutOfFuel
  | S f =>
      c <- idx data 0 ;;
      if negb (beq c 91%N) then Ok (sd, offset, wasOpen) else             (* '[' *)
      data <- slice_from data 1 ;;                                        (* shiftData(1) *)
      let i := index_byte data SP in
      if i <? 2 then Err E_SD else
      sdID <- slice_to data i ;;
      data <- slice_from data (i + 1) ;;                                  (* shiftData(idx+1) *)
      r <- sd_params_loop data data 0 0 0 false [] [] ;;
      match r with
      | None => Err E_SD                                                  (* !wasClose *)
      | Some (j, params) =>
          data' <- slice_from data (j + 1) ;;                             (* shiftData(idx+1) *)
          sd_loop f data' (offset + 1 + (i + 1) + (j + 1)) true (map_set sd sdID params)
      end
  end.

Definition parse_sd (data : bytes) : res (sd_map * Z) :=
  dash <- (if 0 <? len data then c0 <- idx data 0 ;; Ok (beq c0 DASH) else Ok false) ;;
  if dash then
    ok <- (if len data =? 1 then Ok true else c1 <- idx data 1 ;; Ok (beq c1 SP)) ;;
    if ok then Ok ([], 0) else Err E_SD
  else
    ' (sd, offset, wasOpen) <- sd_loop (S (length data)) data 0 false [] ;;
    if negb wasOpen then Err E_SD else Ok (sd, offset).

Definition decode_s5424 (fac_str sev_str : bool) (data : bytes) : res s5424_row :=
  let data := trim_nl data in
  if len data =? 0 then Err E_FORMAT else
  (* priority *)
  ' (pri, offset) <- syslog_parse_priority data ;;
  priority <- slice data 1 offset ;;
  data <- slice_from data (offset + 1) ;;
  let fac := facility_of pri fac_str in
  let sev := severity_of pri sev_str in
  (* proto version *)
  let offset := index_byte data SP in
  if offset <=? 0 then Err E_FORMAT else
  ver <- slice_to data offset ;;
  match atoi ver with None => Err E_VER | Some _ =>
  data <- slice_from data (offset + 1) ;;
  (* timestamp *)
  ' (offset, ok) <- read_until_sp_or_nil data ;;
  if negb ok then Err E_VER else
  ' (ts, data) <-
    (if offset =? 0 then d <- slice_from data 2 ;; Ok ([], d)
     else ts <- slice_to data offset ;;
          v <- s5424_validate_timestamp ts ;;
          if negb v then Err E_TS else
          d <- slice_from data (offset + 1) ;; Ok (ts, d)) ;;
  ' (host, data) <- s5424_field data E_FORMAT ;;
  ' (app, data) <- s5424_field data E_FORMAT ;;
  ' (procid, data) <- s5424_field data E_FORMAT ;;
  ' (msgid, data) <- s5424_field data E_FORMAT ;;
  (* structured data *)
  ' (sd, offset) <- parse_sd data ;;
  let row msg := {| s5_pri := priority; s5_fac := fac; s5_sev := sev; s5_ver := ver; s5_ts := ts;
                    s5_host := host; s5_app := app; s5_procid := procid; s5_msgid := msgid;
                    s5_msg := msg; s5_sd := sd |} in
  (* no message *)
  if len data <=? offset then Ok (row []) else
  data <- slice_from data (offset + 1) ;;
  (* message *)
  data <- (if 0 <? len data then c <- idx data 0 ;; if beq c SP then slice_from data 1 else Ok data
           else Ok data) ;;
  (* BOM *)
  data <- (if 2 <? len data then pre <- slice_to data 3 ;;
                                 if bytes_eqb pre BOM then slice_from data 3 else Ok data
           else Ok data) ;;
  Ok (row data)
  end.

Definition sx_sd (m : sd_map) : sx := SL (map (fun kv => SL [SB (fst kv); sx_kvs (snd kv)]) m).
Definition sx_s5424 (r : s5424_row) : sx :=
  SL [SB (s5_pri r); SB (s5_fac r); SB (s5_sev r); SB (s5_ver r); SB (s5_ts r); SB (s5_host r);
      SB (s5_app r); SB (s5_procid r); SB (s5_msgid r); SB (s5_msg r); sx_sd (s5_sd r)].
Definition s5424_model (fac_str sev_str : bool) (data : bytes) : sx :=
  sx_of_res sx_s5424 (decode_s5424 fac_str sev_str data).
