(* C12 runner entry: dispatch of one (which, case, observed) line to the scanner models.
     0 cri #data | 1 postgres #data | 2 nginx (wc #data) | 3 rfc3164 (ff sf #data) |
     4 rfc5424 (ff sf #data) | 5 csv (delim ncols continue #data)          obs = (0 fields)|(1 e)|(2)|(3)
     10+k : the same case on the same decoder, verdict = totality only (non-ASCII inputs)
     20 cri faithful (#time #stream #tag #log) | 21 postgres faithful (14 fields) |
     25 csv faithful (delim (#field ...))
     7 json cut (#path limit #data) | 8 ((#path limit) ... #data)
                                         obs = (validIn validOut out ((index strlen valid exists isString) ...))
     30+k : DecodeToJson of scanner k (k = 1..5) on a list of cases sharing one Root (Model/Decoders/ToJson.v)
     36 : the json decoder against encoding/json (ToJson.v json_roundtrip_run)
     9 jsonCutKeep (limit #content) | 37 jsonDecoder.Decode args | 38 protobuf | 40 decoder.New | 41 constructor params (Params.v) | 50 / 51 Pipeline.In
     (Model/Decoders/PipeIn.v, Select.v)
   No proofs here. *)
From Verif Require Import Base.Sx Base.GoSem Model.Decoders.Common Model.Decoders.Cri Model.Decoders.Postgres
  Model.Decoders.Nginx Model.Decoders.Syslog Model.Decoders.SyslogRfc3164 Model.Decoders.SyslogRfc5424
  Model.Decoders.Csv Model.Decoders.JsonCut Model.Decoders.ToJson Model.Decoders.Select Model.Decoders.PipeIn Model.Decoders.Params.

Definition scan_model (k : Z) (case : sx) : option sx :=
  match k, case with
  | 0, SB data => Some (cri_model data)
  | 1, SB data => Some (pg_model data)
  | 2, SL [wc; SB data] =>
      match as_bool wc with Some wc => Some (nginx_model wc data) | None => None end
  | 3, SL [ff; sf; SB data] =>
      match as_bool ff, as_bool sf with
      | Some ff, Some sf => Some (s3164_model ff sf data) | _, _ => None end
  | 4, SL [ff; sf; SB data] =>
      match as_bool ff, as_bool sf with
      | Some ff, Some sf => Some (s5424_model ff sf data) | _, _ => None end
  | 5, SL (SZ delim :: SZ ncols :: SZ mode :: SB data :: _) =>
      (* mode: 0 default | 1 continue | 2 fatal | 3 an unknown word; an optional fifth member is the `prefix` option,
         which only the Root side (ToJson.v) reads *)
      if (0 <? delim) && (delim <? 256) && (0 <=? mode) && (mode <=? 3)
      then Some (csv_model_mode (Z.to_N delim) ncols mode data) else None
  | _, _ => None
  end.

Definition no_byte (c : byte) (l : bytes) : bool := index_byte l c <? 0.

(* faithfulness cases: (assembled line, expected observable), None if the fields are not well formed *)
Definition faithful_case (k : Z) (case : sx) : option (sx * sx) :=
  match k, case with
  | 0, SL [SB time; SB stream; SB tag; SB log] =>
      match tag with
      | t0 :: _ =>
          if no_byte SP time && no_byte SP stream && (len stream =? 6) && no_byte SP tag then
            let partial := beq t0 80%N in
            Some (SB (cri_line time stream tag log),
                  SL [SZ 0; SL [SB time; SB stream; of_bool partial;
                                SB (if partial then removelast log else log)]])
          else None
      | [] => None
      end
  | 1, SL [SB t1; SB t2; SB t3; SB pid; SB sep; SB num; SB k1; SB client; SB k2; SB db; SB k3; SB user;
           SB level; SB log] =>
      if no_byte SP t1 && no_byte SP t2 && no_byte SP t3 && no_byte RBRACK pid && no_byte LBRACK sep &&
         no_byte RBRACK num && no_byte EQUALS k1 && no_byte COMMA k1 && no_byte COMMA client &&
         no_byte EQUALS k2 && no_byte COMMA k2 && no_byte COMMA db &&
         no_byte EQUALS k3 && no_byte SP k3 && no_byte SP user && no_byte SP level
      then Some (SB (pg_line t1 t2 t3 pid sep num k1 client k2 db k3 user level log),
                 SL [SZ 0; SL [SB (t1 ++ SP :: t2 ++ SP :: t3); SB pid; SB num; SB client; SB db; SB user; SB log]])
      else None
  | 5, SL [SZ delim; fields] =>
      match as_list as_B fields with
      | Some fs =>
          let d := Z.to_N delim in
          if (0 <? delim) && (delim <? 256) && negb (beq d QUOTE) &&
             forallb (fun f => no_byte d f && no_byte QUOTE f && no_byte NL f && no_byte 13%N f) fs &&
             (match fs with [] => false | _ => true end) &&
             bytes_eqb (ascii_trim_space (last fs [])) (last fs []) &&
             negb (bytes_eqb (csv_line d fs) [])
          then Some (SL [SZ delim; SZ 0; SZ 0; SB (csv_line d fs)], SL [SZ 0; SL (map SB fs)])
          else None
      | None => None
      end
  | _, _ => None
  end.

(* json cut: case = (#path limit #data) [7] | ((#path limit) ... #data) [8];
   obs = (validIn validOut out ((index strlen valid exists isString #raw) ...))
   where out = (0 #bytes) | (2 ..) | (3), validIn / validOut = encoding/json validity of the document
   before / after the cut, and the groups are what gjson reported for each path (the oracle the model
   does not carry): Index, len(Str), ValidBytes, Exists, Type == String, Raw.
   A group without #raw (the observable of [7], kept for replays of old cases; no generator uses it)
   stands for a plain path: Raw is taken to be the string the model finds at Index. *)
Definition json_group (data : bytes) (limit : Z) (g : sx) : option (list jfound) :=
  match g with
  | SL [SZ index; SZ strlen; v; e; s; SB raw] =>
      match as_bool v, as_bool e, as_bool s with
      | Some v, Some e, Some s => Some (if v && e && s then [(index, strlen, limit, raw)] else [])
      | _, _, _ => None
      end
  | SL [SZ index; SZ strlen; v; e; s] =>
      match as_bool v, as_bool e, as_bool s with
      | Some v, Some e, Some s =>
          if v && e && s then
            match json_raw_len_at data index with
            | Some n => Some [(index, strlen, limit, firstn (Z.to_nat (n + 2)) (skipn (Z.to_nat index) data))]
            | None => None
            end
          else Some []
      | _, _, _ => None
      end
  | _ => None
  end.

Fixpoint json_groups (data : bytes) (limits : list Z) (gs : list sx) : option (list jfound) :=
  match limits, gs with
  | [], [] => Some []
  | l :: ls, g :: gs' =>
      match json_group data l g, json_groups data ls gs' with
      | Some a, Some b => Some (a ++ b)
      | _, _ => None
      end
  | _, _ => None
  end.

Fixpoint json_case_limits (items : list sx) : option (list Z * bytes) :=
  match items with
  | [SB data] => Some ([], data)
  | SL [SB _; SZ limit] :: r =>
      match json_case_limits r with Some (ls, d) => Some (limit :: ls, d) | None => None end
  | _ => None
  end.

Definition json_cut_run (many : bool) (case obs : sx) : verdict :=
  let parsed :=
    if many then match case with SL items => json_case_limits items | _ => None end
    else match case with SL [SB _; SZ limit; SB data] => Some ([limit], data) | _ => None end in
  match parsed, obs with
  | Some (limits, data), SL [vin; vout; out; SL gs] =>
      match as_bool vin, as_bool vout, json_groups data limits gs with
      | Some vin, Some vout, Some found =>
          (* the fast way is taken when exactly ONE path is configured, whatever gjson finds *)
          let r := match limits, found with
                   | [_], [(index, strlen, limit, raw)] => json_cut data index strlen limit raw
                   | [_], _ => Ok data
                   | _, _ => json_cut_many data found
                   end in
          let m := sx_of_res SB r in
          (* the property: the decoder does not crash, a valid document stays valid, and the output is the
             input with nothing but the named strings shortened to a prefix of their raw text
             (json_cut_framed, the boolean form of cut_keeps_framing / c12_json_cut_spec);
             the model is more specific (it also fixes HOW MUCH of each string is kept): Differ *)
          if is_bad_obs out || (vin && negb vout) then Violates m
          else match out with
               | SL [SZ 0; SB o] =>
                   match json_cut_framed data found o with
                   | Some false => Violates m
                   | Some true => if sx_eqb m out then Agree else Differ m
                   | None => Differ m             (* gjson's Index is not the opening quote of a string *)
                   end
               | _ => BadCase
               end
      | _, _, _ => BadCase
      end
  | _, _ => BadCase
  end.

Definition c12_entry (which : Z) (case obs : sx) : verdict :=
  if which =? 7 then json_cut_run false case obs
  else if which =? 8 then json_cut_run true case obs
  else if which =? 9 then json_keep_run case obs
  else if which =? 37 then json_args_run case obs
  else if which =? 38 then proto_run case obs
  else if which =? 40 then select_run case obs
  else if which =? 41 then params_run case obs
  else if which =? 50 then pipe_in_run case obs
  else if which =? 51 then pipe_flags_run case obs
  else if (0 <=? which) && (which <? 10) then
    match scan_model which case with Some m => scan_verdict m obs | None => BadCase end
  else if (10 <=? which) && (which <? 20) then
    match scan_model (which - 10) case with Some m => total_verdict m obs | None => BadCase end
  else if which =? 36 then json_roundtrip_run case obs
  else if (31 <=? which) && (which <=? 35) then tojson_run scan_model (which - 30) case obs
  else if (20 <=? which) && (which <? 30) then
    match faithful_case (which - 20) case with
    | Some (line, expected) =>
        match scan_model (which - 20) line with
        | Some m => faithful_verdict expected m obs
        | None => BadCase
        end
    | None => BadCase
    end
  else BadCase.
