(* Pipeline.In (pipeline/pipeline.go:405-555) with the decoder the pipeline resolved (Model/Decoders/Select.v):
   checkInputBytes' "not an event" test, the decoder switch, the fields the event carries at the output of an action-less
   pipeline, the meta data, the error path (EventSeqIDError, or a Fatal log entry under is_strict).
   json / protobuf decoding proper is library code: those two decoders are judged through flags (which 51 / 38).
   Also the small directed sub-models of this round: which 40 (decoder.New), 37 (jsonDecoder.Decode args), 9 (jsonCutKeep).
   No proofs here (Proofs/Decoders/PipeIn.v). *)
From Verif Require Import Base.Sx Base.GoSem Model.Decoders.Common Model.Decoders.Cri Model.Decoders.Postgres
  Model.Decoders.Nginx Model.Decoders.Syslog Model.Decoders.SyslogRfc3164 Model.Decoders.SyslogRfc5424
  Model.Decoders.Csv Model.Decoders.JsonCut Model.Decoders.ToJson Model.Decoders.Select.

(* ---- Settings.DecoderParams of a case:  (0) | (6 wc) | (8 ff sf) | (10 delim ncols mode #prefix) |
        (2 (#path limit) ...) | (7) the protobuf schema.  A decoder reads its own keys and ignores the others
        (the two syslog decoders share theirs). *)
Definition par_tag (ps : sx) : Z := match ps with SL (SZ t :: _) => t | _ => 0 end.
Definition par_wc (ps : sx) : bool := match ps with SL [SZ 6; SZ 1] => true | _ => false end.
Definition par_ff (ps : sx) : bool := match ps with SL [SZ 8; SZ 1; _] => true | _ => false end.
Definition par_sf (ps : sx) : bool := match ps with SL [SZ 8; _; SZ 1] => true | _ => false end.
Definition par_delim (ps : sx) : Z := match ps with SL [SZ 10; SZ d; _; _; _] => d | _ => 44 end.
Definition par_ncols (ps : sx) : Z := match ps with SL [SZ 10; _; SZ n; _; _] => n | _ => 0 end.
Definition par_mode (ps : sx) : Z := match ps with SL [SZ 10; _; _; SZ m; _] => m | _ => 0 end.
Definition par_prefix (ps : sx) : bytes := match ps with SL [SZ 10; _; _; _; SB p] => p | _ => [] end.
Definition par_limits_ok (ps : sx) : bool :=
  match ps with
  | SL (SZ 2 :: ls) => forallb (fun l => match l with SL [SB _; SZ n] => 0 <=? n | _ => false end) ls
  | _ => true
  end.

(* validDelim (csv.go:308) on the one byte of the `delimiter` option *)
Definition valid_delim (d : Z) : bool :=
  (0 <? d) && (d <? 256) && negb (d =? 34) && negb (d =? 13) && negb (d =? 10).

(* does the constructor of decoder t accept these params: protobuf needs its schema, csv a valid delimiter, json
   non-negative limits *)
Definition params_ok (ps : sx) (t : Z) : bool :=
  if t =? 7 then par_tag ps =? 7
  else if t =? 10 then (if par_tag ps =? 10 then valid_delim (par_delim ps) else true)
  else if t =? 2 then par_limits_ok ps
  else true.

(* ---- the decoder switch: the row a line decodes to, in the exchange form of the scanner models ------------------- *)
Definition pipe_decode (t : Z) (ps : sx) (data : bytes) : res sx :=
  if t =? 3 then m <- slice_to data (len data - 1) ;; Ok (SL [SB m])          (* RAW: bytes[:len(bytes)-1] *)
  else if t =? 4 then r <- decode_cri data ;; Ok (sx_cri r)
  else if t =? 5 then r <- decode_postgres data ;; Ok (sx_pg r)
  else if t =? 6 then r <- decode_nginx ascii_only_letters (par_wc ps) data ;; Ok (sx_nginx r)
  else if t =? 8 then r <- decode_s3164 (par_ff ps) (par_sf ps) data ;; Ok (sx_s3164 r)
  else if t =? 9 then r <- decode_s5424 (par_ff ps) (par_sf ps) data ;; Ok (sx_s5424 r)
  else if t =? 10 then
    r <- decode_csv_mode ascii_trim_space (Z.to_N (par_delim ps)) (par_ncols ps) (par_mode ps) data ;; Ok (SL (map SB r))
  else if (t =? 2) || (t =? 7) then Ok (SL [])                                 (* library decoders: not modelled *)
  else Panic 3.                                                                (* p.logger.Panic("unknown decoder") *)

(* checkInputBytes with max_event_size = 0: an empty line and a lone newline are not events (Err 0: no log entry) *)
Definition not_an_event (data : bytes) : bool :=
  match data with [] => true | [c] => beq c NL | _ => false end.
Definition pipe_in (t : Z) (ps : sx) (data : bytes) : res sx :=
  if not_an_event data then Err 0 else pipe_decode t ps data.

(* ---- the event at the output ------------------------------------------------------------------------------------------ *)
Definition scanner_of (t : Z) : Z :=
  if t =? 5 then 1 else if t =? 6 then 2 else if t =? 8 then 3 else if t =? 9 then 4 else if t =? 10 then 5 else 0.

Definition pipe_fields (t : Z) (ps : sx) (row : sx) : option jfields :=
  if t =? 3 then
    match row with SL [SB m] => Some (jset [] (nm [109;101;115;115;97;103;101] (* message *)) m) | _ => None end
  else if t =? 4 then
    match row with
    | SL [SB time; SB stream; _; SB log] =>
        Some (jset_all [] [(nm [108;111;103] (* log *), log); (nm [116;105;109;101] (* time *), time);
                           (nm [115;116;114;101;97;109] (* stream *), stream)])
    | _ => None
    end
  else tojson_fields (scanner_of t) (par_ncols ps) (par_prefix ps) row.

(* for k, v := range meta { CreateNestedField(event.Root, []string{k}).MutateToString(v) }: distinct names *)
Definition as_meta (m : sx) : option (list (bytes * bytes)) := as_list as_kv m.

Definition is_fatal_item (o : sx) : bool := match o with SL (SZ 4 :: _) => true | _ => false end.

(* which 50 item: (0) | (1 fields) | (2) | (4).  A refused line is a Fatal log entry under is_strict, and always for a
   csv line with the wrong number of fields under invalid_line_mode=fatal *)
Definition pipe_item (strict : bool) (t : Z) (ps : sx) (meta : list (bytes * bytes)) (data : bytes) : option sx :=
  match pipe_in t ps data with
  | Err e => Some (SL [SZ (if (negb (e =? 0) && strict) || ((t =? 10) && (e =? 5)) then 4 else 0)])
  | Panic _ => Some (SL [SZ 2])
  | Ok row =>
      match pipe_fields t ps row with
      | Some m => Some (SL [SZ 1; sx_jfields (jset_all m meta)])
      | None => None
      end
  end.

(* the lines of a case run one after the other; a Fatal entry ends the run (the process would have exited) *)
Fixpoint pipe_items (strict : bool) (t : Z) (ps : sx) (meta : list (bytes * bytes)) (items : list sx) : option (list sx) :=
  match items with
  | [] => Some []
  | SB data :: r =>
      match pipe_item strict t ps meta data with
      | Some o => if is_fatal_item o then Some [o]
                  else match pipe_items strict t ps meta r with Some os => Some (o :: os) | None => None end
      | None => None
      end
  | _ => None
  end.

Definition resolve_case (cfg : Z) (sugg : sx) (ps : sx) : option (option pstate) :=
  match as_list as_Z sugg with
  | Some ss => Some (pipe_resolve (params_ok ps) (type_name cfg) ss)
  | None => None
  end.

(* the third member of a case: 0 plain | 1 is_strict | 2 not strict, the antispam block of In runs (threshold never reached) *)
Definition as_strict (s : sx) : option bool :=
  match s with SZ 0 => Some false | SZ 1 => Some true | SZ 2 => Some false | _ => None end.

Definition not_built : sx := SL [SL [SZ 6]].

(* which 50: case = (cfg (sugg ...) strict ((#k #v) ...) params (#line ...)) *)
Definition pipe_in_run (case obs : sx) : verdict :=
  match case, obs with
  | SL [SZ cfg; sugg; strict; meta; ps; SL items], SL os =>
      match resolve_case cfg sugg ps, as_strict strict, as_meta meta with
      | Some None, Some _, Some _ => exact_verdict not_built obs
      | Some (Some st), Some strict, Some meta =>
          let t := ps_type st in
          if (t =? 2) || (t =? 7) then BadCase
          else match pipe_items strict t ps meta items with
               | Some ms => if existsb is_bad_obs os then Violates (SL ms) else exact_verdict (SL ms) obs
               | None => BadCase
               end
      | _, _, _ => BadCase
      end
  | _, _ => BadCase
  end.

(* which 51: the json and protobuf decoders through Pipeline.In.  case items = (#line #expect wf);
   obs item = (status vin sameUncut sameCut): status 1 the event reached the output, 0 EventSeqIDError, 4 Fatal entry;
   vin the line is well formed; sameUncut / sameCut the event equals the reference document (with the meta fields) as it
   is / with json_max_fields_size applied.  The limits apply iff the JSON decoder was built from DecoderParams (not by
   Start's fallback, which passes nil). *)
Definition flag_item_ok (strict used : bool) (line : bytes) (o : sx) : option bool :=
  match o with
  | SL [SZ status; vin; su; sc] =>
      match as_bool vin, as_bool su, as_bool sc with
      | Some vin, Some su, Some sc =>
          let same := if used then sc else su in
          let refused := if strict && negb (not_an_event line) then 4 else 0 in
          Some (if status =? 1 then negb (not_an_event line) && (negb vin || same)
                else if status =? refused then negb vin || not_an_event line
                else false)
      | _, _, _ => None
      end
  | _ => None
  end.

Fixpoint flag_items (strict used : bool) (items os : list sx) : option bool :=
  match items, os with
  | [], [] => Some true
  | SL (SB line :: _) :: items', o :: os' =>
      match flag_item_ok strict used line o with
      | Some ok =>
          if is_fatal_item o then Some (ok && match os' with [] => true | _ => false end)
          else match flag_items strict used items' os' with Some r => Some (ok && r) | None => None end
      | None => None
      end
  | _, _ => Some false
  end.

Definition pipe_flags_run (case obs : sx) : verdict :=
  match case, obs with
  | SL [SZ cfg; sugg; strict; meta; ps; SL items], SL os =>
      match resolve_case cfg sugg ps, as_strict strict with
      | Some None, Some _ => exact_verdict not_built obs
      | Some (Some st), Some strict =>
          let t := ps_type st in
          if negb ((t =? 2) || (t =? 7)) then BadCase
          else if existsb is_bad_obs os then Violates (SL [])
          else match flag_items strict ((t =? 2) && ps_params st && (par_tag ps =? 2)) items os with
               | Some true => Agree
               | Some false => Violates (SL [])
               | None => BadCase
               end
      | _, _ => BadCase
      end
  | _, _ => BadCase
  end.

(* which 38: the protobuf decoder, obs = (status wf same validOut): what is accepted is a valid JSON object, a well-formed
   message is accepted and decodes to the expected JSON *)
Definition proto_run (case obs : sx) : verdict :=
  if is_bad_obs obs then Violates (SL [])
  else match obs with
       | SL [SZ status; wf; same; vout] =>
           match as_bool wf, as_bool same, as_bool vout with
           | Some wf, Some same, Some vout =>
               if (negb (status =? 1) || vout) && (negb wf || ((status =? 1) && same)) && ((status =? 0) || (status =? 1))
               then Agree else Violates (SL [])
           | _, _, _ => BadCase
           end
       | _ => BadCase
       end.

(* which 40: decoder.New(TypeFromString(name), valid params) *)
Definition select_run (case obs : sx) : verdict :=
  match case with SB name => exact_verdict (select_model name) obs | _ => BadCase end.

(* which 37: jsonDecoder.Decode without / with a wrong first argument: (mode #data) -> (1 1) "empty args" | (1 2) "invalid args" *)
Definition json_args_run (case obs : sx) : verdict :=
  match case with
  | SL [SZ mode; SB _] =>
      if is_bad_obs obs then Violates (SL [SZ 1; SZ (mode + 1)])
      else if (mode =? 0) || (mode =? 1) then exact_verdict (SL [SZ 1; SZ (mode + 1)]) obs else BadCase
  | _ => BadCase
  end.

(* which 9: jsonCutKeep(content, limit) called directly: (limit #content) -> (0 keep) *)
Definition json_keep_run (case obs : sx) : verdict :=
  match case with
  | SL [SZ limit; SB content] =>
      let m := sx_of_res SZ (json_cut_keep content limit) in
      if is_bad_obs obs then Violates m else exact_verdict m obs
  | _ => BadCase
  end.
