(* StreamFlow.v — the life of the events of ONE stream, end to end: taken from the stream in order,
   run through the action chain by the stream's current owner (Model/Proc.v; a processor starts and
   leaves a stream with nothing held, so the successive owners of a stream behave as one logical
   processor), handed to the output (Out), appended to the output's batcher (Add), committed to the
   input.  The composition adds one structural guard (F0) and two FIFO disciplines (F1, F2) to Proc.v, each justified by a component:
     F0  a synchronous output (it commits from inside Out) has no batcher: no ordered event of the
         stream is ever added to one — a guard, checked on every real trace; without it the flow
         theorems fail (Proofs/StreamFlow.v, [fstep_noF0]);
     F1  an event is added to the batcher in the order it was handed to the output (the processor calls
         the output synchronously from the goroutine that owns the stream) — a guard, checked on every
         real trace;
     F2  the batcher commits events in the order they were added (theorem c08_committed_prefix_of_added
         of Model/Batcher.v, projected to one stream) — a guard, checked on every real trace; it FAILS
         with a dead-queue output, which is the recorded finding.
   No proofs here. *)
From Verif Require Import Base.Sx Model.Proc.

Record fst_ := {
  proc : pst;                 (* the logical processor of this stream *)
  outq : list pev;            (* handed to the output, not yet added to the batcher (oldest first) *)
  addq : list pev;            (* added to the batcher, not yet committed (oldest first) *)
  commits : list pev;         (* committed to the input, reversed *)
  sync_out : bool             (* synchronous output: Out commits at once (no batcher) *)
}.
Definition finit (n : Z) (sync : bool) : fst_ :=
  {| proc := pinit n; outq := []; addq := []; commits := []; sync_out := sync |}.

Inductive flabel :=
| FProc (l : plabel)          (* a processor label about an event of this stream *)
| FAdd (e : pev)              (* Batcher.Add of an event of this stream *)
| FCommit (e : pev).          (* input.Commit of an event of this stream *)

Definition ordered (e : pev) : bool := (pkind e =? 0) || (pkind e =? 2).

Definition fstep (s : fst_) (l : flabel) : option fst_ :=
  match l with
  | FProc pl =>
      match pstep (proc s) pl with
      | Some p' =>
          let newout := match pl with
                        | POut e => match stack (proc s) with
                                    | f :: _ => if ordered (fev f) then [fev f] else []
                                    | [] => []
                                    end
                        | _ => []
                        end in
          Some {| proc := p'; outq := outq s ++ newout; addq := addq s; commits := commits s; sync_out := sync_out s |}
      | None => None
      end
  | FAdd e =>
      if negb (ordered e) then Some s else
      if sync_out s then None else                                       (* F0: a synchronous output has no batcher *)
      match outq s with
      | x :: r => if pseq x =? pseq e                                    (* F1 *)
                  then Some {| proc := proc s; outq := r; addq := addq s ++ [x]; commits := commits s; sync_out := sync_out s |}
                  else None
      | [] => None
      end
  | FCommit e =>
      if sync_out s then
        match outq s with
        | x :: r => if pseq x =? pseq e
                    then Some {| proc := proc s; outq := r; addq := addq s; commits := x :: commits s; sync_out := sync_out s |}
                    else None
        | [] => None
        end
      else
        match addq s with
        | x :: r => if pseq x =? pseq e                                  (* F2 *)
                    then Some {| proc := proc s; outq := outq s; addq := r; commits := x :: commits s; sync_out := sync_out s |}
                    else None
        | [] => None
        end
  end.

Fixpoint frun (s : fst_) (ls : list flabel) : option fst_ :=
  match ls with
  | [] => Some s
  | l :: r => match fstep s l with Some s' => frun s' r | None => None end
  end.
