(* Model of pipeline/batch.go (Batcher) + the retry frame of pipeline/backoff.go as a labelled
   transition system at critical-section granularity.  One label = one verifTrace call site
   (emitted inside the mutex region that performs the effect), or one Controller.Commit / panic
   observed by the harness.  [step] returns None when a label is not enabled: for an observed trace
   that is a correspondence break.  Guards quote the code, never the property.  No proofs here. *)
From Verif Require Import Base.Sx.

Record ev := { eid : Z; esrc : Z; esize : Z; ekind : Z }.       (* ekind 2 = child-parent *)
Definition iterable (e : ev) : bool := negb (ekind e =? 2).
Definition ev_eqb (a b : ev) : bool :=
  (eid a =? eid b) && (esrc a =? esrc b) && (esize a =? esize b) && (ekind a =? ekind b).

Record cfg := {
  workers : Z;            (* number of workers = number of Batch objects = capacity of both channels *)
  maxCount : Z;           (* BatchSizeCount, 0 = unlimited *)
  maxBytes : Z;           (* BatchSizeBytes, 0 = unlimited *)
  retriable : bool;       (* OutFn is RetriableBatcher.Out *)
  retry : Z;              (* BackoffOpts.AttemptNum (negative: retry forever); only for the retriable frame *)
  deadq : bool;           (* IsDeadQueueAvailable *)
  atomic_push : bool      (* true: the send into fullBatches happens before mu.Unlock (repaired code) *)
}.

(* position inside RetriableBatcher.Out: before a call of outFn / inside it / after a failed call / finished *)
Inductive phase := PIdle | PCalling | PFailed | PDone.

(* life of a sealed batch *)
Inductive stage :=
| Pending                 (* sealed under mu, not yet sent into fullBatches *)
| Queued                  (* in the channel *)
| Taken                   (* received by a worker *)
| Sending (tries : Z) (ph : phase) (* inside OutFn; tries = numTries of the retry loop *)
| Sent
| Committing (done : nat). (* inside the commit critical section; done = events already committed *)

Record bat := { bseq : Z; bevs : list ev; bstage : stage; bemptied : bool; bstatus : Z }.

Record st := {
  cur : option (list ev);        (* current batch, REVERSED (newest first); None = b.batch == nil *)
  deciding : bool;               (* between Add/Tick and the Seal/NotReady decision of the same critical section *)
  free : Z;                      (* batches in freeBatches *)
  flight : list bat;             (* sealed batches not yet returned to freeBatches, oldest first *)
  queue : list Z;                (* fullBatches content, FIFO *)
  outSeq : Z;
  commitSeq : Z;
  stopped : bool;
  crashed : bool;
  (* history variables *)
  added : list ev;               (* reversed *)
  sealed_hist : list (list ev);  (* reversed list of sealed batches (each in order) *)
  sent_hist : list Z;            (* seqs whose OutFn returned, reversed *)
  committed : list ev;           (* reversed *)
  commit_batches : list Z;       (* seqs in the order their commit section started, reversed *)
  failed_hist : list (Z * Z * bool * list ev);  (* (seq, numTries, backoff-said-Stop, events) handed to onRetryError, reversed *)
  result_hist : list (Z * Z * bool)  (* (seq, numTries, ok) of every return of outFn in the retry frame, reversed *)
}.

Definition init (c : cfg) : st :=
  {| cur := None; deciding := false; free := workers c; flight := []; queue := []; outSeq := 0; commitSeq := 0;
     stopped := false; crashed := false; added := []; sealed_hist := []; sent_hist := []; committed := [];
     commit_batches := []; failed_hist := []; result_hist := [] |}.

Inductive label :=
| LFree                                  (* getBatch took a batch from freeBatches *)
| LAdd (e : ev)                          (* Add appended e (under mu) *)
| LTick                                  (* heartbeat iteration (under mu) *)
| LNotReady (n bytes elapsed timeout : Z) (* trySendBatchAndUnlock: status NotReady *)
| LSeal (seq n status bytes : Z)         (* status: 1 max size, 2 timeout *)
| LPush (seq : Z)                        (* fullBatches <- batch *)
| LTake (seq : Z)
| LOutBegin (seq n : Z)
| LOutSaw (seq : Z) (ids : list Z)       (* what Batch.ForEach yielded inside OutFn (harness observation) *)
| LOutEnd (seq n status : Z)
| LCommitBegin (seq n : Z)
| LCommitEv (e : ev)                     (* Controller.Commit(e), observed by the harness *)
| LCommitEnd (seq status : Z)
| LStop
| LRetryCall (seq tries : Z)             (* retriable frame: outFn about to be called, numTries = tries *)
| LRetryResult (seq tries : Z) (ok : bool)
| LRetryGiveUp (seq tries n : Z) (dq stopbo : bool)  (* onRetryError about to be called; stopbo: backoff returned Stop *)
| LPanic.                                (* a recovered panic of the real code *)

Fixpoint bytes_of (l : list ev) : Z := match l with [] => 0 | e :: r => esize e + bytes_of r end.

(* updateStatus: ready by count or bytes *)
Definition size_ready (c : cfg) (n bytes : Z) : bool :=
  (negb (maxCount c =? 0) && (maxCount c <=? n)) || (negb (maxBytes c =? 0) && (maxBytes c <=? bytes)).

Fixpoint find_bat (l : list bat) (s : Z) : option bat :=
  match l with [] => None | b :: r => if bseq b =? s then Some b else find_bat r s end.
Fixpoint upd_bat (l : list bat) (s : Z) (f : bat -> bat) : list bat :=
  match l with [] => [] | b :: r => if bseq b =? s then f b :: r else b :: upd_bat r s f end.
Fixpoint del_bat (l : list bat) (s : Z) : list bat :=
  match l with [] => [] | b :: r => if bseq b =? s then r else b :: del_bat r s end.
Definition set_stage (g : stage) (b : bat) : bat :=
  {| bseq := bseq b; bevs := bevs b; bstage := g; bemptied := bemptied b; bstatus := bstatus b |}.
Definition busy_workers (l : list bat) : Z :=
  Z.of_nat (length (filter (fun b => match bstage b with Pending | Queued => false | _ => true end) l)).
Definition has_iter (l : list ev) : bool := existsb iterable l.
(* the batch some worker is currently inside OutFn / the commit section with (the retry labels carry no seq) *)
Definition sending_bats (l : list bat) : list bat :=
  filter (fun b => match bstage b with Sending _ _ => true | _ => false end) l.
Definition committing_bat (l : list bat) : option bat :=
  find (fun b => match bstage b with Committing _ => true | _ => false end) l.

Definition upd (s : st) cur' dec' free' flight' queue' out' com' stop' : st :=
  {| cur := cur'; deciding := dec'; free := free'; flight := flight'; queue := queue'; outSeq := out';
     commitSeq := com'; stopped := stop'; crashed := crashed s; added := added s; sealed_hist := sealed_hist s;
     sent_hist := sent_hist s; committed := committed s; commit_batches := commit_batches s;
     failed_hist := failed_hist s; result_hist := result_hist s |}.
Definition with_flight (s : st) fl := upd s (cur s) (deciding s) (free s) fl (queue s) (outSeq s) (commitSeq s) (stopped s).

Definition step (c : cfg) (s : st) (l : label) : option st :=
  if crashed s then None else
  match l with
  | LFree =>
      match cur s with
      | None => if 0 <? free s
                then Some (upd s (Some []) (deciding s) (free s - 1) (flight s) (queue s) (outSeq s) (commitSeq s) (stopped s))
                else None
      | Some _ => None
      end
  | LAdd e =>
      match cur s with
      | Some l0 =>
          if negb (stopped s) && negb (deciding s) then
            let s' := upd s (Some (e :: l0)) true (free s) (flight s) (queue s) (outSeq s) (commitSeq s) (stopped s) in
            Some {| cur := cur s'; deciding := deciding s'; free := free s'; flight := flight s'; queue := queue s';
                    outSeq := outSeq s'; commitSeq := commitSeq s'; stopped := stopped s'; crashed := crashed s';
                    added := e :: added s; sealed_hist := sealed_hist s; sent_hist := sent_hist s;
                    committed := committed s; commit_batches := commit_batches s; failed_hist := failed_hist s; result_hist := result_hist s |}
          else None
      | None => None
      end
  | LTick =>
      (* heartbeat took mu and saw !shouldStop; getBatch / trySendBatchAndUnlock follow in the same section *)
      if negb (stopped s) && negb (deciding s)
      then Some (upd s (cur s) true (free s) (flight s) (queue s) (outSeq s) (commitSeq s) (stopped s))
      else None
  | LNotReady n bytes elapsed timeout =>
      match cur s with
      | Some l0 =>
          (* updateStatus returned NotReady: empty batch, or neither size-ready nor older than the timeout *)
          if deciding s && (n =? Z.of_nat (length l0)) && (bytes =? bytes_of l0) &&
             ((n =? 0) || (negb (size_ready c n bytes) && (elapsed <=? timeout)))
          then Some (upd s (cur s) false (free s) (flight s) (queue s) (outSeq s) (commitSeq s) (stopped s))
          else None
      | None => None
      end
  | LSeal seq n status bytes =>
      match cur s with
      | Some l0 =>
          let evs := rev_append l0 [] in
          if deciding s && (seq =? outSeq s) && (n =? Z.of_nat (length l0)) && (0 <? n) && (bytes =? bytes_of l0) &&
             (if size_ready c n bytes then status =? 1 else status =? 2)
          then
            let b := {| bseq := seq; bevs := evs; bstage := Pending; bemptied := false; bstatus := status |} in
            let s' := upd s None false (free s) (flight s ++ [b]) (queue s) (outSeq s + 1) (commitSeq s) (stopped s) in
            Some {| cur := cur s'; deciding := false; free := free s'; flight := flight s'; queue := queue s';
                    outSeq := outSeq s'; commitSeq := commitSeq s'; stopped := stopped s'; crashed := crashed s';
                    added := added s; sealed_hist := evs :: sealed_hist s; sent_hist := sent_hist s;
                    committed := committed s; commit_batches := commit_batches s; failed_hist := failed_hist s; result_hist := result_hist s |}
          else None
      | None => None
      end
  | LPush seq =>
      match find_bat (flight s) seq with
      | Some b =>
          match bstage b with
          | Pending =>
              if stopped s then
                (* send on a closed channel: run-time panic *)
                Some {| cur := cur s; deciding := deciding s; free := free s; flight := flight s; queue := queue s;
                        outSeq := outSeq s; commitSeq := commitSeq s; stopped := stopped s; crashed := true;
                        added := added s; sealed_hist := sealed_hist s; sent_hist := sent_hist s;
                        committed := committed s; commit_batches := commit_batches s; failed_hist := failed_hist s; result_hist := result_hist s |}
              else Some (upd s (cur s) (deciding s) (free s) (upd_bat (flight s) seq (set_stage Queued)) (queue s ++ [seq])
                             (outSeq s) (commitSeq s) (stopped s))
          | _ => None
          end
      | None => None
      end
  | LTake seq =>
      (* a worker received the batch. The label is emitted AFTER the receive, so two Take labels may be
         logged in an order different from the channel order: the guard only asks that seq is in the channel *)
      if existsb (Z.eqb seq) (queue s) && (busy_workers (flight s) <? workers c)
      then Some (upd s (cur s) (deciding s) (free s) (upd_bat (flight s) seq (set_stage Taken))
                     (filter (fun q => negb (q =? seq)) (queue s)) (outSeq s) (commitSeq s) (stopped s))
      else None
  | LOutBegin seq n =>
      match find_bat (flight s) seq with
      | Some b =>
          match bstage b with
          | Taken => if has_iter (bevs b) && (n =? Z.of_nat (length (bevs b)))
                     then Some (with_flight s (upd_bat (flight s) seq (set_stage (Sending 0 PIdle))))
                     else None
          | _ => None
          end
      | None => None
      end
  | LOutSaw seq ids =>
      match find_bat (flight s) seq with
      | Some b =>
          match bstage b with
          | Sending _ ph =>
              if (match ph with PIdle => negb (retriable c) | PCalling => retriable c | _ => false end) &&
                 sx_eqb (SL (map SZ ids)) (SL (map (fun e => SZ (eid e)) (filter iterable (bevs b))))
              then Some s else None
          | _ => None
          end
      | None => None
      end
  | LOutEnd seq n status =>
      match find_bat (flight s) seq with
      | Some b =>
          match bstage b with
          | Sending _ ph =>
              (* n = len(batch.events) after OutFn: 0 iff the retry frame emptied it (dead queue) *)
              if (match ph with PDone => retriable c | PIdle => negb (retriable c) | _ => false end) &&
                 (if bemptied b then (n =? 0) && (status =? 3) else (n =? Z.of_nat (length (bevs b))) && (status =? bstatus b))
              then
                let s' := with_flight s (upd_bat (flight s) seq (set_stage Sent)) in
                Some {| cur := cur s'; deciding := deciding s'; free := free s'; flight := flight s'; queue := queue s';
                        outSeq := outSeq s'; commitSeq := commitSeq s'; stopped := stopped s'; crashed := crashed s';
                        added := added s; sealed_hist := sealed_hist s; sent_hist := seq :: sent_hist s;
                        committed := committed s; commit_batches := commit_batches s; failed_hist := failed_hist s; result_hist := result_hist s |}
              else None
          | _ => None
          end
      | None => None
      end
  | LCommitBegin seq n =>
      match find_bat (flight s) seq, committing_bat (flight s) with
      | Some b, None =>
          let ready := match bstage b with
                       | Sent => true
                       | Taken => negb (has_iter (bevs b))      (* OutFn is skipped for a batch without iterable events *)
                       | _ => false
                       end in
          (* the code's guard: for b.commitSeq != batchSeq { cond.Wait() } *)
          if ready && (seq =? commitSeq s) && (n =? (if bemptied b then 0 else Z.of_nat (length (bevs b))))
          then
            let s' := upd s (cur s) (deciding s) (free s) (upd_bat (flight s) seq (set_stage (Committing 0))) (queue s)
                          (outSeq s) (commitSeq s + 1) (stopped s) in
            Some {| cur := cur s'; deciding := deciding s'; free := free s'; flight := flight s'; queue := queue s';
                    outSeq := outSeq s'; commitSeq := commitSeq s'; stopped := stopped s'; crashed := crashed s';
                    added := added s; sealed_hist := sealed_hist s; sent_hist := sent_hist s;
                    committed := committed s; commit_batches := seq :: commit_batches s; failed_hist := failed_hist s; result_hist := result_hist s |}
          else None
      | _, _ => None
      end
  | LCommitEv e =>
      match committing_bat (flight s) with
      | Some b =>
          match bstage b with
          | Committing k =>
              match (if bemptied b then None else nth_error (bevs b) k) with
              | Some e' =>
                  if ev_eqb e e' then
                    let s' := with_flight s (upd_bat (flight s) (bseq b) (set_stage (Committing (S k)))) in
                    Some {| cur := cur s'; deciding := deciding s'; free := free s'; flight := flight s'; queue := queue s';
                            outSeq := outSeq s'; commitSeq := commitSeq s'; stopped := stopped s'; crashed := crashed s';
                            added := added s; sealed_hist := sealed_hist s; sent_hist := sent_hist s;
                            committed := e :: committed s; commit_batches := commit_batches s; failed_hist := failed_hist s; result_hist := result_hist s |}
                  else None
              | None => None
              end
          | _ => None
          end
      | None => None
      end
  | LCommitEnd seq status =>
      match find_bat (flight s) seq with
      | Some b =>
          match bstage b with
          | Committing k =>
              if (Z.of_nat k =? (if bemptied b then 0 else Z.of_nat (length (bevs b)))) &&
                 (status =? (if bemptied b then 3 else bstatus b))
              then Some (upd s (cur s) (deciding s) (free s + 1) (del_bat (flight s) seq) (queue s) (outSeq s) (commitSeq s) (stopped s))
              else None
          | _ => None
          end
      | None => None
      end
  | LStop =>
      (* Stop takes mu: it cannot fall between Add/Tick and their decision; with the send inside the
         critical section (atomic_push) it cannot fall between Seal and Push either *)
      if negb (stopped s) && negb (deciding s) &&
         (negb (atomic_push c) || negb (existsb (fun b => match bstage b with Pending => true | _ => false end) (flight s)))
      then Some (upd s (cur s) (deciding s) (free s) (flight s) (queue s) (outSeq s) (commitSeq s) true)
      else None
  | LRetryCall seq t =>
      match find_bat (flight s) seq with
      | Some b =>
          match bstage b with
          | Sending t0 PIdle =>
              if retriable c && (t =? t0) then Some (with_flight s (upd_bat (flight s) seq (set_stage (Sending t0 PCalling)))) else None
          | Sending t0 PFailed =>
              (* the loop goes round again (numTries++) only when the give-up condition is false:
                 not (AttemptNum >= 0 && numTries > AttemptNum)  — backoff.Stop aside *)
              if retriable c && (t =? t0 + 1) && negb ((0 <=? retry c) && (retry c <? t0))
              then Some (with_flight s (upd_bat (flight s) seq (set_stage (Sending t PCalling)))) else None
          | _ => None
          end
      | None => None
      end
  | LRetryResult seq t ok =>
      match find_bat (flight s) seq with
      | Some b =>
          match bstage b with
          | Sending t0 PCalling =>
              if t =? t0 then
                let s' := with_flight s (upd_bat (flight s) seq (set_stage (Sending t0 (if ok then PDone else PFailed)))) in
                Some {| cur := cur s'; deciding := deciding s'; free := free s'; flight := flight s'; queue := queue s';
                        outSeq := outSeq s'; commitSeq := commitSeq s'; stopped := stopped s'; crashed := crashed s';
                        added := added s; sealed_hist := sealed_hist s; sent_hist := sent_hist s;
                        committed := committed s; commit_batches := commit_batches s; failed_hist := failed_hist s;
                        result_hist := (seq, t0, ok) :: result_hist s |}
              else None
          | _ => None
          end
      | None => None
      end
  | LRetryGiveUp seq t n dq stopbo =>
      match find_bat (flight s) seq with
      | Some b =>
          match bstage b with
          | Sending t0 PFailed =>
              (* the code's guard: next == backoff.Stop || (AttemptNum >= 0 && numTries > AttemptNum) *)
              if (t =? t0) && (stopbo || ((0 <=? retry c) && (retry c <? t0))) && (n =? Z.of_nat (length (bevs b))) && Bool.eqb dq (deadq c)
              then
                let b' := {| bseq := bseq b; bevs := bevs b; bstage := Sending t0 PDone; bemptied := deadq c; bstatus := bstatus b |} in
                Some {| cur := cur s; deciding := deciding s; free := free s;
                        flight := upd_bat (flight s) seq (fun _ => b'); queue := queue s;
                        outSeq := outSeq s; commitSeq := commitSeq s; stopped := stopped s; crashed := crashed s;
                        added := added s; sealed_hist := sealed_hist s; sent_hist := sent_hist s;
                        committed := committed s; commit_batches := commit_batches s;
                        failed_hist := (seq, t0, stopbo, bevs b) :: failed_hist s; result_hist := result_hist s |}
              else None
          | _ => None
          end
      | None => None
      end
  | LPanic => None                       (* the model never expects a panic label: it reaches [crashed] itself *)
  end.

Fixpoint run (c : cfg) (s : st) (ls : list label) : option st :=
  match ls with
  | [] => Some s
  | l :: r => match step c s l with Some s' => run c s' r | None => None end
  end.
