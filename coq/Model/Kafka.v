(* Model of plugin/input/kafka: the packing of (topic index, partition) into the event's SourceID
   and of (offset, leader epoch) into the event's Offset, Plugin.Commit, and kgo's marked heads.
   The four packing functions and the data flow of Commit are NOT written here: they are the
   definitions of Gen/KafkaGen.v, generated from the Go AST on every check, so every shift width,
   factor, mask and the `+ 1` is the one in /repo. Nothing here or in Proofs/Kafka.v depends on the
   shape of those definitions (lets, names, << 16 or * 65536, & 0xFFFF or uint16(..)): only on what
   they compute.  No proofs here (Proofs/Kafka.v). *)
From Verif Require Import Base.Sx Base.GoSem Model.KafkaInt Gen.KafkaGen.

(* ---- the packing (generated) -------------------------------------------------------------- *)
(* assembleSourceID(index int, partition int32) pipeline.SourceID *)
Definition assemble_source_id (index partition : Z) : Z := gen_assembleSourceID index partition.
(* disassembleSourceID(id) (index int, partition int32) *)
Definition disassemble_source_id (sid : Z) : Z * Z := gen_disassembleSourceID sid.
(* assembleOffset(record) int64   — record.Offset, record.LeaderEpoch *)
Definition assemble_offset (offset epoch : Z) : Z := gen_assembleOffset offset epoch.
(* disassembleOffset(o) kgo.EpochOffset   — as (Offset to mark, Epoch) *)
Definition disassemble_offset (o : Z) : Z * Z := gen_disassembleOffset o.

(* ---- kgo's marked heads --------------------------------------------------------------------
   franz-go v1.20.7 pkg/kgo/consumer_group.go, MarkCommitOffsets: under g.mu, for every
   (topic, partition, newHead) of the argument:
       current, ok := curPartitions[partition]
       if !ok || current.head.Less(newHead) { head = newHead }
   EpochOffset.Less: ee, oe := max(e.Epoch,-1), max(o.Epoch,-1); ee < oe || ee == oe && e.Offset < o.Offset.
   An EpochOffset is (Offset, Epoch) here. This is an oracle (trusted_base), exercised by the
   harness on every run: the real kgo client holds the marks. *)
Definition eo := (Z * Z)%type.
Definition eo_less (a b : eo) : bool :=
  let ee := Z.max (snd a) (-1) in
  let oe := Z.max (snd b) (-1) in
  (ee <? oe) || ((ee =? oe) && (fst a <? fst b)).

Definition key := (bytes * Z)%type.                       (* topic name, partition *)
Definition key_eqb (a b : key) : bool := N_eqb_list (fst a) (fst b) && (snd a =? snd b).
Definition marks := list (key * eo).

Fixpoint lookup (m : marks) (k : key) : option eo :=
  match m with
  | [] => None
  | (k', h) :: r => if key_eqb k' k then Some h else lookup r k
  end.

Fixpoint mark_update (m : marks) (k : key) (h : eo) : marks :=
  match m with
  | [] => [(k, h)]
  | (k', cur) :: r =>
      if key_eqb k' k then (k', if eo_less cur h then h else cur) :: r
      else (k', cur) :: mark_update r k h
  end.

(* ---- Plugin.Commit ------------------------------------------------------------------------
   index, partition := disassembleSourceID(event.SourceID); offset := disassembleOffset(event.Offset)
   MarkCommitOffsets({p.config.Topics[index]: {partition: offset}})
   (gen_commit_target = Commit executed symbolically by the translator, helpers inlined: the topic
   index, the partition key and the EpochOffset of the one entry handed to MarkCommitOffsets;
   Topics[index] — read exactly once — can panic) *)
Definition commit (topics : list bytes) (m : marks) (ev : Z * Z) : res marks :=
  let '(index, partition, h) := gen_commit_target (fst ev) (snd ev) in
  name <- idx topics index ;;
  Ok (mark_update m (name, partition) h).

Fixpoint commit_all (topics : list bytes) (m : marks) (evs : list (Z * Z)) : res marks :=
  match evs with
  | [] => Ok m
  | ev :: r => m1 <- commit topics m ev ;; commit_all topics m1 r
  end.

(* ---- consumed records and the event the consumer hands to the pipeline ---------------------
   Start: for i, topic := range Topics { idByTopic[topic] = i }   (the last index of a name wins;
   a name that is not in the list reads the map's zero value 0);
   pconsumer.consume: In(assembleSourceID(idByTopic[topic], record.Partition), .., NewOffsets(assembleOffset(record), nil), ..) *)
Record krec := { k_topic : bytes; k_part : Z; k_off : Z; k_epoch : Z }.

Fixpoint last_index (topics : list bytes) (name : bytes) (i : Z) : option Z :=
  match topics with
  | [] => None
  | t :: r =>
      match last_index r name (i + 1) with
      | Some j => Some j
      | None => if N_eqb_list t name then Some i else None
      end
  end.
Definition id_by_topic (topics : list bytes) (name : bytes) : Z :=
  match last_index topics name 0 with Some j => j | None => 0 end.

Definition event_of (topics : list bytes) (r : krec) : Z * Z :=
  (assemble_source_id (id_by_topic topics (k_topic r)) (k_part r), assemble_offset (k_off r) (k_epoch r)).

(* Commit called once for each record of rs, in the order of the list (any order, repetitions
   allowed: the list is the sequence of Commit calls, not the log) *)
Definition commit_records (topics : list bytes) (m : marks) (rs : list krec) : res marks :=
  commit_all topics m (map (event_of topics) rs).

(* the stated ranges of the property: partitions 0..65535, offsets 0..2^47-1, epochs 0..65535 *)
Definition rec_in_range_b (topics : list bytes) (r : krec) : bool :=
  existsb (fun t => N_eqb_list t (k_topic r)) topics
  && (0 <=? k_part r) && (k_part r <? 2 ^ 16)
  && (0 <=? k_off r) && (k_off r <? 2 ^ 47)
  && (0 <=? k_epoch r) && (k_epoch r <? 2 ^ 16).

(* =============================================================================================
   Exchange glue
   which = 0  pack      case (index partition offset epoch)         values of Go's int / int32 / int64 / int32
                        obs  (sid index' partition' packed markOffset markEpoch)
   which = 1  unpack    case (sid packed)                            any uint64 / int64
                        obs  (index' partition' markOffset markEpoch)
   which = 2  consume + commit
                        case ((topic ...) ((topicIdx partition offset epoch) ...) (k ...))
                             records are consumed in order; Commit is called for the k-th event, in the order of the third list
                        obs  (((sid packed) ...) status (marks-after-each-commit ...))   marks = ((topic partition offset epoch) ...) sorted
   which = 3  commit of raw events
                        case ((topic ...) ((sid packed) ...))
                        obs  (status (marks-after-each-commit ...))
   which = 4  consumer-group session on the real Assigned / Lost / pconsumer goroutines: see c10_session_run
   status: 0 = all commits returned, 2 = a Commit panicked with index out of range (the run stops there) *)

Definition z4_of_sx (s : sx) : option (Z * Z * Z * Z) :=
  match s with SL [SZ a; SZ b; SZ c; SZ d] => Some (a, b, c, d) | _ => None end.
Definition z2_of_sx (s : sx) : option (Z * Z) :=
  match s with SL [SZ a; SZ b] => Some (a, b) | _ => None end.

Definition pack_in_range (index partition offset epoch : Z) : bool :=
  (0 <=? index) && (index <? 2 ^ 48) && (0 <=? partition) && (partition <? 2 ^ 16)
  && (0 <=? offset) && (offset <? 2 ^ 47) && (0 <=? epoch) && (epoch <? 2 ^ 16).

Definition pack_model (index partition offset epoch : Z) : sx :=
  let sid := assemble_source_id index partition in
  let '(i', p') := disassemble_source_id sid in
  let po := assemble_offset offset epoch in
  let '(mo, me) := disassemble_offset po in
  SL [SZ sid; SZ i'; SZ p'; SZ po; SZ mo; SZ me].

(* the property's predicate on what the implementation did: inside the stated ranges the
   unpacked values are the packed ones and the mark is offset + 1 *)
Definition pack_pred (index partition offset epoch : Z) (obs : sx) : bool :=
  if pack_in_range index partition offset epoch then
    match obs with
    | SL [SZ _; SZ i'; SZ p'; SZ _; SZ mo; SZ me] =>
        (i' =? index) && (p' =? partition) && (mo =? offset + 1) && (me =? epoch)
    | _ => false
    end
  else true.

Definition verdict_of (model obs : sx) (pred : bool) : verdict :=
  if sx_eqb model obs then (if pred then Agree else Violates model)
  else if pred then Differ model else Violates model.

(* sorted, printable marks; kgo's MarkedOffsets() leaves out a head equal to `committed`, which
   stays the zero EpochOffset because the harness' client never commits *)
Fixpoint bytes_ltb (a b : bytes) : bool :=
  match a, b with
  | _, [] => false
  | [], _ :: _ => true
  | x :: a', y :: b' => (x <? y)%N || ((x =? y)%N && bytes_ltb a' b')
  end.
Definition key_ltb (a b : key) : bool :=
  bytes_ltb (fst a) (fst b) || (N_eqb_list (fst a) (fst b) && (snd a <? snd b)).
Fixpoint insert_mark (x : key * eo) (l : marks) : marks :=
  match l with
  | [] => [x]
  | y :: r => if key_ltb (fst x) (fst y) then x :: l else y :: insert_mark x r
  end.
Definition sort_marks (m : marks) : marks := fold_right insert_mark [] m.
Definition visible (x : key * eo) : bool := negb ((fst (snd x) =? 0) && (snd (snd x) =? 0)).
Definition sx_of_marks (m : marks) : sx :=
  SL (map (fun x : key * eo => SL [SB (fst (fst x)); SZ (snd (fst x)); SZ (fst (snd x)); SZ (snd (snd x))])
          (sort_marks (filter visible m))).

(* run the commits, recording the marks after each one; stops at the first panic *)
Fixpoint commit_trace (topics : list bytes) (m : marks) (evs : list (Z * Z)) : list marks * Z :=
  match evs with
  | [] => ([], 0)
  | ev :: r =>
      match commit topics m ev with
      | Ok m1 => let '(tr, st) := commit_trace topics m1 r in (m1 :: tr, st)
      | Panic p => ([], p)
      | Err e => ([], -1)
      end
  end.

Definition rec_of_sx (topics : list bytes) (s : sx) : option krec :=
  match z4_of_sx s with
  | Some (ti, p, o, e) =>
      match idx topics ti with
      | Ok name => Some {| k_topic := name; k_part := p; k_off := o; k_epoch := e |}
      | _ => None
      end
  | None => None
  end.

Fixpoint pick {A} (l : list A) (ks : list Z) : option (list A) :=
  match ks with
  | [] => Some []
  | k :: r =>
      match (if 0 <=? k then nth_error l (Z.to_nat k) else None), pick l r with
      | Some x, Some xs => Some (x :: xs)
      | _, _ => None
      end
  end.

(* observed marks, decoded *)
Definition mark_of_sx (s : sx) : option (key * eo) :=
  match s with SL [SB n; SZ p; SZ o; SZ e] => Some ((n, p), (o, e)) | _ => None end.

(* property predicate on observed traces of marks: every visible head is (offset + 1, epoch) of a
   consumed record of that very topic and partition, and no head ever moves backwards in kgo's order *)
Definition head_of_some_record (rs : list krec) (x : key * eo) : bool :=
  existsb (fun r => key_eqb (k_topic r, k_part r) (fst x)
                    && (fst (snd x) =? k_off r + 1) && (snd (snd x) =? k_epoch r)) rs.
Fixpoint steps_monotone (prev : marks) (steps : list marks) : bool :=
  match steps with
  | [] => true
  | m :: r =>
      forallb (fun x : key * eo =>
                 match lookup prev (fst x), lookup m (fst x) with
                 | Some hp, Some h => negb (eo_less h hp)     (* the new head is not below the old one *)
                 | None, _ => true
                 | Some _, None => false                      (* a marked partition never loses its mark *)
                 end) prev
      && steps_monotone m r
  end.
Definition marks_pred (topics : list bytes) (rs : list krec) (steps : list marks) : bool :=
  if forallb (rec_in_range_b topics) rs then
    forallb (forallb (head_of_some_record rs)) steps && steps_monotone [] steps
  else true.

(* ---- the topic index <-> topic name resolution, as a function of the CONFIGURED list ---------------
   Start (kafka.go:285-288) fills idByTopic from the positions of config.Topics — the LAST position of a name
   that is listed more than once —, the consumer packs that index into the source id, and Commit (kafka.go:
   331-337) turns the index back into a name by reading config.Topics[index]. The two ends only fit together
   when both read the same list: index_of_topic / topic_of_index are the two directions, over the list as the
   configuration gives it (repeats, any order, names that are prefixes of one another). Round trip:
   Proofs/Kafka.v topic_resolution_roundtrip. *)
Definition index_of_topic (topics : list bytes) (name : bytes) : Z := id_by_topic topics name.
Definition topic_of_index (topics : list bytes) (index : Z) : res bytes := idx topics index.
(* the executable form of the round trip, evaluated by the sub-models on every case's topics list *)
Definition topics_resolve_b (topics : list bytes) : bool :=
  forallb (fun t => match topic_of_index topics (index_of_topic topics t) with
                    | Ok n => N_eqb_list n t
                    | _ => false
                    end) topics.

(* ---- a mark exists only for an ACKNOWLEDGED record of exactly that topic and partition -------------
   snaps_of acked calls: the records acknowledged (Commit was called for them) after the 1st, 2nd, ... call of
   [calls], given those acknowledged before; acks_pred snaps steps: every head visible after the i-th step is
   (offset + 1, epoch) of a record acknowledged BY THEN, under that record's own topic name and partition.
   (marks_pred above only asks for a CONSUMED record.) More steps than acknowledgements: false. *)
Fixpoint snaps_of (acked : list krec) (calls : list krec) : list (list krec) :=
  match calls with
  | [] => []
  | r :: cr => (r :: acked) :: snaps_of (r :: acked) cr
  end.
Fixpoint acks_pred (snaps : list (list krec)) (steps : list marks) : bool :=
  match steps with
  | [] => true
  | m :: sr =>
      match snaps with
      | a :: ar => forallb (head_of_some_record a) m && acks_pred ar sr
      | [] => false
      end
  end.
(* the clause on an observed trace of marks after the Commit calls for the ks-th of the records rs *)
Definition acked_marks_pred (topics : list bytes) (rs : list krec) (ks : list Z) (steps : list marks) : bool :=
  if forallb (rec_in_range_b topics) rs then
    match pick rs ks with
    | Some cs => acks_pred (snaps_of [] cs) steps
    | None => false
    end
  else true.

Definition c10_commit_run (case obs : sx) : verdict :=
  match case with
  | SL [SL ts; SL recs; SL order] =>
      match opt_map as_B ts, opt_map as_Z order with
      | Some topics, Some ks =>
          match opt_map (rec_of_sx topics) recs with
          | Some rs =>
              let evs := map (event_of topics) rs in
              match pick evs ks with
              | Some calls =>
                  let '(tr, st) := commit_trace topics [] calls in
                  let model := SL [SL (map (fun ev : Z * Z => SL [SZ (fst ev); SZ (snd ev)]) evs);
                                   SZ st; SL (map sx_of_marks tr)] in
                  let pred :=
                    match obs with
                    | SL [SL _; SZ ost; SL osteps] =>
                        match opt_map (as_list mark_of_sx) osteps with
                        | Some steps =>
                            marks_pred topics rs steps
                            && acked_marks_pred topics rs ks steps
                            && (if forallb (rec_in_range_b topics) rs
                                then (ost =? 0) && (Z.of_nat (length steps) =? Z.of_nat (length ks)) else true)
                        | None => false
                        end
                    | _ => false
                    end in
                  verdict_of model obs pred
              | None => BadCase
              end
          | None => BadCase
          end
      | _, _ => BadCase
      end
  | _ => BadCase
  end.

Definition c10_raw_run (case obs : sx) : verdict :=
  match case with
  | SL [SL ts; SL evs] =>
      match opt_map as_B ts, opt_map z2_of_sx evs with
      | Some topics, Some calls =>
          let '(tr, st) := commit_trace topics [] calls in
          let model := SL [SZ st; SL (map sx_of_marks tr)] in
          (* raw bit patterns are outside the property's quantifier: only model = implementation
             is demanded (a difference is reported as Differ) *)
          verdict_of model obs true
      | _, _ => BadCase
      end
  | _ => BadCase
  end.

(* ---- which = 4: a consumer-group session (harness/c10/session.go) ----------------------------
   case ((topic ...) (op ...) (k ...)) with
     op (0 (ti part) ...)                    splitConsume.Assigned: one pconsumer per (topic NAME, partition)
        (1 ti part (off epoch) ...)          a polled fetch, routed to the partition's consumer when there is one
                                             (consumer.go:95-103), otherwise dropped ("consumer not ready yet")
        (2 (ti part) ...)                    splitConsume.Lost after everything routed so far was delivered
        (3 ((ti part) ...) (fetch ...))      Lost while the fetches are buffered: a lost partition delivers the first
                                             c of its k fetches, 1 <= c <= k (the select of pconsumer.consume between the
                                             closed quit and the non-empty channel is a free choice; the first fetch is
                                             already being delivered when Lost starts), c = 0 when k = 0; the other
                                             partitions deliver everything
   obs  ((c ...) ((sid (packed ...)) ...) status (marks-after-each-commit ...))
   The c's are read from the observation (one per lost partition of every op 3, in order) and checked against
   their bounds; given them the delivered events are determined. Commit is called for the (k mod n)-th of the n
   delivered events, in group order. The map of consumers is keyed by topic name: the key here is (name, partition).
   Assigned of a partition that has a consumer (the old goroutine would leak) and Lost of one that has none (nil
   dereference in consumer.go:66) never happen under kgo's callbacks: BadCase. *)
Inductive sop : Type :=
| SAssign (tps : list key)
| SFetch (k : key) (rs : list krec)
| SLost (tps : list key)
| SGated (tps : list key) (fs : list (key * list krec)).

Definition tp_of_sx (topics : list bytes) (s : sx) : option key :=
  match s with
  | SL [SZ ti; SZ p] => match idx topics ti with Ok name => Some (name, p) | _ => None end
  | _ => None
  end.
Definition fetch_of_sx (topics : list bytes) (s : sx) : option (key * list krec) :=
  match s with
  | SL (SZ ti :: SZ p :: recs) =>
      match idx topics ti, opt_map z2_of_sx recs with
      | Ok name, Some oes =>
          Some ((name, p), map (fun oe : Z * Z => {| k_topic := name; k_part := p; k_off := fst oe; k_epoch := snd oe |}) oes)
      | _, _ => None
      end
  | _ => None
  end.
Definition sop_of_sx (topics : list bytes) (s : sx) : option sop :=
  match s with
  | SL [SZ 3; SL tps; SL fs] =>
      match opt_map (tp_of_sx topics) tps, opt_map (fetch_of_sx topics) fs with
      | Some a, Some b => Some (SGated a b)
      | _, _ => None
      end
  | SL (SZ 0 :: tps) => option_map SAssign (opt_map (tp_of_sx topics) tps)
  | SL (SZ 1 :: f) => option_map (fun kr : key * list krec => SFetch (fst kr) (snd kr)) (fetch_of_sx topics (SL f))
  | SL (SZ 2 :: tps) => option_map SLost (opt_map (tp_of_sx topics) tps)
  | _ => None
  end.

Record sstate : Type := {
  ss_live : list key;                      (* partitions that have a consumer *)
  ss_deliv : list (key * list krec);       (* per partition the delivered records, latest first *)
  ss_cs : list Z;                          (* observed c's not yet used *)
  ss_ok : bool;                            (* every c so far was inside its bounds *)
  ss_bad : bool                            (* the script left the callbacks' protocol *)
}.
Definition key_mem (k : key) (l : list key) : bool := existsb (key_eqb k) l.
Fixpoint keys_nodup (l : list key) : bool :=
  match l with [] => true | k :: r => negb (key_mem k r) && keys_nodup r end.
Definition keys_remove (l del : list key) : list key := filter (fun k => negb (key_mem k del)) l.
Fixpoint deliv_add (d : list (key * list krec)) (k : key) (rs : list krec) : list (key * list krec) :=
  match d with
  | [] => [(k, rev_append rs [])]
  | (k', l) :: r => if key_eqb k' k then (k', rev_append rs l) :: r else (k', l) :: deliv_add r k rs
  end.
(* the gated fetches: the ones of surviving partitions are delivered, the ones of lost partitions are kept aside *)
Fixpoint gated_route (live lost : list key) (d : list (key * list krec)) (fs : list (key * list krec))
  : list (key * list krec) * list (key * list krec) :=
  match fs with
  | [] => (d, [])
  | (k, rs) :: r =>
      if negb (key_mem k live) then gated_route live lost d r
      else if key_mem k lost then let '(d', held) := gated_route live lost d r in (d', (k, rs) :: held)
      else gated_route live lost (deliv_add d k rs) r
  end.
Fixpoint gated_lost (held : list (key * list krec)) (tps : list key) (st : sstate) : sstate :=
  match tps with
  | [] => st
  | tp :: r =>
      let bs := map snd (filter (fun f : key * list krec => key_eqb (fst f) tp) held) in
      let k := Z.of_nat (length bs) in
      let '(c, cs', have) := match ss_cs st with c :: cs' => (c, cs', true) | [] => (0, [], false) end in
      let valid := have && (if k =? 0 then c =? 0 else (1 <=? c) && (c <=? k)) in
      let d := fold_left (fun d b => deliv_add d tp b) (firstn (Z.to_nat c) bs) (ss_deliv st) in
      gated_lost held r {| ss_live := ss_live st; ss_deliv := d; ss_cs := cs'; ss_ok := ss_ok st && valid; ss_bad := ss_bad st |}
  end.
Definition sstep (st : sstate) (o : sop) : sstate :=
  match o with
  | SAssign tps =>
      let bad := negb (keys_nodup tps) || existsb (fun k => key_mem k (ss_live st)) tps in
      {| ss_live := tps ++ ss_live st; ss_deliv := ss_deliv st; ss_cs := ss_cs st; ss_ok := ss_ok st; ss_bad := ss_bad st || bad |}
  | SFetch k rs =>
      if key_mem k (ss_live st)
      then {| ss_live := ss_live st; ss_deliv := deliv_add (ss_deliv st) k rs; ss_cs := ss_cs st; ss_ok := ss_ok st; ss_bad := ss_bad st |}
      else st
  | SLost tps =>
      let bad := negb (keys_nodup tps) || negb (forallb (fun k => key_mem k (ss_live st)) tps) in
      {| ss_live := keys_remove (ss_live st) tps; ss_deliv := ss_deliv st; ss_cs := ss_cs st; ss_ok := ss_ok st; ss_bad := ss_bad st || bad |}
  | SGated tps fs =>
      let bad := negb (keys_nodup tps) || negb (forallb (fun k => key_mem k (ss_live st)) tps) in
      let '(d, held) := gated_route (ss_live st) tps (ss_deliv st) fs in
      let st1 := gated_lost held tps
                   {| ss_live := ss_live st; ss_deliv := d; ss_cs := ss_cs st; ss_ok := ss_ok st; ss_bad := ss_bad st || bad |} in
      {| ss_live := keys_remove (ss_live st1) tps; ss_deliv := ss_deliv st1; ss_cs := ss_cs st1; ss_ok := ss_ok st1; ss_bad := ss_bad st1 |}
  end.

(* groups ((sid, records in delivery order) ...) sorted by source id *)
Definition sgroup := (Z * list krec)%type.
Fixpoint insert_group (x : sgroup) (l : list sgroup) : list sgroup :=
  match l with
  | [] => [x]
  | y :: r => if fst x <? fst y then x :: l else y :: insert_group x r
  end.
Definition groups_of (topics : list bytes) (d : list (key * list krec)) : list sgroup :=
  fold_right insert_group []
    (map (fun e : key * list krec =>
            (assemble_source_id (id_by_topic topics (fst (fst e))) (snd (fst e)), rev_append (snd e) []))
         (filter (fun e : key * list krec => match snd e with [] => false | _ => true end) d)).

Definition c10_session_run (case obs : sx) : verdict :=
  match case with
  | SL [SL ts; SL ops; SL order] =>
      match opt_map as_B ts, opt_map as_Z order with
      | Some topics, Some ks =>
          match opt_map (sop_of_sx topics) ops with
          | Some sops =>
              let cs_obs := match obs with
                            | SL (SL cs :: _) => match opt_map as_Z cs with Some l => l | None => [] end
                            | _ => []
                            end in
              let st := fold_left sstep sops {| ss_live := []; ss_deliv := []; ss_cs := cs_obs; ss_ok := true; ss_bad := false |} in
              if ss_bad st then BadCase else
              let groups := groups_of topics (ss_deliv st) in
              let rs := concat (map snd groups) in
              let evs := map (event_of topics) rs in
              let n := Z.of_nat (length evs) in
              let idxs := if n =? 0 then [] else map (fun k => k mod n) ks in
              match pick evs idxs with
              | Some calls =>
                  let '(tr, stt) := commit_trace topics [] calls in
                  let model :=
                    SL [SL (map SZ cs_obs);
                        SL (map (fun g : sgroup => SL [SZ (fst g); SL (map (fun r => SZ (snd (event_of topics r))) (snd g))]) groups);
                        SZ stt; SL (map sx_of_marks tr)] in
                  let pred :=
                    ss_ok st && (match ss_cs st with [] => true | _ => false end) &&
                    match obs with
                    | SL [SL _; SL _; SZ ost; SL osteps] =>
                        match opt_map (as_list mark_of_sx) osteps with
                        | Some steps =>
                            marks_pred topics rs steps
                            && acked_marks_pred topics rs idxs steps
                            && (if forallb (rec_in_range_b topics) rs
                                then (ost =? 0) && (Z.of_nat (length steps) =? Z.of_nat (length idxs)) else true)
                        | None => false
                        end
                    | _ => false
                    end in
                  verdict_of model obs pred
              | None => BadCase
              end
          | None => BadCase
          end
      | _, _ => BadCase
      end
  | _ => BadCase
  end.

Definition c10_entry (which : Z) (case obs : sx) : verdict :=
  match which with
  | 0 =>
      match z4_of_sx case with
      | Some (i, p, o, e) => verdict_of (pack_model i p o e) obs (pack_pred i p o e obs)
      | None => BadCase
      end
  | 1 =>
      match z2_of_sx case with
      | Some (sid, po) =>
          let '(i', p') := disassemble_source_id sid in
          let '(mo, me) := disassemble_offset po in
          verdict_of (SL [SZ i'; SZ p'; SZ mo; SZ me]) obs true
      | None => BadCase
      end
  | 2 => c10_commit_run case obs
  | 3 => c10_raw_run case obs
  | 4 => c10_session_run case obs
  | _ => BadCase
  end.
