(* C15, which = 6: the REAL join / join_template plugin inside a REAL pipeline (harness/c15/pipejoin.go).
   The pipeline creates one instance of the action per processor; a stream is served by one processor at a
   time and stays with it while the action is busy.  What the harness records is the sequence of Do calls
   of every instance (which instance, which stream, regular event or time-out, the ActionResult), what
   reached the output and what was committed to the input.  The schedule is not predictable, so the model
   does not predict the observation: it JUDGES it.

     monitor 1  no panic, quiescent, Stop returned
     monitor 2  delivery discipline: an instance that is busy (its last Do returned Hold / Collapse) receives
                only events of the stream it holds (or that stream's time-out); a time-out goes only to a busy
                instance; a stream is never given to a second instance while one is busy with it
                ("events of different streams or sources are never merged", processor half)
     monitor 3  per stream, the Do calls are the join state machine of Model/Join.v run over the events fed to
                that stream, in order, where an event the action's selector (match_fields / match_mode /
                match_invert / do_if) rejects is skipped by an IDLE action and passes unchanged, while a BUSY
                action sees every event; the ActionResults are the model's; what reaches the output for that
                stream is, in order, exactly the skipped events, the passed events and the flushed runs with
                the model's content; at the end no run is open unless the pipeline was stopped, and a run that
                is open when the pipeline stops never reaches the output
     monitor 5  the input commits of a stream are the events that reached the output, in that order

   Proofs/C15Pipe.v: under monitor 2 the per-INSTANCE state machines (what the code has) and the per-STREAM
   state machines (what monitor 3 replays) are the same thing (pj_instances_as_one); monitor 3 implies that the
   delivered sequence of every stream satisfies the delivery hypothesis busy_ok of the action-level theorems
   and is a panic-free join_run with the observed results (pj_gate_sound).  No proofs here. *)
From Verif Require Import Base.Sx Base.GoSem Model.Join.

(* ---- association lists keyed by Z ------------------------------------------------------------ *)
Fixpoint zlookup {A} (k : Z) (m : list (Z * A)) : option A :=
  match m with
  | [] => None
  | (k', v) :: r => if k' =? k then Some v else zlookup k r
  end.
Definition zget {A} (d : A) (k : Z) (m : list (Z * A)) : A :=
  match zlookup k m with Some v => v | None => d end.

(* ---- per-instance and per-stream replay of a log of Do calls ---------------------------------- *)
(* one Do call: (instance, stream, the event) *)
Definition pjcall : Type := Z * Z * jev.

(* what the code has: one join state per action instance *)
Fixpoint inst_run (c : jcfg) (I : list (Z * jstate)) (log : list pjcall) : list jstep * bool :=
  match log with
  | [] => ([], true)
  | (i, _, e) :: r =>
      match join_do c (zget jstate0 i I) e with
      | Ok (st', o) => let '(os, ok) := inst_run c ((i, st') :: I) r in (o :: os, ok)
      | _ => ([], false)
      end
  end.

(* what the property speaks about: one join state per stream *)
Fixpoint stream_run (c : jcfg) (V : list (Z * jstate)) (log : list pjcall) : list jstep * bool :=
  match log with
  | [] => ([], true)
  | (_, s, e) :: r =>
      match join_do c (zget jstate0 s V) e with
      | Ok (st', o) => let '(os, ok) := stream_run c ((s, st') :: V) r in (o :: os, ok)
      | _ => ([], false)
      end
  end.

(* the delivery discipline on (instance, stream, busy after the call); B : instance -> the stream it holds *)
Definition opt_is (o : option Z) (s : Z) : bool := match o with Some x => x =? s | None => false end.

Fixpoint pj_disc (B : list (Z * option Z)) (l : list (Z * Z * bool)) : bool :=
  match l with
  | [] => true
  | (i, s, busy) :: r =>
      (match zget None i B with Some s' => s' =? s | None => true end) &&
      forallb (fun j => (j =? i) || negb (opt_is (zget None j B) s)) (map fst B) &&
      pj_disc ((i, if busy then Some s else None) :: B) r
  end.

Fixpoint zip_busy (log : list pjcall) (os : list jstep) : list (Z * Z * bool) :=
  match log, os with
  | (i, s, _) :: l', o :: os' => (i, s, is_busy (fst o)) :: zip_busy l' os'
  | _, _ => []
  end.

(* ---- the observation ------------------------------------------------------------------------- *)
Record pjev := { pe_stream : Z; pe_match : bool; pe_in : jin }.
Record pjdo := { pd_inst : Z; pd_stream : Z; pd_timeout : bool; pd_id : Z; pd_res : Z }.
Definition oute : Type := Z * bool * bytes.                 (* id, field present, field content *)

Definition oute_eqb (a b : oute) : bool :=
  let '(i, p, f) := a in let '(j, q, g) := b in (i =? j) && Bool.eqb p q && bytes_eqb f g.

Fixpoint take_prefix (exp outs : list oute) : option (list oute) :=
  match exp with
  | [] => Some outs
  | e :: exp' => match outs with
                 | o :: outs' => if oute_eqb e o then take_prefix exp' outs' else None
                 | [] => None
                 end
  end.

Definition has_field (x : jin) : bool := match x with JField _ _ _ _ => true | _ => false end.
Definition pass_out (id : Z) (x : jin) : oute := (id, has_field x, jval x).
Definition emit_out (p : Z * bytes) : oute := (fst p, true, snd p).

(* monitor 2 on the observed calls (the results are the OBSERVED ones) *)
Fixpoint pj_discipline (B : list (Z * option Z)) (dos : list pjdo) : bool :=
  match dos with
  | [] => true
  | d :: r =>
      let i := pd_inst d in let s := pd_stream d in
      (match zget None i B with Some s' => s' =? s | None => negb (pd_timeout d) end) &&
      forallb (fun j => (j =? i) || negb (opt_is (zget None j B) s)) (map fst B) &&
      pj_discipline ((i, if is_busy (pd_res d) then Some s else None) :: B) r
  end.

(* an idle action skips the events its selector rejects: they go on unchanged *)
Fixpoint skip_to (id : Z) (fed : list (Z * pjev)) (outs : list oute) : option (pjev * list (Z * pjev) * list oute) :=
  match fed with
  | [] => None
  | (fid, e) :: r =>
      if fid =? id then Some (e, r, outs)
      else if pe_match e then None                           (* an event the selector accepts was not delivered *)
      else match outs with
           | o :: outs' => if oute_eqb o (pass_out fid (pe_in e)) then skip_to id r outs' else None
           | [] => None
           end
  end.

(* after the last Do call: the idle action lets the rest through (all of it unless the pipeline was stopped) *)
Fixpoint rest_ok (stop : bool) (fed : list (Z * pjev)) (outs : list oute) : bool :=
  match outs with
  | [] => match fed with [] => true | _ :: _ => stop end
  | o :: outs' =>
      match fed with
      | (fid, e) :: r => negb (pe_match e) && oute_eqb o (pass_out fid (pe_in e)) && rest_ok stop r outs'
      | [] => false
      end
  end.

(* monitor 3 for one stream: fed = the events of the stream (id, event) in feeding order, dos = the Do calls made
   for the stream, outs = what reached the output for the stream *)
Fixpoint gate_run (c : jcfg) (stop : bool) (st : jstate) (fed : list (Z * pjev)) (dos : list pjdo)
                  (outs : list oute) : bool :=
  match dos with
  | [] =>
      if isJoining st then stop && (match outs with [] => true | _ :: _ => false end)
      else rest_ok stop fed outs
  | d :: dos' =>
      if pd_timeout d then
        match join_do c st (-1, JTimeout) with
        | Ok (st', (r, em)) =>
            (r =? pd_res d) &&
            match take_prefix (map emit_out em) outs with
            | Some outs' => gate_run c stop st' fed dos' outs'
            | None => false
            end
        | _ => false
        end
      else
        match (if isJoining st
               then match fed with
                    | (fid, e) :: r => if fid =? pd_id d then Some (e, r, outs) else None   (* a busy action sees every event *)
                    | [] => None
                    end
               else skip_to (pd_id d) fed outs) with
        | Some (e, fed', outs1) =>
            (isJoining st || pe_match e) &&
            match join_do c st (pd_id d, pe_in e) with
            | Ok (st', (r, em)) =>
                (r =? pd_res d) &&
                match take_prefix (map emit_out em ++ (if r =? APass then [pass_out (pd_id d) (pe_in e)] else [])) outs1 with
                | Some outs' => gate_run c stop st' fed' dos' outs'
                | None => false
                end
            | _ => false
            end
        | None => false
        end
  end.

(* ---- exchange glue ---------------------------------------------------------------------------
   case = (jcfg mcfg pcfg (ev ...)),  jcfg = (max (neg ...) extra), mcfg = (mode invert doif),
          pcfg = (procs capacity evTimeoutMs stop),  ev = (stream match gapMs jin #extra)
   obs  = ((do ...) (out ...) (commit ...) flag),  do = (inst stream kind id result),
          out = (stream id present #f), commit = (stream id)                                        *)
Definition pjev_of_sx (s : sx) : option pjev :=
  match s with
  | SL [SZ st; m; SZ _; x; SB _] =>
      match as_bool m, jin_of_sx x with
      | Some b, Some JTimeout => None                          (* time-outs come from the pipeline *)
      | Some b, Some j => Some {| pe_stream := st; pe_match := b; pe_in := j |}
      | _, _ => None
      end
  | _ => None
  end.

Definition pjcase_of_sx (s : sx) : option (jcfg * bool * list pjev) :=
  match s with
  | SL [SL [SZ max; negs; _]; SL [SZ _; _; _]; SL [SZ _; SZ _; SZ _; SZ stop]; evs] =>
      match as_list as_bool negs, as_list pjev_of_sx evs with
      | Some ns, Some xs => Some ({| jmax := max; jnegs := ns |}, negb (stop =? 0), xs)
      | _, _ => None
      end
  | _ => None
  end.

Definition pjdo_of_sx (s : sx) : option pjdo :=
  match s with
  | SL [SZ i; SZ st; SZ k; SZ id; SZ r] =>
      Some {| pd_inst := i; pd_stream := st; pd_timeout := negb (k =? 0); pd_id := id; pd_res := r |}
  | _ => None
  end.

Definition pjout_of_sx (s : sx) : option (Z * oute) :=
  match s with
  | SL [SZ st; SZ id; p; SB f] => match as_bool p with Some b => Some (st, (id, b, f)) | None => None end
  | _ => None
  end.

Definition pjcommit_of_sx (s : sx) : option (Z * Z) :=
  match s with SL [SZ st; SZ id] => Some (st, id) | _ => None end.

Fixpoint zmem (k : Z) (l : list Z) : bool :=
  match l with [] => false | x :: r => (x =? k) || zmem k r end.
Fixpoint znodup (l : list Z) (seen : list Z) : list Z :=
  match l with
  | [] => []
  | x :: r => if zmem x seen then znodup r seen else x :: znodup r (x :: seen)
  end.

Definition of_stream {A} (s : Z) (l : list (Z * A)) : list A :=
  flat_map (fun p : Z * A => if fst p =? s then [snd p] else []) l.

Definition pj_failing (ms : list (Z * bool)) : list Z :=
  flat_map (fun m : Z * bool => if snd m then @nil Z else [fst m]) ms.

Definition pj_monitors (c : jcfg) (stop : bool) (evs : list pjev) (dos : list pjdo)
                       (outs : list (Z * oute)) (commits : list (Z * Z)) (flag : Z) : list (Z * bool) :=
  let fed := number_from 0 evs in
  let streams := znodup (map pe_stream evs) [] in
  let known := forallb (fun d => zmem (pd_stream d) streams) dos &&
               forallb (fun o : Z * oute => zmem (fst o) streams) outs &&
               forallb (fun o : Z * Z => zmem (fst o) streams) commits in
  [(1, flag =? 0);
   (2, pj_discipline [] dos);
   (3, known &&
       forallb (fun s => gate_run c stop jstate0
                           (flat_map (fun p : Z * pjev => if pe_stream (snd p) =? s then [p] else []) fed)
                           (flat_map (fun d => if pd_stream d =? s then [d] else []) dos)
                           (of_stream s outs)) streams);
   (5, forallb (fun s => sx_eqb (SL (map SZ (of_stream s commits)))
                                (SL (map (fun o : oute => SZ (fst (fst o))) (of_stream s outs)))) streams)].

Definition c15_pj_run (case obs : sx) : verdict :=
  match pjcase_of_sx case, obs with
  | Some (c, stop, evs), SL [SL dos; SL outs; SL commits; SZ flag] =>
      if forallb (fun e => jin_wf c (pe_in e)) evs then
        match opt_map pjdo_of_sx dos, opt_map pjout_of_sx outs, opt_map pjcommit_of_sx commits with
        | Some ds, Some os, Some cs =>
            match pj_failing (pj_monitors c stop evs ds os cs flag) with
            | [] => Agree
            | fs => Violates (SL (map SZ fs))
            end
        | _, _, _ => BadCase
        end
      else BadCase
  | _, _ => BadCase
  end.
