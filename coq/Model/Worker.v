(* Model of plugin/input/file/worker.go: worker.work (one job pass = one "round"), and of
   Pipeline.checkInputBytes (pipeline/pipeline.go). No proofs here (Proofs/Worker.v).

   Go                                   model
   ---------------------------------    -----------------------------------------------------------
   job.curOffset / job.tail /           wst {cur; tail; skip}
     job.shouldSkip
   w.maxEventSize / cutOffEventByLimit  wcfg {wmax; wcut}          (wmax = 0: shouldCheckMax = false)
   accumBuf                             racc : REVERSED accumBuf, nacc = len(accumBuf) (linear time)
   skipLine (local) / job.shouldSkip    sk / jskip
   scanned, readTotal, lastOffset       scanned, total, last_off   (Go int64 -> unbounded Z)
   reader.Read(readBuf) ... io.EOF      the list of reads of the round: ANY list of byte strings
                                        (os.File gives bufsz-sized ones; the theorems need no such shape)
   controller.In(.., NewOffsets(lastOffset+scanned, ..), inBuf, ..)   an [emit] (offset, data)      *)
From Verif Require Import Base.Sx Base.GoSem.

Definition NL : byte := 10%N.
Definition rev_fast (l : bytes) : bytes := rev_append l [].      (* = rev l, linear *)

Record wcfg := { wmax : Z; wcut : bool }.
Record wst := { cur : Z; tail : bytes; skip : bool }.
Definition emit := (Z * bytes)%type.

Definition check_max (c : wcfg) : bool := negb (wmax c =? 0).     (* shouldCheckMax *)

(* state of the loops inside one round *)
Record lst := { racc : bytes; nacc : Z; sk : bool; jskip : bool; scanned : Z }.

(* ---- the readBuf parsing loop:  for len(buf) != 0 { pos := IndexByte(buf,'\n') ... } ----------
   [rcur] = REVERSED bytes of buf scanned since the last newline (buf[:pos] in the making).
   On a newline: line = buf[:pos+1]; scanned += pos+1; size rule; skip rule; In; accumBuf = accumBuf[:0].
   At the end of buf without newline (pos == -1): scanned += len(buf); break — the unconsumed
   rest of buf is returned (reversed) for the append after the loop.                              *)
Fixpoint scan_buf (c : wcfg) (last_off : Z) (buf rcur : bytes) (s : lst) : list emit * lst * bytes :=
  match buf with
  | [] =>
      ([], {| racc := racc s; nacc := nacc s; sk := sk s; jskip := jskip s;
              scanned := scanned s + len rcur |}, rcur)
  | x :: buf' =>
      if N.eqb x NL then
        let line := rev_fast (NL :: rcur) in                       (* buf[:pos+1] *)
        let nline := len line in
        let scanned' := scanned s + nline in                       (* scanned += pos + 1 *)
        let over := check_max c && negb (wcut c) && (nacc s + nline >? wmax c) in
        let sk1 := sk s || over in                                 (* skipLine = true *)
        let ems :=
          if sk1 then []
          else let in_buf := match racc s with
                             | [] => line                          (* inBuf := line *)
                             | _ :: _ => rev_append (racc s) line  (* append(accumBuf, line...) *)
                             end in
               [(last_off + scanned', in_buf)] in
        let s' := {| racc := []; nacc := 0;                        (* accumBuf = accumBuf[:0] *)
                     sk := false;
                     jskip := if sk1 then false else jskip s;      (* job.shouldSkip.Store(false) *)
                     scanned := scanned' |} in
        let '(es, s'', rr) := scan_buf c last_off buf' [] s' in
        (ems ++ es, s'', rr)
      else scan_buf c last_off buf' (x :: rcur) s
  end.

(* ---- after the parsing loop:
      if shouldCheckMax && len(accumBuf) > max { if !cutOff { continue }; accumBuf = accumBuf[:max] }
      accumBuf = append(accumBuf, buf...)
   ([rrest] = reversed rest of buf; accumBuf[:max] is in range because len > max >= 0)           *)
Definition post_read (c : wcfg) (s : lst) (rrest : bytes) : lst :=
  if check_max c && (nacc s >? wmax c) then
    if negb (wcut c) then s
    else {| racc := rrest ++ skipn (Z.to_nat (nacc s - wmax c)) (racc s);
            nacc := wmax c + len rrest; sk := sk s; jskip := jskip s; scanned := scanned s |}
  else {| racc := rrest ++ racc s; nacc := nacc s + len rrest;
          sk := sk s; jskip := jskip s; scanned := scanned s |}.

(* ---- the read loop of one round: every element of [reads] is one successful Read; the end of
   the list is io.EOF. readTotal is kept separately from scanned, as in the code.               *)
Fixpoint read_loop (c : wcfg) (last_off : Z) (reads : list bytes) (s : lst) (total : Z)
  : list emit * lst * Z :=
  match reads with
  | [] => ([], s, total)
  | buf :: rs =>
      let total' := total + len buf in                              (* readTotal += read *)
      let '(e1, s1, rr) := scan_buf c last_off buf [] s in
      let s2 := post_read c s1 rr in
      let '(e2, s3, t3) := read_loop c last_off rs s2 total' in
      (e1 ++ e2, s3, t3)
  end.

(* ---- one job pass: accumBuf = append(accumBuf[:0], job.tail...); lastOffset := job.curOffset;
   skipLine := job.shouldSkip.Load(); ...; job.tail = accumBuf; job.curOffset += readTotal        *)
Definition round (c : wcfg) (st : wst) (reads : list bytes) : list emit * wst :=
  let s0 := {| racc := rev_fast (tail st); nacc := len (tail st);
               sk := skip st; jskip := skip st; scanned := 0 |} in
  let '(es, s, total) := read_loop c (cur st) reads s0 0 in
  (es, {| cur := cur st + total; tail := rev_fast (racc s); skip := jskip s |}).

(* successive passes over a growing file: [rs] = the reads of each pass *)
Fixpoint rounds (c : wcfg) (st : wst) (rs : list (list bytes)) : list emit * wst :=
  match rs with
  | [] => ([], st)
  | r :: rs' =>
      let '(e1, s1) := round c st r in
      let '(e2, s2) := rounds c s1 rs' in
      (e1 ++ e2, s2)
  end.

(* ---- Pipeline.checkInputBytes: (bytes, cutoff, ok) ------------------------------------------- *)
Fixpoint last_is_nl (b : bytes) : bool :=                          (* bytes[len(bytes)-1] == '\n' *)
  match b with
  | [] => false
  | [x] => N.eqb x NL
  | _ :: r => last_is_nl r
  end.

Definition check_input (c : wcfg) (b : bytes) : bytes * bool * bool :=
  let n := len b in
  let mud := match b with                                          (* length == 0 || (b[0]=='\n' && length == 1) *)
             | [] => true
             | x :: _ => N.eqb x NL && (n =? 1)
             end in
  if mud then (b, false, false)
  else if check_max c && (n >? wmax c) then
    if negb (wcut c) then (b, false, false)
    else (firstn (Z.to_nat (wmax c)) b ++ (if last_is_nl b then [NL] else []), true, true)
  else (b, false, true).

(* ============================ specification ================================================== *)
(* the complete lines of b (each WITH its newline) and the unterminated remainder *)
Fixpoint split_lines (b : bytes) : list bytes * bytes :=
  match b with
  | [] => ([], [])
  | x :: b' =>
      let '(ls, t) := split_lines b' in
      if N.eqb x NL then ([NL] :: ls, t)
      else match ls with
           | [] => ([], x :: t)
           | l :: ls' => ((x :: l) :: ls', t)
           end
  end.

(* each line tagged with the offset just after its newline; [base] = offset of the first byte *)
Fixpoint with_off (base : Z) (ls : list bytes) : list emit :=
  match ls with
  | [] => []
  | l :: r => let e := base + len l in (e, l) :: with_off e r
  end.

(* the worker-side size rule: a line (with its newline) longer than max is not delivered *)
Definition over_limit (c : wcfg) (full : bytes) : bool :=
  check_max c && negb (wcut c) && (len full >? wmax c).
Definition size_filter (c : wcfg) (es : list emit) : list emit :=
  filter (fun e => negb (over_limit c (snd e))) es.
Definition drop_first {A} (b : bool) (l : list A) : list A := if b then tl l else l.

(* what the worker must hand over when it starts at offset [base] with an empty tail and reads [b] *)
Definition spec_emits (c : wcfg) (sk0 : bool) (base : Z) (b : bytes) : list emit :=
  size_filter c (drop_first sk0 (with_off base (fst (split_lines b)))).

Definition cut_mode (c : wcfg) : bool := check_max c && wcut c.

(* relation "delivered data d stands for the true line full": equal, or (cut-off mode only) both
   longer than max, d newline-terminated, and equal on the first max bytes *)
Definition data_relb (c : wcfg) (d full : bytes) : bool :=
  bytes_eqb d full
  || (cut_mode c && (wmax c <? len d) && (wmax c <? len full) && last_is_nl d && last_is_nl full
      && bytes_eqb (firstn (Z.to_nat (wmax c)) d) (firstn (Z.to_nat (wmax c)) full)).

(* relation "saved tail stands for the true unterminated remainder t" *)
Definition tail_relb (c : wcfg) (tl_ t : bytes) : bool :=
  bytes_eqb tl_ t
  || (check_max c && negb (wcut c) && (wmax c <? len tl_) && (len tl_ <=? len t))
  || (cut_mode c && (wmax c <=? len tl_) && (len tl_ <=? len t)
      && bytes_eqb (firstn (Z.to_nat (wmax c)) tl_) (firstn (Z.to_nat (wmax c)) t)).

(* ============================ exchange glue ================================================== *)
(* reads an os.File produces for [b] available bytes and a buffer of n: n-sized pieces + remainder *)
Fixpoint chunk_go (n k : nat) (rc b : bytes) : list bytes :=
  match b with
  | [] => match rc with [] => [] | _ :: _ => [rev_fast rc] end
  | x :: b' =>
      match k with
      | O => []
      | S O => rev_fast (x :: rc) :: chunk_go n n [] b'
      | S k' => chunk_go n k' (x :: rc) b'
      end
  end.
Definition chunks (n : nat) (b : bytes) : list bytes := chunk_go n n [] b.

Fixpoint last_byte (b : bytes) : bytes :=
  match b with [] => [] | [x] => [x] | _ :: r => last_byte r end.

(* initial job state. mode 0: seek(len prefix); mode 1: initJobOffset(offsetsOpTail):
   size = 0 -> offset 0; else seek(-1, SeekEnd), shouldSkip = true (the last byte is re-read) *)
Definition init_state (mode : Z) (prefix : bytes) : wst * bytes :=
  if mode =? 1 then
    match prefix with
    | [] => ({| cur := 0; tail := []; skip := false |}, [])
    | _ :: _ => ({| cur := len prefix - 1; tail := []; skip := true |}, last_byte prefix)
    end
  else ({| cur := len prefix; tail := []; skip := false |}, []).

(* case = (max cut mode #prefix ((#append bufsz) ...))            the file starts with the prefix
        | (max cut mode #prefix ((#append bufsz) ...) base)       the file starts with a hole of [base] bytes
   (sparse file: the job resumes at base + len prefix, every offset is shifted by base; mode 0 only) *)
Record wcase := { k_cfg : wcfg; k_mode : Z; k_prefix : bytes; k_rounds : list (bytes * nat); k_base : Z }.

Definition shift_state (b : Z) (p : wst * bytes) : wst * bytes :=
  let '(st, extra) := p in ({| cur := cur st + b; tail := tail st; skip := skip st |}, extra).

Definition round_of_sx (s : sx) : option (bytes * nat) :=
  match s with
  | SL [SB a; SZ n] => if 1 <=? n then Some (a, Z.to_nat n) else None
  | _ => None
  end.

Definition case_of_sx (s : sx) : option wcase :=
  match s with
  | SL [SZ mx; cut; SZ mode; SB pre; rs] =>
      match as_bool cut, as_list round_of_sx rs with
      | Some cu, Some rl =>
          if (0 <=? mx) && ((mode =? 0) || (mode =? 1))
          then Some {| k_cfg := {| wmax := mx; wcut := cu |}; k_mode := mode; k_prefix := pre; k_rounds := rl; k_base := 0 |}
          else None
      | _, _ => None
      end
  | SL [SZ mx; cut; SZ mode; SB pre; rs; SZ base] =>
      match as_bool cut, as_list round_of_sx rs with
      | Some cu, Some rl =>
          if (0 <=? mx) && (mode =? 0) && (0 <=? base)
          then Some {| k_cfg := {| wmax := mx; wcut := cu |}; k_mode := mode; k_prefix := pre; k_rounds := rl; k_base := base |}
          else None
      | _, _ => None
      end
  | _ => None
  end.

(* bytes available to each pass: what was appended (pass 1 in tail mode: re-read last byte first) *)
Fixpoint avail (extra : bytes) (rl : list (bytes * nat)) : list (bytes * nat) :=
  match rl with
  | [] => []
  | (a, n) :: r => (extra ++ a, n) :: avail [] r
  end.

(* per-pass trace of the model: emits and state after each pass *)
Fixpoint rounds_trace (c : wcfg) (st : wst) (rl : list (bytes * nat)) : list (list emit * wst) :=
  match rl with
  | [] => []
  | (a, n) :: r =>
      let '(es, st') := round c st (chunks n a) in
      (es, st') :: rounds_trace c st' r
  end.

Definition sx_of_cio (r : bytes * bool * bool) : list sx :=
  let '(out, cutf, ok) := r in [of_bool ok; of_bool cutf; SB out].

(* which = 0: emit = (off #data);  which = 1: emit = (off #data ok cut #out) with the real
   checkInputBytes applied to data inside In *)
Definition sx_of_emit (which : Z) (c : wcfg) (e : emit) : sx :=
  if which =? 1 then SL (SZ (fst e) :: SB (snd e) :: sx_of_cio (check_input c (snd e)))
  else SL [SZ (fst e); SB (snd e)].

(* pass observable = ((emit ...) cur filepos #tail skip) *)
Definition sx_of_pass (which : Z) (c : wcfg) (p : list emit * wst) : sx :=
  let '(es, st) := p in
  SL [SL (map (sx_of_emit which c) es); SZ (cur st); SZ (cur st); SB (tail st); of_bool (skip st)].

Definition c06_model (which : Z) (k : wcase) : sx :=
  let '(st0, extra) := shift_state (k_base k) (init_state (k_mode k) (k_prefix k)) in
  SL (map (sx_of_pass which (k_cfg k)) (rounds_trace (k_cfg k) st0 (avail extra (k_rounds k)))).

(* ---- the property's executable predicate on what the implementation did ---------------------- *)
Definition emit_of_sx (which : Z) (s : sx) : option (emit * option (list sx)) :=
  match s with
  | SL [SZ o; SB d] => if which =? 1 then None else Some ((o, d), None)
  | SL (SZ o :: SB d :: rest) => if which =? 1 then Some ((o, d), Some rest) else None
  | _ => None
  end.

Definition emit_okb (c : wcfg) (e : emit * option (list sx)) (x : emit) : bool :=
  let '((o, d), ci) := e in
  Z.eqb o (fst x) && data_relb c d (snd x)
  && match ci with
     | None => true
     | Some r => sx_eqb (SL r) (SL (sx_of_cio (check_input c (snd x))))   (* admission of the TRUE line *)
     end.

Fixpoint forall2b {A B} (f : A -> B -> bool) (l : list A) (m : list B) : bool :=
  match l, m with
  | [], [] => true
  | a :: l', b :: m' => f a b && forall2b f l' m'
  | _, _ => false
  end.

Definition has_line (b : bytes) : bool := match fst (split_lines b) with [] => false | _ :: _ => true end.

(* after every pass: everything delivered so far = the spec of everything readable so far
   (so an unterminated tail has not been delivered), and the saved state is the spec's *)
Fixpoint pred_passes (which : Z) (c : wcfg) (st0 : wst) (seen : bytes) (got : list (emit * option (list sx)))
         (rl : list (bytes * nat)) (obs : list sx) : bool :=
  match rl, obs with
  | [], [] => true
  | (a, _) :: rl', SL [SL es; SZ cu; SZ fpos; SB tl_; skp] :: obs' =>
      match opt_map (emit_of_sx which) es, as_bool skp with
      | Some es', Some skp' =>
          let seen' := seen ++ a in
          let got' := got ++ es' in
          forall2b (emit_okb c) got' (spec_emits c (skip st0) (cur st0) seen')
          && Z.eqb cu (cur st0 + len seen') && Z.eqb fpos cu
          && tail_relb c tl_ (snd (split_lines seen'))
          && Bool.eqb skp' (skip st0 && negb (has_line seen'))
          && pred_passes which c st0 seen' got' rl' obs'
      | _, _ => false
      end
  | _, _ => false
  end.

Definition c06_pred (which : Z) (k : wcase) (obs : sx) : bool :=
  let '(st0, extra) := shift_state (k_base k) (init_state (k_mode k) (k_prefix k)) in
  match obs with
  | SL ol => pred_passes which (k_cfg k) st0 [] [] (avail extra (k_rounds k)) ol
  | _ => false
  end.

Definition c06_run (which : Z) (case obs : sx) : verdict :=
  match case_of_sx case with
  | None => BadCase
  | Some k =>
      let m := c06_model which k in
      if c06_pred which k obs then (if sx_eqb m obs then Agree else Differ m) else Violates m
  end.

(* which = 2: checkInputBytes alone. case = (max cut #bytes), obs = (ok cut #out) *)
Definition c06_ci_model (case : sx) : option sx :=
  match case with
  | SL [SZ mx; cut; SB b] =>
      match as_bool cut with
      | Some cu => if 0 <=? mx then Some (SL (sx_of_cio (check_input {| wmax := mx; wcut := cu |} b))) else None
      | None => None
      end
  | _ => None
  end.

(* which = 3: SEVERAL jobs (files) taken by ONE worker.work call after the other, i.e. with the same accumBuf /
   readBuf (worker.go:48-49 allocate them once per work(), :131 and :206 reuse them for every job).
     case = (w sched (filecase ...))   w = 0 | 1: the emit format of which 0 / 1;  filecase = a which-0/1 case
            sched = ((fileindex ...) ...): one item per work() call = the jobs in the order the worker takes them;
            each occurrence of a file consumes the next round of its filecase (the harness uses the round's bufsz as
            the call's read buffer size; the generator gives all rounds of one call the same bufsz)
     obs  = (obs_0 obs_1 ...)  the which-w observable of every file, regrouped per file
   Jobs do not interact: whatever the schedule, every file must look exactly as if it had a worker of its own, so the
   schedule is ignored here and every file is judged by the which-w model and predicate; the verdict is the worst. *)
Definition worse (a b : verdict) : verdict :=
  match a, b with
  | BadCase, _ => a
  | _, BadCase => b
  | Violates _, _ => a
  | _, Violates _ => b
  | Differ _, _ => a
  | _, Differ _ => b
  | Agree, Agree => Agree
  end.

Fixpoint c06_files (w : Z) (cases obs : list sx) : verdict :=
  match cases, obs with
  | [], [] => Agree
  | c :: cr, o :: or => worse (c06_run w c o) (c06_files w cr or)
  | _, _ => BadCase
  end.

Definition c06_multi (case obs : sx) : verdict :=
  match case, obs with
  | SL [SZ w; SL _; SL (c :: cr)], SL ol =>
      if (w =? 0) || (w =? 1) then c06_files w (c :: cr) ol else BadCase
  | _, _ => BadCase
  end.

Definition c06_entry (which : Z) (case obs : sx) : verdict :=
  match which with
  | 0 | 1 => c06_run which case obs
  | 3 => c06_multi case obs
  | _ => match c06_ci_model case with
         | Some m => exact_verdict m obs
         | None => BadCase
         end
  end.
