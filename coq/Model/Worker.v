(* Model of plugin/input/file/worker.go: worker.work (one job pass = one "round"), and of
   Pipeline.checkInputBytes (pipeline/pipeline.go). No proofs here (Proofs/Worker.v).

   Go                                   model
   ---------------------------------    -----------------------------------------------------------
   job.curOffset / job.tail /           wst {cur; tail; skip}
     job.shouldSkip
   w.maxEventSize / cutOffEventByLimit  wcfg {wmax; wcut}          (wmax = 0: shouldCheckMax = false)
   accumBuf                             racc : REVERSED accumBuf, nacc = len(accumBuf) (linear time)
   skipLine (local) / job.shouldSkip    sk / jskip
   scanned, readTotal, lastOffset       scanned, total, last_off   (Go int64 -> unbounded Z)
   reader.Read(readBuf) ... io.EOF      the list of reads of the round: ANY list of byte strings
                                        (os.File gives bufsz-sized ones; the theorems need no such shape)
   controller.In(.., NewOffsets(lastOffset+scanned, ..), inBuf, ..)   an [emit] (offset, data)      *)
From Verif Require Import Base.Sx Base.GoSem.

Definition NL : byte := 10%N.
Definition rev_fast (l : bytes) : bytes := rev_append l [].      (* = rev l, linear *)

Record wcfg := { wmax : Z; wcut : bool }.
Record wst := { cur : Z; tail : bytes; skip : bool }.
Definition emit := (Z * bytes)%type.

Definition check_max (c : wcfg) : bool := negb (wmax c =? 0).     (* shouldCheckMax *)

(* state of the loops inside one round *)
Record lst := { racc : bytes; nacc : Z; sk : bool; jskip : bool; scanned : Z }.

(* ---- the readBuf parsing loop:  for len(buf) != 0 { pos := IndexByte(buf,'\n') ... } ----------
   [rcur] = REVERSED bytes of buf scanned since the last newline (buf[:pos] in the making).
   On a newline: line = buf[:pos+1]; scanned += pos+1; size rule; skip rule; In; accumBuf = accumBuf[:0].
   At the end of buf without newline (pos == -1): scanned += len(buf); break — the unconsumed
   rest of buf is returned (reversed) for the append after the loop.                              *)
Fixpoint scan_buf (c : wcfg) (last_off : Z) (buf rcur : bytes) (s : lst) : list emit * lst * bytes :=
  match buf with
  | [] =>
      ([], {| racc := racc s; nacc := nacc s; sk := sk s; jskip := jskip s;
              scanned := scanned s + len rcur |}, rcur)
  | x :: buf' =>
      if N.eqb x NL then
        let line := rev_fast (NL :: rcur) in                       (* buf[:pos+1] *)
        let nline := len line in
        let scanned' := scanned s + nline in                       (* scanned += pos + 1 *)
        let over := check_max c && negb (wcut c) && (nacc s + nline >? wmax c) in
        let sk1 := sk s || over in                                 (* skipLine = true *)
        let ems :=
          if sk1 then []
          else let in_buf := match racc s with
                             | [] => line                          (* inBuf := line *)
                             | _ :: _ => rev_append (racc s) line  (* append(accumBuf, line...) *)
                             end in
               [(last_off + scanned', in_buf)] in
        let s' := {| racc := []; nacc := 0;                        (* accumBuf = accumBuf[:0] *)
                     sk := false;
                     jskip := if sk1 then false else jskip s;      (* job.shouldSkip.Store(false) *)
                     scanned := scanned' |} in
        let '(es, s'', rr) := scan_buf c last_off buf' [] s' in
        (ems ++ es, s'', rr)
      else scan_buf c last_off buf' (x :: rcur) s
  end.

(* ---- after the parsing loop:
      if shouldCheckMax && len(accumBuf) > max { if !cutOff { continue }; accumBuf = accumBuf[:max] }
      accumBuf = append(accumBuf, buf...)
   ([rrest] = reversed rest of buf; accumBuf[:max] is in range because len > max >= 0)           *)
Definition post_read (c : wcfg) (s : lst) (rrest : bytes) : lst :=
  if check_max c && (nacc s >? wmax c) then
    if negb (wcut c) then s
    else {| racc := rrest ++ skipn (Z.to_nat (nacc s - wmax c)) (racc s);
            nacc := wmax c + len rrest; sk := sk s; jskip := jskip s; scanned := scanned s |}
  else {| racc := rrest ++ racc s; nacc := nacc s + len rrest;
          sk := sk s; jskip := jskip s; scanned := scanned s |}.

(* ---- the read loop of one round: every element of [reads] is one successful Read; the end of
   the list is io.EOF. readTotal is kept separately from scanned, as in the code.               *)
Fixpoint read_loop (c : wcfg) (last_off : Z) (reads : list bytes) (s : lst) (total : Z)
  : list emit * lst * Z :=
  match reads with
  | [] => ([], s, total)
  | buf :: rs =>
      let total' := total + len buf in                              (* readTotal += read *)
      let '(e1, s1, rr) := scan_buf c last_off buf [] s in
      let s2 := post_read c s1 rr in
      let '(e2, s3, t3) := read_loop c last_off rs s2 total' in
      (e1 ++ e2, s3, t3)
  end.

(* ---- one job pass: accumBuf = append(accumBuf[:0], job.tail...); lastOffset := job.curOffset;
   skipLine := job.shouldSkip.Load(); ...; job.tail = accumBuf; job.curOffset += readTotal        *)
Definition round (c : wcfg) (st : wst) (reads : list bytes) : list emit * wst :=
  let s0 := {| racc := rev_fast (tail st); nacc := len (tail st);
               sk := skip st; jskip := skip st; scanned := 0 |} in
  let '(es, s, total) := read_loop c (cur st) reads s0 0 in
  (es, {| cur := cur st + total; tail := rev_fast (racc s); skip := jskip s |}).

(* successive passes over a growing file: [rs] = the reads of each pass *)
Fixpoint rounds (c : wcfg) (st : wst) (rs : list (list bytes)) : list emit * wst :=
  match rs with
  | [] => ([], st)
  | r :: rs' =>
      let '(e1, s1) := round c st r in
      let '(e2, s2) := rounds c s1 rs' in
      (e1 ++ e2, s2)
  end.

(* ---- Pipeline.checkInputBytes: (bytes, cutoff, ok) ------------------------------------------- *)
Fixpoint last_is_nl (b : bytes) : bool :=                          (* bytes[len(bytes)-1] == '\n' *)
  match b with
  | [] => false
  | [x] => N.eqb x NL
  | _ :: r => last_is_nl r
  end.

Definition check_input (c : wcfg) (b : bytes) : bytes * bool * bool :=
  let n := len b in
  let mud := match b with                                          (* length == 0 || (b[0]=='\n' && length == 1) *)
             | [] => true
             | x :: _ => N.eqb x NL && (n =? 1)
             end in
  if mud then (b, false, false)
  else if check_max c && (n >? wmax c) then
    if negb (wcut c) then (b, false, false)
    else (firstn (Z.to_nat (wmax c)) b ++ (if last_is_nl b then [NL] else []), true, true)
  else (b, false, true).

(* ============================ specification ================================================== *)
(* the complete lines of b (each WITH its newline) and the unterminated remainder *)
Fixpoint split_lines (b : bytes) : list bytes * bytes :=
  match b with
  | [] => ([], [])
  | x :: b' =>
      let '(ls, t) := split_lines b' in
      if N.eqb x NL then ([NL] :: ls, t)
      else match ls with
           | [] => ([], x :: t)
           | l :: ls' => ((x :: l) :: ls', t)
           end
  end.

(* each line tagged with the offset just after its newline; [base] = offset of the first byte *)
Fixpoint with_off (base : Z) (ls : list bytes) : list emit :=
  match ls with
  | [] => []
  | l :: r => let e := base + len l in (e, l) :: with_off e r
  end.

(* the worker-side size rule: a line (with its newline) longer than max is not delivered *)
Definition over_limit (c : wcfg) (full : bytes) : bool :=
  check_max c && negb (wcut c) && (len full >? wmax c).
Definition size_filter (c : wcfg) (es : list emit) : list emit :=
  filter (fun e => negb (over_limit c (snd e))) es.
Definition drop_first {A} (b : bool) (l : list A) : list A := if b then tl l else l.

(* what the worker must hand over when it starts at offset [base] with an empty tail and reads [b] *)
Definition spec_emits (c : wcfg) (sk0 : bool) (base : Z) (b : bytes) : list emit :=
  size_filter c (drop_first sk0 (with_off base (fst (split_lines b)))).

Definition cut_mode (c : wcfg) : bool := check_max c && wcut c.

(* relation "delivered data d stands for the true line full": equal, or (cut-off mode only) both
   longer than max, d newline-terminated, and equal on the first max bytes *)
Definition data_relb (c : wcfg) (d full : bytes) : bool :=
  bytes_eqb d full
  || (cut_mode c && (wmax c <? len d) && (wmax c <? len full) && last_is_nl d && last_is_nl full
      && bytes_eqb (firstn (Z.to_nat (wmax c)) d) (firstn (Z.to_nat (wmax c)) full)).

(* relation "saved tail stands for the true unterminated remainder t" *)
Definition tail_relb (c : wcfg) (tl_ t : bytes) : bool :=
  bytes_eqb tl_ t
  || (check_max c && negb (wcut c) && (wmax c <? len tl_) && (len tl_ <=? len t))
  || (cut_mode c && (wmax c <=? len tl_) && (len tl_ <=? len t)
      && bytes_eqb (firstn (Z.to_nat (wmax c)) tl_) (firstn (Z.to_nat (wmax c)) t)).

(* ============================ exchange glue ================================================== *)
(* reads an os.File produces for [b] available bytes and a buffer of n: n-sized pieces + remainder *)
Fixpoint chunk_go (n k : nat) (rc b : bytes) : list bytes :=
  match b with
  | [] => match rc with [] => [] | _ :: _ => [rev_fast rc] end
  | x :: b' =>
      match k with
      | O => []
      | S O => rev_fast (x :: rc) :: chunk_go n n [] b'
      | S k' => chunk_go n k' (x :: rc) b'
      end
  end.
Definition chunks (n : nat) (b : bytes) : list bytes := chunk_go n n [] b.

Fixpoint last_byte (b : bytes) : bytes :=
  match b with [] => [] | [x] => [x] | _ :: r => last_byte r end.

(* initial job state. mode 0: seek(len prefix); mode 1: initJobOffset(offsetsOpTail):
   size = 0 -> offset 0; else seek(-1, SeekEnd), shouldSkip = true (the last byte is re-read) *)
Definition init_state (mode : Z) (prefix : bytes) : wst * bytes :=
  if mode =? 1 then
    match prefix with
    | [] => ({| cur := 0; tail := []; skip := false |}, [])
    | _ :: _ => ({| cur := len prefix - 1; tail := []; skip := true |}, last_byte prefix)
    end
  else ({| cur := len prefix; tail := []; skip := false |}, []).

(* case = (max cut mode #prefix ((#append bufsz) ...))            the file starts with the prefix
        | (max cut mode #prefix ((#append bufsz) ...) base)       the file starts with a hole of [base] bytes
   (sparse file: the job resumes at base + len prefix, every offset is shifted by base; mode 0 only) *)
Record wcase := { k_cfg : wcfg; k_mode : Z; k_prefix : bytes; k_rounds : list (bytes * nat); k_base : Z }.

Definition shift_state (b : Z) (p : wst * bytes) : wst * bytes :=
  let '(st, extra) := p in ({| cur := cur st + b; tail := tail st; skip := skip st |}, extra).

Definition round_of_sx (s : sx) : option (bytes * nat) :=
  match s with
  | SL [SB a; SZ n] => if 1 <=? n then Some (a, Z.to_nat n) else None
  | _ => None
  end.

Definition case_of_sx (s : sx) : option wcase :=
  match s with
  | SL [SZ mx; cut; SZ mode; SB pre; rs] =>
      match as_bool cut, as_list round_of_sx rs with
      | Some cu, Some rl =>
          if (0 <=? mx) && ((mode =? 0) || (mode =? 1))
          then Some {| k_cfg := {| wmax := mx; wcut := cu |}; k_mode := mode; k_prefix := pre; k_rounds := rl; k_base := 0 |}
          else None
      | _, _ => None
      end
  | SL [SZ mx; cut; SZ mode; SB pre; rs; SZ base] =>
      match as_bool cut, as_list round_of_sx rs with
      | Some cu, Some rl =>
          if (0 <=? mx) && (mode =? 0) && (0 <=? base)
          then Some {| k_cfg := {| wmax := mx; wcut := cu |}; k_mode := mode; k_prefix := pre; k_rounds := rl; k_base := base |}
          else None
      | _, _ => None
      end
  | _ => None
  end.

(* bytes available to each pass: what was appended (pass 1 in tail mode: re-read last byte first) *)
Fixpoint avail (extra : bytes) (rl : list (bytes * nat)) : list (bytes * nat) :=
  match rl with
  | [] => []
  | (a, n) :: r => (extra ++ a, n) :: avail [] r
  end.

(* per-pass trace of the model: emits and state after each pass *)
Fixpoint rounds_trace (c : wcfg) (st : wst) (rl : list (bytes * nat)) : list (list emit * wst) :=
  match rl with
  | [] => []
  | (a, n) :: r =>
      let '(es, st') := round c st (chunks n a) in
      (es, st') :: rounds_trace c st' r
  end.

Definition sx_of_cio (r : bytes * bool * bool) : list sx :=
  let '(out, cutf, ok) := r in [of_bool ok; of_bool cutf; SB out].

(* which = 0: emit = (off #data);  which = 1: emit = (off #data ok cut #out) with the real
   checkInputBytes applied to data inside In *)
Definition sx_of_emit (which : Z) (c : wcfg) (e : emit) : sx :=
  if which =? 1 then SL (SZ (fst e) :: SB (snd e) :: sx_of_cio (check_input c (snd e)))
  else SL [SZ (fst e); SB (snd e)].

(* pass observable = ((emit ...) cur filepos #tail skip) *)
Definition sx_of_pass (which : Z) (c : wcfg) (p : list emit * wst) : sx :=
  let '(es, st) := p in
  SL [SL (map (sx_of_emit which c) es); SZ (cur st); SZ (cur st); SB (tail st); of_bool (skip st)].

Definition c06_model (which : Z) (k : wcase) : sx :=
  let '(st0, extra) := shift_state (k_base k) (init_state (k_mode k) (k_prefix k)) in
  SL (map (sx_of_pass which (k_cfg k)) (rounds_trace (k_cfg k) st0 (avail extra (k_rounds k)))).

(* ---- the property's executable predicate on what the implementation did ---------------------- *)
Definition emit_of_sx (which : Z) (s : sx) : option (emit * option (list sx)) :=
  match s with
  | SL [SZ o; SB d] => if which =? 1 then None else Some ((o, d), None)
  | SL (SZ o :: SB d :: rest) => if which =? 1 then Some ((o, d), Some rest) else None
  | _ => None
  end.

Definition emit_okb (c : wcfg) (e : emit * option (list sx)) (x : emit) : bool :=
  let '((o, d), ci) := e in
  Z.eqb o (fst x) && data_relb c d (snd x)
  && match ci with
     | None => true
     | Some r => sx_eqb (SL r) (SL (sx_of_cio (check_input c (snd x))))   (* admission of the TRUE line *)
     end.

Fixpoint forall2b {A B} (f : A -> B -> bool) (l : list A) (m : list B) : bool :=
  match l, m with
  | [], [] => true
  | a :: l', b :: m' => f a b && forall2b f l' m'
  | _, _ => false
  end.

Definition has_line (b : bytes) : bool := match fst (split_lines b) with [] => false | _ :: _ => true end.

(* after every pass: everything delivered so far = the spec of everything readable so far
   (so an unterminated tail has not been delivered), and the saved state is the spec's *)
Fixpoint pred_passes (which : Z) (c : wcfg) (st0 : wst) (seen : bytes) (got : list (emit * option (list sx)))
         (rl : list (bytes * nat)) (obs : list sx) : bool :=
  match rl, obs with
  | [], [] => true
  | (a, _) :: rl', SL [SL es; SZ cu; SZ fpos; SB tl_; skp] :: obs' =>
      match opt_map (emit_of_sx which) es, as_bool skp with
      | Some es', Some skp' =>
          let seen' := seen ++ a in
          let got' := got ++ es' in
          forall2b (emit_okb c) got' (spec_emits c (skip st0) (cur st0) seen')
          && Z.eqb cu (cur st0 + len seen') && Z.eqb fpos cu
          && tail_relb c tl_ (snd (split_lines seen'))
          && Bool.eqb skp' (skip st0 && negb (has_line seen'))
          && pred_passes which c st0 seen' got' rl' obs'
      | _, _ => false
      end
  | _, _ => false
  end.

Definition c06_pred (which : Z) (k : wcase) (obs : sx) : bool :=
  let '(st0, extra) := shift_state (k_base k) (init_state (k_mode k) (k_prefix k)) in
  match obs with
  | SL ol => pred_passes which (k_cfg k) st0 [] [] (avail extra (k_rounds k)) ol
  | _ => false
  end.

Definition c06_run (which : Z) (case obs : sx) : verdict :=
  match case_of_sx case with
  | None => BadCase
  | Some k =>
      let m := c06_model which k in
      if c06_pred which k obs then (if sx_eqb m obs then Agree else Differ m) else Violates m
  end.

(* which = 2: checkInputBytes alone. case = (max cut #bytes), obs = (ok cut #out) *)
Definition c06_ci_model (case : sx) : option sx :=
  match case with
  | SL [SZ mx; cut; SB b] =>
      match as_bool cut with
      | Some cu => if 0 <=? mx then Some (SL (sx_of_cio (check_input {| wmax := mx; wcut := cu |} b))) else None
      | None => None
      end
  | _ => None
  end.

(* which = 3: SEVERAL jobs (files) taken by ONE worker.work call after the other, i.e. with the same accumBuf /
   readBuf (worker.go:48-49 allocate them once per work(), :131 and :206 reuse them for every job).
     case = (w sched (filecase ...))   w = 0 | 1: the emit format of which 0 / 1;  filecase = a which-0/1 case
            sched = ((fileindex ...) ...): one item per work() call = the jobs in the order the worker takes them;
            each occurrence of a file consumes the next round of its filecase (the harness uses the round's bufsz as
            the call's read buffer size; the generator gives all rounds of one call the same bufsz)
     obs  = (obs_0 obs_1 ...)  the which-w observable of every file, regrouped per file
   Jobs do not interact: whatever the schedule, every file must look exactly as if it had a worker of its own, so the
   schedule is ignored here and every file is judged by the which-w model and predicate; the verdict is the worst. *)
Definition worse (a b : verdict) : verdict :=
  match a, b with
  | BadCase, _ => a
  | _, BadCase => b
  | Violates _, _ => a
  | _, Violates _ => b
  | Differ _, _ => a
  | _, Differ _ => b
  | Agree, Agree => Agree
  end.

Fixpoint c06_files (w : Z) (cases obs : list sx) : verdict :=
  match cases, obs with
  | [], [] => Agree
  | c :: cr, o :: or => worse (c06_run w c o) (c06_files w cr or)
  | _, _ => BadCase
  end.

Definition c06_multi (case obs : sx) : verdict :=
  match case, obs with
  | SL [SZ w; SL _; SL (c :: cr)], SL ol =>
      if (w =? 0) || (w =? 1) then c06_files w (c :: cr) ol else BadCase
  | _, _ => BadCase
  end.

(* ============================ histories with maintenance (which = 4 | 5) ========================
   One job on one file; the history interleaves what the WRITER does to the file (append, truncate, rename away /
   rotate) with what the PLUGIN does to the job: a worker pass (watcher notification -> tryResumeJobAndUnlock ->
   worker.work) and the periodic maintenance tick (provider.go: jobProvider.maintenanceJob on this job, followed by
   the worker pass when the tick resumed the job).

   Go (provider.go maintenanceJob)                              model [h_maint]
   -----------------------------------------------------------  -------------------------------------------------
   !job.isDone                      -> maintenanceResultNotDone  h_done = false            -> 1, nothing changes
   stat.Size() != offset            -> tryResumeJobAndUnlock,    len file <> cur           -> 2, then the worker
                                       maintenanceResultResumed                               pass [h_pass]
   close; os.Open(filename) fails / other inode                  h_moved (renamed away or rotated)
                                    -> deleteJobAndUnlock, ..Deleted                       -> 3, job deleted
   otherwise job.file = re-opened file; job.seek(offset, SeekStart)                        -> 4, NOTHING changes:
                                    -> maintenanceResultNoop     curOffset, the held-back tail (job.tail) and
                                                                 shouldSkip are those of before the tick
   Go (worker.go processEOF, provider.go truncateJob)           model [h_pass]
   totalOffset > stat.Size()        -> seek(0), tail = tail[:0]  cur > len file after the reads -> cur 0, tail []

   The file is modelled by its whole content [h_file]; a pass reads everything behind the read position
   ([drop cur file]; nothing when the position is behind the end, as pread does), in the pieces [rd n avail]
   ([rd] = [chunks] for an os.File; the theorems hold for every [rd] whose pieces concatenate to the input). *)
Inductive hop :=
| HAppend (a : bytes)     (* the writer appends a *)
| HPass (n : nat)         (* write notification + one worker pass with read buffer n *)
| HMaint (n : nat)        (* maintenance tick; a resumed job is worked on with read buffer n *)
| HTrunc (k : Z)          (* the writer truncates the file to k bytes *)
| HMove                   (* the file is renamed away (kind 0) or rotated: renamed + a new file under the old name (kind 1) *)
| HNotify (n : nat)       (* the REAL write notification (processNotification -> refreshFile): checkFileWasTruncated (position
                             behind the end -> truncateJob) -> tryResumeJobAndUnlock, then the worker pass with read buffer n *)
| HMaintExp (n : nat).    (* maintenance tick with remove_after > 0 and the deadline passed: an idle job whose file is still in
                             place is deleted and its file REMOVED (with whatever tail was held back) *)

Record hst := { h_job : wst; h_done : bool; h_deleted : bool; h_moved : bool; h_file : bytes }.

Definition drop (k : Z) (b : bytes) : bytes := skipn (Z.to_nat k) b.
Definition take (k : Z) (b : bytes) : bytes := firstn (Z.to_nat k) b.

Definition h_pass (c : wcfg) (rd : nat -> bytes -> list bytes) (n : nat) (hs : hst) : list emit * hst :=
  let st := h_job hs in
  let '(es, st1) := round c st (rd n (drop (cur st) (h_file hs))) in
  let st2 := if cur st1 >? len (h_file hs)                       (* processEOF: totalOffset > stat.Size() -> truncateJob *)
             then {| cur := 0; tail := []; skip := skip st1 |}
             else st1 in
  (es, {| h_job := st2; h_done := true; h_deleted := h_deleted hs; h_moved := h_moved hs; h_file := h_file hs |}).

Definition h_maint (c : wcfg) (rd : nat -> bytes -> list bytes) (n : nat) (hs : hst) : Z * list emit * hst :=
  if negb (h_done hs) then (1, [], hs)
  else if negb (len (h_file hs) =? cur (h_job hs)) then
    let '(es, hs') := h_pass c rd n hs in (2, es, hs')
  else if h_moved hs then
    (3, [], {| h_job := h_job hs; h_done := h_done hs; h_deleted := true; h_moved := h_moved hs; h_file := h_file hs |})
  else (4, [], hs).

(* provider.go refreshFile(isWrite): checkFileWasTruncated compares the file position with the size BEFORE the pass:
   position behind the end -> truncateJob (seek 0, tail dropped); then the job is resumed and the worker reads from there *)
Definition h_untrunc (hs : hst) : hst :=
  if cur (h_job hs) >? len (h_file hs)
  then {| h_job := {| cur := 0; tail := []; skip := skip (h_job hs) |}; h_done := h_done hs; h_deleted := h_deleted hs;
          h_moved := h_moved hs; h_file := h_file hs |}
  else hs.

(* maintenanceJob with remove_after expired: as h_maint, but the idle job is deleted (code 3) and its file removed *)
Definition h_maint_exp (c : wcfg) (rd : nat -> bytes -> list bytes) (n : nat) (hs : hst) : Z * list emit * hst :=
  if negb (h_done hs) then (1, [], hs)
  else if negb (len (h_file hs) =? cur (h_job hs)) then
    let '(es, hs') := h_pass c rd n hs in (2, es, hs')
  else (3, [], {| h_job := h_job hs; h_done := h_done hs; h_deleted := true; h_moved := h_moved hs; h_file := h_file hs |}).

(* one step: (result code of a maintenance tick, what was handed to In, new state); a deleted job does nothing *)
Definition h_step (c : wcfg) (rd : nat -> bytes -> list bytes) (op : hop) (hs : hst) : option Z * list emit * hst :=
  match op with
  | HAppend a => (None, [], {| h_job := h_job hs; h_done := h_done hs; h_deleted := h_deleted hs; h_moved := h_moved hs;
                               h_file := h_file hs ++ a |})
  | HTrunc k => (None, [], {| h_job := h_job hs; h_done := h_done hs; h_deleted := h_deleted hs; h_moved := h_moved hs;
                              h_file := take k (h_file hs) |})
  | HMove => (None, [], {| h_job := h_job hs; h_done := h_done hs; h_deleted := h_deleted hs; h_moved := true;
                           h_file := h_file hs |})
  | HPass n => if h_deleted hs then (None, [], hs)
               else let '(es, hs') := h_pass c rd n hs in (None, es, hs')
  | HMaint n => if h_deleted hs then (None, [], hs)
                else let '(r, es, hs') := h_maint c rd n hs in (Some r, es, hs')
  | HNotify n => if h_deleted hs then (None, [], hs)
                 else let '(es, hs') := h_pass c rd n (h_untrunc hs) in (None, es, hs')
  | HMaintExp n => if h_deleted hs then (None, [], hs)
                   else let '(r, es, hs') := h_maint_exp c rd n hs in (Some r, es, hs')
  end.

(* a whole history: everything handed to In, in order, and the final state *)
Fixpoint h_run (c : wcfg) (rd : nat -> bytes -> list bytes) (hs : hst) (ops : list hop) : list emit * hst :=
  match ops with
  | [] => ([], hs)
  | op :: r =>
      let '(_, e1, h1) := h_step c rd op hs in
      let '(e2, h2) := h_run c rd h1 r in
      (e1 ++ e2, h2)
  end.

(* everything the writer appended during the history *)
Fixpoint appended (ops : list hop) : bytes :=
  match ops with
  | [] => []
  | HAppend a :: r => a ++ appended r
  | _ :: r => appended r
  end.

(* ---- exchange glue ----
   case = (max cut mode #prefix (op ...))    op = (0 #append) | (1 bufsz) | (2 bufsz) | (3 size) | (4 kind)
   obs  = one item per op 1 / 2, in order:   op 1: ((emit ...) cur filepos #tail skip)
                                             op 2: (result (emit ...) cur filepos #tail skip)
   filepos = -1 once the job is deleted (its file is closed).
   Ill-formed (BadCase): an op 1 / 2 after the job was deleted; a truncation beyond the end; a truncation below the
   read position that is no longer visible at the next pass because the file grew back over the position (the
   documented window of the size comparison: nothing is promised for it). *)
Definition hop_of_sx (s : sx) : option hop :=
  match s with
  | SL [SZ 0; SB a] => Some (HAppend a)
  | SL [SZ 1; SZ n] => if 1 <=? n then Some (HPass (Z.to_nat n)) else None
  | SL [SZ 2; SZ n] => if 1 <=? n then Some (HMaint (Z.to_nat n)) else None
  | SL [SZ 3; SZ k] => if 0 <=? k then Some (HTrunc k) else None
  | SL [SZ 4; SZ _] => Some HMove
  | SL [SZ 5; SZ n] => if 1 <=? n then Some (HNotify (Z.to_nat n)) else None
  | SL [SZ 6; SZ n] => if 1 <=? n then Some (HMaintExp (Z.to_nat n)) else None
  | _ => None
  end.

(* hk_mode 0 | 1: the job of the export driver (seek to the end of the prefix | real initJobOffset(tail)).
   Jobs made by the REAL refreshFile -> addJob -> initJobOffset (harness/c06/realjob.go):
     2       added during the start phase, offsets_op reset: offset 0
     (3 o ...) added during the start phase, offsets_op continue, the loaded offsets list this source with the stream
             offsets o ...: seek to their minimum ((3) = not listed: offset 0); an offset behind the end is allowed (the
             file shrank while file.d was down: the first pass detects the truncation)
     4       added during the start phase, offsets_op tail (as mode 1)
     5       added after the start phase: always reset, whatever offsets_op says (a file without extension)
     6       as 2, but the watched path is a SYMLINK to the file (processNotification -> addSymlink, refreshSymlink):
             the job carries the symlink, its source id and source name are the symlink's *)
Record hcase := { hk_cfg : wcfg; hk_mode : Z; hk_start : Z; hk_prefix : bytes; hk_ops : list hop }.

Fixpoint min_list (m : Z) (l : list Z) : Z := match l with [] => m | x :: r => min_list (Z.min m x) r end.
Definition z_of_sx (s : sx) : option Z := match s with SZ z => Some z | _ => None end.

Definition hmode_of_sx (s : sx) : option (Z * Z) :=
  match s with
  | SZ m => if (m =? 0) || (m =? 1) || (m =? 2) || (m =? 4) || (m =? 5) || (m =? 6) then Some (m, 0) else None
  | SL (SZ 3 :: os) =>
      match opt_map z_of_sx os with
      | Some [] => Some (3, 0)
      | Some (o :: r) => if forallb (fun x => 0 <=? x) (o :: r) then Some (3, min_list o r) else None
      | None => None
      end
  | _ => None
  end.

Definition hcase_of_sx (s : sx) : option hcase :=
  match s with
  | SL [SZ mx; cut; mode; SB pre; ops] =>
      match as_bool cut, as_list hop_of_sx ops, hmode_of_sx mode with
      | Some cu, Some ol, Some (md, st) =>
          if 0 <=? mx
          then Some {| hk_cfg := {| wmax := mx; wcut := cu |}; hk_mode := md; hk_start := st; hk_prefix := pre; hk_ops := ol |}
          else None
      | _, _, _ => None
      end
  | _ => None
  end.

Definition h_job0 (k : hcase) : wst :=
  if (hk_mode k =? 2) || (hk_mode k =? 5) || (hk_mode k =? 6) then {| cur := 0; tail := []; skip := false |}
  else if hk_mode k =? 3 then {| cur := hk_start k; tail := []; skip := false |}
  else fst (init_state (if hk_mode k =? 4 then 1 else hk_mode k) (hk_prefix k)).

Definition h_init (k : hcase) : hst :=
  {| h_job := h_job0 k; h_done := false; h_deleted := false; h_moved := false; h_file := hk_prefix k |}.

Definition sx_of_hstate (which : Z) (c : wcfg) (es : list emit) (hs : hst) : list sx :=
  let st := h_job hs in
  [SL (map (sx_of_emit which c) es); SZ (cur st); SZ (if h_deleted hs then -1 else cur st); SB (tail st); of_bool (skip st)].

(* the model's observable; None = ill-formed history. [hidden] = a truncation below the read position happened
   since the last pass *)
Fixpoint h_trace (which : Z) (c : wcfg) (hs : hst) (hidden : bool) (ops : list hop) : option (list sx) :=
  match ops with
  | [] => Some []
  | op :: r =>
      let '(res, es, hs') := h_step c chunks op hs in
      match op with
      | HAppend _ | HMove => h_trace which c hs' hidden r
      | HTrunc k =>
          if k <=? len (h_file hs)
          then h_trace which c hs' (hidden || (k <? cur (h_job hs))) r
          else None
      | HPass _ | HMaint _ | HNotify _ | HMaintExp _ =>
          if h_deleted hs then None
          else if (match op with HMaintExp _ => h_moved hs | _ => false end) then None
          else
            let ran := match op, res with
                       | HMaint _, Some 2 => true | HMaintExp _, Some 2 => true | HPass _, _ => true | HNotify _, _ => true
                       | _, _ => false end in
            if ran && hidden && (cur (h_job hs) <=? len (h_file hs)) then None
            else
              let gone := match op with   (* op 6 also reports whether the file is gone from its path *)
                          | HMaintExp _ => [of_bool (match res with Some 3 => true | _ => false end)]
                          | _ => [] end in
              let item := match res with
                          | Some code => SL (SZ code :: sx_of_hstate which c es hs' ++ gone)
                          | None => SL (sx_of_hstate which c es hs')
                          end in
              match h_trace which c hs' (if ran then false else hidden) r with
              | Some t => Some (item :: t)
              | None => None
              end
      end
  end.

(* ---- the property's executable predicate on what the implementation did over the whole history ----
   Judged against the ideal line split only (no use of the worker model). An epoch starts at the job's start
   offset or, after a detected truncation, at 0. Within the epoch: [p_seen] = the bytes passes have consumed,
   [p_got] = everything delivered. After every pass: delivered = spec of consumed, curOffset = bytes consumed,
   tail = the unterminated remainder. A maintenance tick that did not resume the job (codes 1, 4; 3 only for a
   moved file) delivers nothing and leaves curOffset, tail and shouldSkip as they were: the tail is held back
   until completed, whatever ticks come in between. *)
Record pst := { p_cur0 : Z; p_sk0 : bool; p_seen : bytes; p_got : list (emit * option (list sx));
                p_file : bytes; p_moved : bool; p_dead : bool }.

Definition p_pos (p : pst) : Z := p_cur0 p + len (p_seen p).
Definition p_sknow (p : pst) : bool := p_sk0 p && negb (has_line (p_seen p)).

Definition hjudge_pass (which : Z) (c : wcfg) (p : pst) (es : list sx) (cu fpos : Z) (tl_ : bytes) (skp : sx) : option pst :=
  match opt_map (emit_of_sx which) es, as_bool skp with
  | Some es', Some skp' =>
      if p_pos p >? len (p_file p) then
        (* the file was truncated below the read position: nothing is delivered, reading starts over *)
        match es' with
        | [] =>
            if (cu =? 0) && (fpos =? 0) && bytes_eqb tl_ [] && Bool.eqb skp' (p_sknow p)
            then Some {| p_cur0 := 0; p_sk0 := p_sknow p; p_seen := []; p_got := []; p_file := p_file p;
                         p_moved := p_moved p; p_dead := p_dead p |}
            else None
        | _ :: _ => None
        end
      else
        let seen' := p_seen p ++ drop (p_pos p) (p_file p) in
        let got' := p_got p ++ es' in
        if forall2b (emit_okb c) got' (spec_emits c (p_sk0 p) (p_cur0 p) seen')
           && Z.eqb cu (p_cur0 p + len seen') && Z.eqb fpos cu
           && tail_relb c tl_ (snd (split_lines seen'))
           && Bool.eqb skp' (p_sk0 p && negb (has_line seen'))
        then Some {| p_cur0 := p_cur0 p; p_sk0 := p_sk0 p; p_seen := seen'; p_got := got'; p_file := p_file p;
                     p_moved := p_moved p; p_dead := p_dead p |}
        else None
  | _, _ => None
  end.

Definition hjudge_idle (c : wcfg) (p : pst) (es : list sx) (cu fpos : Z) (tl_ : bytes) (skp : sx) (deleted : bool) : option pst :=
  match es, as_bool skp with
  | [], Some skp' =>
      if Z.eqb cu (p_pos p) && Z.eqb fpos (if deleted then -1 else cu)
         && tail_relb c tl_ (snd (split_lines (p_seen p)))
         && Bool.eqb skp' (p_sknow p)
      then Some {| p_cur0 := p_cur0 p; p_sk0 := p_sk0 p; p_seen := p_seen p; p_got := p_got p; p_file := p_file p;
                   p_moved := p_moved p; p_dead := deleted |}
      else None
  | _, _ => None
  end.

Fixpoint hpred (which : Z) (c : wcfg) (p : pst) (ops : list hop) (obs : list sx) : bool :=
  match ops with
  | [] => match obs with [] => true | _ :: _ => false end
  | HAppend a :: r =>
      hpred which c {| p_cur0 := p_cur0 p; p_sk0 := p_sk0 p; p_seen := p_seen p; p_got := p_got p;
                       p_file := p_file p ++ a; p_moved := p_moved p; p_dead := p_dead p |} r obs
  | HTrunc k :: r =>
      hpred which c {| p_cur0 := p_cur0 p; p_sk0 := p_sk0 p; p_seen := p_seen p; p_got := p_got p;
                       p_file := take k (p_file p); p_moved := p_moved p; p_dead := p_dead p |} r obs
  | HMove :: r =>
      hpred which c {| p_cur0 := p_cur0 p; p_sk0 := p_sk0 p; p_seen := p_seen p; p_got := p_got p;
                       p_file := p_file p; p_moved := true; p_dead := p_dead p |} r obs
  | HPass _ :: r =>
      match obs with
      | SL [SL es; SZ cu; SZ fpos; SB tl_; skp] :: obs' =>
          if p_dead p then false
          else match hjudge_pass which c p es cu fpos tl_ skp with
               | Some p' => hpred which c p' r obs'
               | None => false
               end
      | _ => false
      end
  | HMaint _ :: r =>
      match obs with
      | SL [SZ code; SL es; SZ cu; SZ fpos; SB tl_; skp] :: obs' =>
          if p_dead p then false
          else
            let j := if code =? 2 then hjudge_pass which c p es cu fpos tl_ skp
                     else if (code =? 1) || (code =? 4) then hjudge_idle c p es cu fpos tl_ skp false
                     else if (code =? 3) && p_moved p then hjudge_idle c p es cu fpos tl_ skp true
                     else None in
            match j with
            | Some p' => hpred which c p' r obs'
            | None => false
            end
      | _ => false
      end
  | HNotify _ :: r =>
      (* the notification detects a truncation below the read position BEFORE the pass: the epoch restarts at 0 and the
         same pass already delivers the new content from there *)
      match obs with
      | SL [SL es; SZ cu; SZ fpos; SB tl_; skp] :: obs' =>
          if p_dead p then false
          else
            let p1 := if p_pos p >? len (p_file p)
                      then {| p_cur0 := 0; p_sk0 := p_sknow p; p_seen := []; p_got := []; p_file := p_file p;
                              p_moved := p_moved p; p_dead := p_dead p |}
                      else p in
            match hjudge_pass which c p1 es cu fpos tl_ skp with
            | Some p' => hpred which c p' r obs'
            | None => false
            end
      | _ => false
      end
  | HMaintExp _ :: r =>
      (* remove_after expired: a job that is not done is left alone (1), a grown / truncated file is read first (2),
         an idle one is deleted and its file removed (3, gone); never "re-opened, nothing changes" (4) *)
      match obs with
      | SL [SZ code; SL es; SZ cu; SZ fpos; SB tl_; skp; gone] :: obs' =>
          if p_dead p then false
          else
            let j := if code =? 2 then hjudge_pass which c p es cu fpos tl_ skp
                     else if code =? 1 then hjudge_idle c p es cu fpos tl_ skp false
                     else if (code =? 3) && (p_pos p =? len (p_file p)) then hjudge_idle c p es cu fpos tl_ skp true
                     else None in
            match j, as_bool gone with
            | Some p', Some g => Bool.eqb g (code =? 3) && hpred which c p' r obs'
            | _, _ => false
            end
      | _ => false
      end
  end.

Definition c06h_pred (which : Z) (k : hcase) (obs : sx) : bool :=
  let st0 := h_job0 k in
  match obs with
  | SL ol => hpred which (hk_cfg k)
               {| p_cur0 := cur st0; p_sk0 := skip st0; p_seen := []; p_got := []; p_file := hk_prefix k;
                  p_moved := false; p_dead := false |} (hk_ops k) ol
  | _ => false
  end.

(* which = 4: emit format of which 0; which = 5: of which 1 (checkInputBytes inside In) *)
Definition c06h_run (which : Z) (case obs : sx) : verdict :=
  match hcase_of_sx case with
  | None => BadCase
  | Some k =>
      match h_trace which (hk_cfg k) (h_init k) false (hk_ops k) with
      | None => BadCase
      | Some t =>
          let m := SL t in
          if c06h_pred which k obs then (if sx_eqb m obs then Agree else Differ m) else Violates m
      end
  end.

(* ============================ compressed (lz4) jobs (which = 6 | 7) ==============================
   worker.go:100-126: a job whose file name ends in .lz4 is read through lz4.NewReader(file); offsets count the bytes of
   the DECOMPRESSED stream. Such a file cannot be seeked: Job.seek leaves the file alone and sets curOffset = 0, and a job
   resumed from saved offsets skips what was processed by READING it,
       for lastOffset+readBufferSize < minOffset { n, err := lz4Reader.Read(readBuf); if err == io.EOF { break }; lastOffset += n }
   i.e. in whole read buffers, stopping up to one buffer BEFORE the minimum saved offset; the lines between that position
   and the saved offset are handed to In again (Pipeline.In / PassEvent drop them by their offsets), the first of them
   possibly without its beginning. The lz4 reader fills the buffer completely while the stream lasts and returns the
   short last piece together with io.EOF (harness oracle lz4-reader-chunks), so inside the skip loop a short last piece
   is swallowed without being counted.
     case = (max cut (off ...) (#frame ...) bufsz lsof)   the file = the lz4 frames of the byte strings, one after the other;
            (off ...) = the stream offsets loaded for this source (empty: not listed); lsof = what the lsof stub of the
            harness answers when worker.go asks whether somebody writes to the file (isNotFileBeingWritten, which looks
            at the FD column only since /repo fix 353d84e) and what follows:
              0 no lsof in PATH | 1 readers only | 3 lsof finds nobody | 4 readers only, a path with the letter w:
                ONE pass, the file is read;
              2 a writer holds the file: the pass reads nothing and marks the job done ("try again later":
                jobProvider.doneJob(job); continue);
              5 as 2, then the watcher's write notification (tryResumeJobAndUnlock) and a pass that finds readers only:
                the file is read as in a first pass (curOffset and the file position are still 0);
              6 as 2, then a maintenance tick, remove_after off: maintenanceJob resumes a compressed job that never
                reached the end of its file (EOF time stamp 0; /repo fix d780bcb) and reports "resumed" (2); the pass
                that follows finds readers only and reads the file as in a first pass;
              7 as 6 with remove_after expired: the same, the file is NOT removed (nothing of it had been read).
                With saved offsets the offsets file of 6 | 7 carries last_read_timestamp: 0 (the earlier run was ended
                before it reached the end of the file - the state in which a saved offset inside the content arises);
              8 (replay only, not generated) as 7, but the saved EOF time stamp is not 0: judged like 7
     obs  = ((emit ...) curOffset #tail shouldSkip done [result [gone]])
            emit as in which 0 (which 6) / which 1 (which 7); done = Job.isDone at the end; result = what the tick of
            scenario 6 | 7 returned; gone = the file is removed (scenario 7)                                          *)
Fixpoint lz4_skip (fuel : nat) (n m L : Z) (rest : bytes) : Z * bytes :=
  match fuel with
  | O => (L, rest)
  | S f => if L + n <? m
           then if n <=? len rest then lz4_skip f n m (L + n) (drop n rest) else (L, [])
           else (L, rest)
  end.

Record zcase := { z_cfg : wcfg; z_offs : list Z; z_frames : list bytes; z_n : nat }.

Definition frame_of_sx (s : sx) : option bytes := match s with SB b => Some b | _ => None end.

Definition zcase_of_sx (s : sx) : option zcase :=
  match s with
  | SL [SZ mx; cut; SL os; SL fs; SZ n; SZ l] =>
      match as_bool cut, opt_map z_of_sx os, opt_map frame_of_sx fs with
      | Some cu, Some ol, Some fl =>
          if (0 <=? mx) && (1 <=? n) && forallb (fun x => 0 <=? x) ol && (0 <=? l) && (l <=? 8)
          then Some {| z_cfg := {| wmax := mx; wcut := cu |}; z_offs := ol; z_frames := fl; z_n := Z.to_nat n |}
          else None
      | _, _, _ => None
      end
  | _ => None
  end.

Definition z_min (k : zcase) : Z := match z_offs k with [] => 0 | o :: r => min_list o r end.
Definition z_content (k : zcase) : bytes := concat (z_frames k).

(* the pass: (where reading for real starts, emits, state) *)
Definition z_pass (k : zcase) : Z * list emit * wst :=
  let b := z_content k in
  let '(L, rest) := lz4_skip (S (length b)) (Z.of_nat (z_n k)) (z_min k) 0 b in
  let '(es, st) := round (z_cfg k) {| cur := L; tail := []; skip := false |} (chunks (z_n k) rest) in
  (L, es, st).

(* the lsof scenario of a case (zcase_of_sx has checked 0 <= l <= 8) *)
Definition z_lsof_of_sx (s : sx) : Z :=
  match s with SL [_; _; _; _; _; SZ l] => if l =? 8 then 7 else l | _ => 0 end.

(* the file is read in this case (in its only pass, or in the pass after the write notification / the maintenance
   tick that resumed the job) *)
Definition z_reads (l : Z) : bool := negb (l =? 2).

(* what the observation carries behind the done flag: the result of the tick (6 | 7: resumed) and "gone" (7: no) *)
Definition z_extra (l : Z) : list sx :=
  if l =? 6 then [SZ 2] else if l =? 7 then [SZ 2; of_bool false] else [].

Definition c06z_model (which : Z) (k : zcase) (l : Z) : sx :=
  if z_reads l then
    let '(L, es, st) := z_pass k in
    (* Job.seek set curOffset to 0 and the skipped bytes are not added to it: curOffset = bytes read after the skipping *)
    SL ([SL (map (sx_of_emit which (z_cfg k)) es); SZ (cur st - L); SB (tail st); of_bool (skip st); of_bool true]
        ++ z_extra l)
  else
    (* being written: nothing is read, the job is done *)
    SL [SL []; SZ 0; SB []; of_bool false; of_bool true].

(* the property on what the implementation did: the lines of the file that end behind the minimum saved offset are
   handed over exactly once, whole, in order, with their offsets in the decompressed stream (what is handed over with an
   offset up to the saved one is dropped by the pipeline and not judged); the tail is the unterminated remainder.
   Well-formed cases: the minimum saved offset is 0, a line end of the content, or behind its end. *)
Definition line_end (m : Z) (b : bytes) : bool :=
  (m =? 0) || ((m <=? len b) && match snd (split_lines (take m b)) with [] => true | _ :: _ => false end).

Definition z_read_ok (which : Z) (k : zcase) (es : list sx) (tl_ : bytes) (skp : sx) : bool :=
  let c := z_cfg k in let b := z_content k in let m := z_min k in
  match opt_map (emit_of_sx which) es, as_bool skp with
  | Some es', Some skp' =>
      forall2b (emit_okb c) (filter (fun e => m <? fst (fst e)) es')
                            (filter (fun e => m <? fst e) (spec_emits c false 0 b))
      && ((len b <? m) || tail_relb c tl_ (snd (split_lines b)))
      && negb skp'
  | _, _ => false
  end.

(* a file that is being written (lz4 cannot be appended to: it is incomplete): nothing of it is handed over in that
   pass, and the job is left done, i.e. where the next write notification resumes it (scenario 5: everything is handed
   over then, exactly as in a first pass). A maintenance tick may leave the job alone (4) or resume it (2; then it must
   have been read like in a first pass); with remove_after expired it must not remove a file that was not read:
   gone only after everything was handed over (as for a plain file, hpred HMaintExp: "read first"). *)
Definition c06z_pred (which : Z) (k : zcase) (l : Z) (obs : sx) : bool :=
  match obs with
  | SL (SL es :: SZ _ :: SB tl_ :: skp :: dn :: extra) =>
      let full := z_read_ok which k es tl_ skp in
      let none := match es with [] => true | _ :: _ => false end in
      match as_bool dn with
      | Some done =>
          if l =? 2 then none && done && match extra with [] => true | _ :: _ => false end
          else if negb ((l =? 6) || (l =? 7)) then full && done && match extra with [] => true | _ :: _ => false end
          else if l =? 6 then
            match extra with
            | [SZ r] => done && (((r =? 4) && none) || ((r =? 2) && full))
            | _ => false
            end
          else
            match extra with
            | [SZ r; g] =>
                match as_bool g with
                | Some gone => if gone then (r =? 3) && full
                               else done && (((r =? 4) && none) || ((r =? 2) && full))
                | None => false
                end
            | _ => false
            end
      | None => false
      end
  | _ => false
  end.

Definition c06z_run (which : Z) (case obs : sx) : verdict :=
  match zcase_of_sx case with
  | None => BadCase
  | Some k =>
      if negb (line_end (z_min k) (z_content k) || (len (z_content k) <? z_min k)) then BadCase else
      let l := z_lsof_of_sx case in
      let m := c06z_model which k l in
      if c06z_pred which k l obs then (if sx_eqb m obs then Agree else Differ m) else Violates m
  end.

(* ============================ end to end: the real Pipeline.In behind the worker (which = 8) =====================
   The recording inputer of the driver hands every (offset, data) to the REAL Pipeline.In of a started pipeline (raw decoder,
   cut_off_event_by_limit_field set): checkInputBytes inside In, event.Offset = offsets.current, message = the accepted
   bytes without their newline, the cut-off flag as a field. What arrives at the OUTPUT plugin is observed.
     case = a which-0/1 case;  obs = (((event ...) cur filepos #tail skip) ...) one item per pass, event = (offset #message cut) *)
Definition event := (Z * bytes * bool)%type.

Definition events_of (c : wcfg) (es : list emit) : list event :=
  flat_map (fun e => let '(out, cutf, ok) := check_input c (snd e) in
                     if ok then [(fst e, removelast out, cutf)] else []) es.

Definition sx_of_event (e : event) : sx := let '(o, m, cf) := e in SL [SZ o; SB m; of_bool cf].

Definition sx_of_pass_e (c : wcfg) (p : list emit * wst) : sx :=
  let '(es, st) := p in
  SL [SL (map sx_of_event (events_of c es)); SZ (cur st); SZ (cur st); SB (tail st); of_bool (skip st)].

Definition c06e_model (k : wcase) : sx :=
  let '(st0, extra) := shift_state (k_base k) (init_state (k_mode k) (k_prefix k)) in
  SL (map (sx_of_pass_e (k_cfg k)) (rounds_trace (k_cfg k) st0 (avail extra (k_rounds k)))).

Definition event_of_sx (s : sx) : option event :=
  match s with
  | SL [SZ o; SB m; cf] => match as_bool cf with Some b => Some (o, m, b) | None => None end
  | _ => None
  end.

Definition event_eqb (a b : event) : bool :=
  let '(o1, m1, c1) := a in let '(o2, m2, c2) := b in Z.eqb o1 o2 && bytes_eqb m1 m2 && Bool.eqb c1 c2.

(* after every pass: the events that reached the output so far = the accepted lines of everything readable so far (exact:
   the junk behind a cut line never leaves In), and the saved state is the specification's *)
Fixpoint pred_passes_e (c : wcfg) (st0 : wst) (seen : bytes) (got : list event)
         (rl : list (bytes * nat)) (obs : list sx) : bool :=
  match rl, obs with
  | [], [] => true
  | (a, _) :: rl', SL [SL es; SZ cu; SZ fpos; SB tl_; skp] :: obs' =>
      match opt_map event_of_sx es, as_bool skp with
      | Some es', Some skp' =>
          let seen' := seen ++ a in
          let got' := got ++ es' in
          forall2b event_eqb got' (events_of c (spec_emits c (skip st0) (cur st0) seen'))
          && Z.eqb cu (cur st0 + len seen') && Z.eqb fpos cu
          && tail_relb c tl_ (snd (split_lines seen'))
          && Bool.eqb skp' (skip st0 && negb (has_line seen'))
          && pred_passes_e c st0 seen' got' rl' obs'
      | _, _ => false
      end
  | _, _ => false
  end.

Definition c06e_run (case obs : sx) : verdict :=
  match case_of_sx case with
  | None => BadCase
  | Some k =>
      let m := c06e_model k in
      let '(st0, extra) := shift_state (k_base k) (init_state (k_mode k) (k_prefix k)) in
      let ok := match obs with
                | SL ol => pred_passes_e (k_cfg k) st0 [] [] (avail extra (k_rounds k)) ol
                | _ => false
                end in
      if ok then (if sx_eqb m obs then Agree else Differ m) else Violates m
  end.

(* ============================ end to end with STREAMS (which = 9 | 10) ==========================================
   The real file input Plugin is the pipeline's input plugin (harness/c06/streams.go): a job resumed from the saved offsets
   of SEVERAL streams starts at the smallest of them (an lz4 job: at a read buffer boundary in front of it), so the lines up
   to the saved offset of their own stream are read again and must be recognised as delivered by their offset.

   Go                                                           model
   -----------------------------------------------------------  ----------------------------------------------------
   job.offsets (pipeline.SliceMap: stream name -> offset)       saved = list (name * offset), [saved_get] = SliceMap.Get
   Plugin.PassEvent (file.go): !exist -> true;                  [pass_event]: no saved offset -> true;
       pass := event.Offset > savedOffset                           saved o -> o <? offset
   Pipeline.In, CRI rows with antispam on:                      [in_shortcut]: saved o -> (0 <? o) && (offset <? o)
       streamOffset > 0 && currentOffset < streamOffset -> drop     (ByStream = -1 when the stream is not saved)
   decoder + stream_field of the pipeline settings              dc : bytes -> option (stream, payload, partial): what the
                                                                decoder makes of the accepted bytes (None: undecodable,
                                                                the event goes back to the pool); [json_decode] (the two
                                                                line shapes the generators write), [cri_decode] (DecodeCRI)
   jobProvider.commit: job.offsets[stream] = event.Offset       NOT in the state: an event of stream s is committed only
                                                                after it passed, with an offset above saved(s) and below
                                                                the offset of every later line, so no later decision
                                                                depends on it ([sdeliver_upd], Proofs/WorkerStreams.v:
                                                                committing at once = never committing)
   truncateJob (the saved offsets lie behind the end of the     [saved_zero]: every saved offset becomes 0, position 0
       file): job.offsets.Set(stream, 0) for every stream

     which 9:  case = (fmt thr max cut ((#stream off) ...) #pre ((#append bufsz) ...))     fmt 0 json | 1 cri
               obs  = (((event ...) ordered cur filepos #tail skip) ...)   event = (offset #stream #payload), sorted by offset;
                      ordered = the events of every stream arrived in the order of their offsets
     which 10: case = (fmt thr max cut ((#stream off) ...) (#frame ...) bufsz lsof)        lsof 0 | 1 (the file is read)
               obs  = ((event ...) ordered cur #tail skip done)                                                            *)
Definition saved := list (bytes * Z).
Definition sevent := (Z * bytes * bytes)%type.                       (* event.Offset, stream name, payload *)
Definition ev_off (e : sevent) : Z := fst (fst e).
Definition ev_stream (e : sevent) : bytes := snd (fst e).

Fixpoint saved_get (sv : saved) (s : bytes) : option Z :=
  match sv with
  | [] => None
  | (n, o) :: r => if bytes_eqb n s then Some o else saved_get r s
  end.

Definition above (o : option Z) (off : Z) : bool := match o with None => true | Some x => x <? off end.
Definition pass_event (sv : saved) (s : bytes) (off : Z) : bool := above (saved_get sv s) off.
Definition in_shortcut (sv : saved) (s : bytes) (off : Z) : bool :=
  match saved_get sv s with Some o => (0 <? o) && (off <? o) | None => false end.
Definition saved_zero (sv : saved) : saved := map (fun p => (fst p, 0)) sv.

Definition decoder := bytes -> option (bytes * bytes * bool).

(* what Pipeline.In + PassEvent make of one (offset, data) handed over by the worker; sc = the CRI short-cut is active *)
Definition sdeliver1 (dc : decoder) (sc : bool) (sv : saved) (c : wcfg) (e : emit) : list sevent :=
  let '(out, _, ok) := check_input c (snd e) in
  if ok then
    match dc out with
    | Some (s, p, partial) =>
        if sc && negb partial && in_shortcut sv s (fst e) then []
        else if pass_event sv s (fst e) then [(fst e, s, p)] else []
    | None => []
    end
  else [].
Definition sdeliver (dc : decoder) (sc : bool) (sv : saved) (c : wcfg) (es : list emit) : list sevent :=
  flat_map (sdeliver1 dc sc sv c) es.

(* the accepted and decoded lines, whatever was delivered before *)
Definition sdecoded1 (dc : decoder) (c : wcfg) (e : emit) : list sevent :=
  let '(out, _, ok) := check_input c (snd e) in
  if ok then match dc out with Some (s, p, _) => [(fst e, s, p)] | None => [] end else [].
Definition sdecoded (dc : decoder) (c : wcfg) (es : list emit) : list sevent := flat_map (sdecoded1 dc c) es.

(* the other extreme of the commit timing: every delivered event is committed before the next line is handed over *)
Fixpoint saved_set (sv : saved) (s : bytes) (o : Z) : saved :=
  match sv with
  | [] => [(s, o)]
  | (n, x) :: r => if bytes_eqb n s then (n, o) :: r else (n, x) :: saved_set r s o
  end.
Definition commit_all (sv : saved) (evs : list sevent) : saved :=
  fold_left (fun a e => saved_set a (ev_stream e) (ev_off e)) evs sv.
Fixpoint sdeliver_upd (dc : decoder) (sc : bool) (sv : saved) (c : wcfg) (es : list emit) : list sevent :=
  match es with
  | [] => []
  | e :: r => let evs := sdeliver1 dc sc sv c e in evs ++ sdeliver_upd dc sc (commit_all sv evs) c r
  end.

(* ---- the two decoders of the generated files ---- *)
Fixpoint strip_prefix (p b : bytes) : option bytes :=
  match p, b with
  | [], _ => Some b
  | _ :: _, [] => None
  | x :: p', y :: b' => if N.eqb x y then strip_prefix p' b' else None
  end.
Definition safe_char (x : byte) : bool :=                            (* a-z 0-9 _ *)
  ((97 <=? x) && (x <=? 122) || (48 <=? x) && (x <=? 57) || (x =? 95))%N.
Fixpoint span_safe (b : bytes) : bytes * bytes :=
  match b with
  | [] => ([], [])
  | x :: r => if safe_char x then let '(a, t) := span_safe r in (x :: a, t) else ([], b)
  end.
Definition J_STREAM : bytes := [123;34;115;116;114;101;97;109;34;58;34]%N.      (* {qstreamq:q   (q = the double quote) *)
Definition J_MID : bytes := [34;44;34;109;34;58;34]%N.                           (* q,qmq:q *)
Definition J_M : bytes := [123;34;109;34;58;34]%N.                               (* {qmq:q *)
Definition J_END : bytes := [34;125;10]%N.                                       (* q} newline *)
Definition NOT_SET : bytes := [110;111;116;95;115;101;116]%N.                    (* pipeline.DefaultStreamName *)

(* the json decoder on the lines the generators write: an object with the string fields stream = <name>, m = <pad> and an
   object with the field m = <pad> alone (no stream field:
   the event keeps the default stream name), name / pad over a-z 0-9 _; everything else the generators write (empty and
   garbage lines, pieces of lines) is not valid JSON *)
Definition json_decode (d : bytes) : option (bytes * bytes * bool) :=
  match strip_prefix J_STREAM d with
  | Some r =>
      let '(name, r1) := span_safe r in
      match strip_prefix J_MID r1 with
      | Some r2 => let '(pad, r3) := span_safe r2 in if bytes_eqb r3 J_END then Some (name, pad, false) else None
      | None => None
      end
  | None =>
      match strip_prefix J_M d with
      | Some r => let '(pad, r3) := span_safe r in if bytes_eqb r3 J_END then Some (NOT_SET, pad, false) else None
      | None => None
      end
  end.

(* decoder.DecodeCRI: time SP ... stream SP tags SP log; the stream is the first token of SIX bytes behind the time
   (for len(stream) != 6 { ... }), the tags must not be empty, tags[0] = 'P' marks a partial row (log without its last byte) *)
Fixpoint cut_sp (b : bytes) : option (bytes * bytes) :=                (* data[:pos], data[pos+1:] for pos = IndexByte(data, ' ') *)
  match b with
  | [] => None
  | x :: r => if N.eqb x 32%N then Some ([], r)
              else match cut_sp r with Some (a, t) => Some (x :: a, t) | None => None end
  end.
Fixpoint cri_stream (fuel : nat) (d : bytes) : option (bytes * bytes) :=
  match fuel with
  | O => None
  | S f => match cut_sp d with
           | None => None
           | Some (tok, rest) => if len tok =? 6 then Some (tok, rest) else cri_stream f rest
           end
  end.
Definition cri_decode (d : bytes) : option (bytes * bytes * bool) :=
  match cut_sp d with
  | None => None
  | Some (_, r1) =>
      match cri_stream (S (length r1)) r1 with
      | None => None
      | Some (stream, r2) =>
          match cut_sp r2 with
          | None => None
          | Some ([], _) => None
          | Some (t :: _, r3) =>
              let partial := N.eqb t 80%N in
              Some (stream, (if partial then removelast r3 else r3), partial)
          end
      end
  end.

Definition decoder_of (f : Z) : decoder := if f =? 1 then cri_decode else json_decode.

(* ---- which 9: passes over a plain file ---- *)
Record scase := { s_fmt : Z; s_thr : bool; s_cfg : wcfg; s_saved : saved; s_pre : bytes; s_rounds : list (bytes * nat) }.

Definition saved_of_sx (s : sx) : option (bytes * Z) :=
  match s with SL [SB n; SZ o] => if 0 <=? o then Some (n, o) else None | _ => None end.
Fixpoint nodup_names (sv : saved) : bool :=
  match sv with
  | [] => true
  | (n, _) :: r => negb (existsb (fun p => bytes_eqb (fst p) n) r) && nodup_names r
  end.
Definition s_start (sv : saved) : Z := match map snd sv with [] => 0 | o :: r => min_list o r end.

Definition scase_of_sx (s : sx) : option scase :=
  match s with
  | SL [SZ f; thr; SZ mx; cut; SL svs; SB pre; rs] =>
      match as_bool thr, as_bool cut, opt_map saved_of_sx svs, as_list round_of_sx rs with
      | Some th, Some cu, Some sv, Some rl =>
          if ((f =? 0) || (f =? 1)) && (0 <=? mx) && nodup_names sv
          then Some {| s_fmt := f; s_thr := th; s_cfg := {| wmax := mx; wcut := cu |}; s_saved := sv; s_pre := pre; s_rounds := rl |}
          else None
      | _, _, _, _ => None
      end
  | _ => None
  end.

Definition s_trunc (st : wst) : wst := {| cur := 0; tail := []; skip := skip st |}.

Fixpoint s_trace (dc : decoder) (sc : bool) (c : wcfg) (st : wst) (sv : saved) (file : bytes) (rl : list (bytes * nat))
  : list (list sevent * wst) :=
  match rl with
  | [] => []
  | (a, n) :: r =>
      let file' := file ++ a in
      let '(es, st1) := round c st (chunks n (drop (cur st) file')) in
      let evs := sdeliver dc sc sv c es in
      if cur st1 >? len file'                                       (* processEOF: totalOffset > stat.Size() -> truncateJob *)
      then (evs, s_trunc st1) :: s_trace dc sc c (s_trunc st1) (saved_zero sv) file' r
      else (evs, st1) :: s_trace dc sc c st1 sv file' r
  end.

Definition sx_of_sevent (e : sevent) : sx := let '(o, s, p) := e in SL [SZ o; SB s; SB p].
Definition sx_of_spass (p : list sevent * wst) : sx :=
  let '(evs, st) := p in
  SL [SL (map sx_of_sevent evs); of_bool true; SZ (cur st); SZ (cur st); SB (tail st); of_bool (skip st)].

Definition s_sc (k : scase) : bool := s_thr k && (s_fmt k =? 1).
Definition c06s_model (k : scase) : sx :=
  SL (map sx_of_spass (s_trace (decoder_of (s_fmt k)) (s_sc k) (s_cfg k)
                               {| cur := s_start (s_saved k); tail := []; skip := false |} (s_saved k) (s_pre k) (s_rounds k))).

Definition sevent_of_sx (s : sx) : option sevent :=
  match s with SL [SZ o; SB n; SB p] => Some (o, n, p) | _ => None end.
Definition sevent_eqb (a b : sevent) : bool :=
  let '(o1, s1, p1) := a in let '(o2, s2, p2) := b in Z.eqb o1 o2 && bytes_eqb s1 s2 && bytes_eqb p1 p2.
Definition is_nil {A} (l : list A) : bool := match l with [] => true | _ :: _ => false end.

(* the property on what the implementation did. After every pass: the events that reached the output since the job was
   added = the accepted, decodable lines of everything readable behind the start position p0, each line of stream s exactly
   when s has no saved offset or the line ends ABOVE saved(s), once, in the order of the file (per stream: the order of
   arrival), with its offset; position and tail are the specification's. Saved offsets behind the end of the file: the
   pass delivers nothing and the job starts over at 0 with every saved offset 0. *)
Fixpoint s_pred (dc : decoder) (sc : bool) (c : wcfg) (p0 : Z) (sv : saved) (file : bytes) (got : list sevent)
         (rl : list (bytes * nat)) (obs : list sx) : bool :=
  match rl, obs with
  | [], [] => true
  | (a, _) :: rl', SL [SL es; ord; SZ cu; SZ fpos; SB tl_; skp] :: obs' =>
      let file' := file ++ a in
      match opt_map sevent_of_sx es, as_bool ord, as_bool skp with
      | Some es', Some true, Some false =>
          if len file' <? p0 then
            is_nil es' && (cu =? 0) && (fpos =? 0) && is_nil tl_
            && s_pred dc sc c 0 (saved_zero sv) file' [] rl' obs'
          else
            let got' := got ++ es' in
            forall2b sevent_eqb got' (filter (fun e => pass_event sv (ev_stream e) (ev_off e))
                                             (sdecoded dc c (spec_emits c false p0 (drop p0 file'))))
            && (cu =? len file') && (fpos =? cu) && tail_relb c tl_ (snd (split_lines (drop p0 file')))
            && s_pred dc sc c p0 sv file' got' rl' obs'
      | _, _, _ => false
      end
  | _, _ => false
  end.

Definition c06s_run (case obs : sx) : verdict :=
  match scase_of_sx case with
  | None => BadCase
  | Some k =>
      let m := c06s_model k in
      let ok := match obs with
                | SL ol => s_pred (decoder_of (s_fmt k)) (s_sc k) (s_cfg k) (s_start (s_saved k)) (s_saved k) (s_pre k) []
                                  (s_rounds k) ol
                | _ => false
                end in
      if ok then (if sx_eqb m obs then Agree else Differ m) else Violates m
  end.

(* ---- which 10: one pass over an lz4 file (the skip loop of which 6 | 7 in front of it) ---- *)
Record szcase := { sz_fmt : Z; sz_thr : bool; sz_saved : saved; sz_z : zcase }.

Definition szcase_of_sx (s : sx) : option szcase :=
  match s with
  | SL [SZ f; thr; SZ mx; cut; SL svs; SL fs; SZ n; SZ l] =>
      match as_bool thr, as_bool cut, opt_map saved_of_sx svs, opt_map frame_of_sx fs with
      | Some th, Some cu, Some sv, Some fl =>
          if ((f =? 0) || (f =? 1)) && (0 <=? mx) && nodup_names sv && (1 <=? n) && ((l =? 0) || (l =? 1))
          then Some {| sz_fmt := f; sz_thr := th; sz_saved := sv;
                       sz_z := {| z_cfg := {| wmax := mx; wcut := cu |}; z_offs := map snd sv; z_frames := fl; z_n := Z.to_nat n |} |}
          else None
      | _, _, _, _ => None
      end
  | _ => None
  end.

Definition sz_sc (k : szcase) : bool := sz_thr k && (sz_fmt k =? 1).
Definition c06sz_model (k : szcase) : sx :=
  let '(L, es, st) := z_pass (sz_z k) in
  SL [SL (map sx_of_sevent (sdeliver (decoder_of (sz_fmt k)) (sz_sc k) (sz_saved k) (z_cfg (sz_z k)) es));
      of_bool true; SZ (cur st - L); SB (tail st); of_bool (skip st); of_bool true].

(* the property: behind the smallest saved offset m exactly the lines PassEvent's rule selects from the whole content; of
   what was read again in front of m (from the read buffer boundary the skip loop stopped at) nothing that ends at or below
   the saved offset of its stream; order, tail, shouldSkip, the job is done *)
Definition c06sz_pred (k : szcase) (obs : sx) : bool :=
  let z := sz_z k in let c := z_cfg z in let b := z_content z in let m := z_min z in let sv := sz_saved k in
  match obs with
  | SL [SL es; ord; SZ _; SB tl_; skp; dn] =>
      match opt_map sevent_of_sx es, as_bool ord, as_bool skp, as_bool dn with
      | Some es', Some true, Some false, Some true =>
          forall2b sevent_eqb (filter (fun e => m <? ev_off e) es')
                   (filter (fun e => m <? ev_off e)
                           (filter (fun e => pass_event sv (ev_stream e) (ev_off e))
                                   (sdecoded (decoder_of (sz_fmt k)) c (spec_emits c false 0 b))))
          && forallb (fun e => pass_event sv (ev_stream e) (ev_off e)) es'
          && ((len b <? m) || tail_relb c tl_ (snd (split_lines b)))
      | _, _, _, _ => false
      end
  | _ => false
  end.

Definition c06sz_run (case obs : sx) : verdict :=
  match szcase_of_sx case with
  | None => BadCase
  | Some k =>
      let z := sz_z k in
      if negb (line_end (z_min z) (z_content z) || (len (z_content z) <? z_min z)) then BadCase else
      let m := c06sz_model k in
      if c06sz_pred k obs then (if sx_eqb m obs then Agree else Differ m) else Violates m
  end.

Definition c06_entry (which : Z) (case obs : sx) : verdict :=
  match which with
  | 0 | 1 => c06_run which case obs
  | 3 => c06_multi case obs
  | 4 | 5 => c06h_run (which - 4) case obs
  | 6 | 7 => c06z_run (which - 6) case obs
  | 8 => c06e_run case obs
  | 9 => c06s_run case obs
  | 10 => c06sz_run case obs
  | _ => match c06_ci_model case with
         | Some m => exact_verdict m obs
         | None => BadCase
         end
  end.
