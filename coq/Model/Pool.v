(* Model of the two event pools of pipeline/event.go as labelled transition systems at micro-step
   granularity: one label = one atomic operation / mutex operation / Cond operation of get, back and
   wakeupWaiters (one verifPool* call site).  [step] returns None when a label is not enabled: for an
   observed trace that is a correspondence break.  Guards quote the code, never the property.
   The comparisons of the code (`inUse <= p.capacity`, `inUse < capacity`) and the heartbeat condition
   (`waiters > 0 && eventsAvailable`) are fields of the record [pcfg]; Gen/PoolGen.v holds their values as
   regenerated from the Go AST.  No proofs here. *)
From Verif Require Import Base.Sx.

(* ---- finite maps thread -> pc, slot -> content (association lists, first binding wins) ---------- *)
Section FMap.
  Context {V : Type}.
  Fixpoint fget (d : V) (k : Z) (m : list (Z * V)) : V :=
    match m with [] => d | (k', v) :: r => if k =? k' then v else fget d k r end.
  Fixpoint frem (k : Z) (m : list (Z * V)) : list (Z * V) :=
    match m with [] => [] | (k', v) :: r => if k =? k' then frem k r else (k', v) :: frem k r end.
  Definition fset (k : Z) (v : V) (m : list (Z * V)) : list (Z * V) := (k, v) :: frem k m.
  Definition fcnt (P : V -> bool) (m : list (Z * V)) : Z :=
    Z.of_nat (length (filter (fun kv => P (snd kv)) m)).
  Definition fmapv (f : V -> V) (m : list (Z * V)) : list (Z * V) := map (fun kv => (fst kv, f (snd kv))) m.
End FMap.

Fixpoint mem_z (x : Z) (l : list Z) : bool := match l with [] => false | y :: r => (x =? y) || mem_z x r end.
Fixpoint rem1 (x : Z) (l : list Z) : list Z :=
  match l with [] => [] | y :: r => if x =? y then r else y :: rem1 x r end.
Definition len (l : list Z) : Z := Z.of_nat (length l).

(* the code's comparisons and heartbeat condition *)
Record pcfg := {
  cap : Z;                          (* capacity *)
  fits : Z -> Z -> bool;           (* low-memory get: `inUse <= p.capacity` (inUse = result of Inc) *)
  avail : Z -> Z -> bool;           (* eventsAvailable: `inUse < capacity` *)
  tickc : bool -> bool -> bool      (* wakeupWaiters: condition over (waiters > 0, eventsAvailable) *)
}.

(* the heartbeat goroutine: loads waiters, loads availability, broadcasts or not *)
Inductive tpc := TIdle | TW (w : Z) | TA (w : Z) (a : bool) | TFired.

(* ============================ low-memory pool ================================================= *)
Inductive lpc :=
| LIdle                   (* outside get(), or at `again:` *)
| LIncd (r : Z)           (* after inUseEvents.Inc() returned r *)
| LOver                   (* slow path: after inUseEvents.Dec() *)
| LWaiting                (* after slowWaiters.Inc() *)
| LLocked                 (* holds getCond.L *)
| LChkFalse               (* holds L, saw !eventsAvailable() *)
| LSleep                  (* inside Wait(): on the notify list, L released *)
| LWoken                  (* notified, L not yet re-acquired *)
| LReady                  (* holds L; next is L.Unlock() (check was true, or Wait returned) *)
| LUnlocked.              (* L released, before slowWaiters.Dec() *)

Record lst := {
  l_inuse : Z;                    (* inUseEvents *)
  l_waiters : Z;                  (* slowWaiters *)
  l_lock : bool;                  (* getCond.L held *)
  l_thr : list (Z * lpc);         (* pc of every getter (absent = LIdle) *)
  l_holders : list Z;             (* one entry (the getter's id) per event handed out and not yet returned *)
  l_bpend : list Z;               (* back() calls between Dec and Broadcast *)
  l_tick : tpc
}.

Definition linit : lst :=
  {| l_inuse := 0; l_waiters := 0; l_lock := false; l_thr := []; l_holders := []; l_bpend := []; l_tick := TIdle |}.

Inductive llabel :=
| LmInc (g r : Z) | LmEnter (g : Z) | LmDec (g : Z) | LmWInc (g : Z) | LmLock (g : Z)
| LmCheck (g : Z) (b : bool) | LmReg (g : Z) | LmWake (g : Z) | LmUnlock (g : Z) | LmWDec (g : Z)
| LmBDec (h : Z) | LmBBc (h : Z)
| LmTickW (w : Z) | LmTickA (a : bool) | LmTickFire | LmTickEnd
| LmEnvBc.                         (* a Broadcast issued by the environment (harness rescue) *)

Definition lpc_of (s : lst) (g : Z) : lpc := fget LIdle g (l_thr s).
Definition lwake (p : lpc) : lpc := match p with LSleep => LWoken | _ => p end.
Definition lbroadcast (m : list (Z * lpc)) : list (Z * lpc) := fmapv lwake m.

Definition lupd (s : lst) inuse waiters lock thr holders bpend tick : lst :=
  {| l_inuse := inuse; l_waiters := waiters; l_lock := lock; l_thr := thr; l_holders := holders;
     l_bpend := bpend; l_tick := tick |}.
Definition lset_pc (s : lst) (g : Z) (p : lpc) : lst :=
  lupd s (l_inuse s) (l_waiters s) (l_lock s) (fset g p (l_thr s)) (l_holders s) (l_bpend s) (l_tick s).
Definition lbcast (s : lst) : lst :=
  lupd s (l_inuse s) (l_waiters s) (l_lock s) (lbroadcast (l_thr s)) (l_holders s) (l_bpend s) (l_tick s).
Definition lset_tick (s : lst) (t : tpc) : lst :=
  lupd s (l_inuse s) (l_waiters s) (l_lock s) (l_thr s) (l_holders s) (l_bpend s) t.

Definition lstep (c : pcfg) (s : lst) (l : llabel) : option lst :=
  match l with
  | LmInc g r =>
      match lpc_of s g with
      | LIdle => if r =? l_inuse s + 1
                 then Some (lupd s (l_inuse s + 1) (l_waiters s) (l_lock s) (fset g (LIncd r) (l_thr s)) (l_holders s) (l_bpend s) (l_tick s))
                 else None
      | _ => None
      end
  | LmEnter g =>
      match lpc_of s g with
      | LIncd r => if fits c r (cap c)
                   then Some (lupd s (l_inuse s) (l_waiters s) (l_lock s) (fset g LIdle (l_thr s)) (g :: l_holders s) (l_bpend s) (l_tick s))
                   else None
      | _ => None
      end
  | LmDec g =>
      match lpc_of s g with
      | LIncd r => if fits c r (cap c) then None
                   else Some (lupd s (l_inuse s - 1) (l_waiters s) (l_lock s) (fset g LOver (l_thr s)) (l_holders s) (l_bpend s) (l_tick s))
      | _ => None
      end
  | LmWInc g =>
      match lpc_of s g with
      | LOver => Some (lupd s (l_inuse s) (l_waiters s + 1) (l_lock s) (fset g LWaiting (l_thr s)) (l_holders s) (l_bpend s) (l_tick s))
      | _ => None
      end
  | LmLock g =>
      match lpc_of s g with
      | LWaiting => if l_lock s then None
                    else Some (lupd s (l_inuse s) (l_waiters s) true (fset g LLocked (l_thr s)) (l_holders s) (l_bpend s) (l_tick s))
      | _ => None
      end
  | LmCheck g b =>
      match lpc_of s g with
      | LLocked => if Bool.eqb b (avail c (l_inuse s) (cap c))
                   then Some (lset_pc s g (if b then LReady else LChkFalse))
                   else None
      | _ => None
      end
  | LmReg g =>
      match lpc_of s g with
      | LChkFalse => Some (lupd s (l_inuse s) (l_waiters s) false (fset g LSleep (l_thr s)) (l_holders s) (l_bpend s) (l_tick s))
      | _ => None
      end
  | LmWake g =>
      match lpc_of s g with
      | LWoken => if l_lock s then None
                  else Some (lupd s (l_inuse s) (l_waiters s) true (fset g LReady (l_thr s)) (l_holders s) (l_bpend s) (l_tick s))
      | _ => None
      end
  | LmUnlock g =>
      match lpc_of s g with
      | LReady => Some (lupd s (l_inuse s) (l_waiters s) false (fset g LUnlocked (l_thr s)) (l_holders s) (l_bpend s) (l_tick s))
      | _ => None
      end
  | LmWDec g =>
      match lpc_of s g with
      | LUnlocked => Some (lupd s (l_inuse s) (l_waiters s - 1) (l_lock s) (fset g LIdle (l_thr s)) (l_holders s) (l_bpend s) (l_tick s))
      | _ => None
      end
  | LmBDec h =>
      (* environment assumption: back() is called for an event that is held *)
      if mem_z h (l_holders s)
      then Some (lupd s (l_inuse s - 1) (l_waiters s) (l_lock s) (l_thr s) (rem1 h (l_holders s)) (h :: l_bpend s) (l_tick s))
      else None
  | LmBBc h =>
      if mem_z h (l_bpend s)
      then Some (lupd s (l_inuse s) (l_waiters s) (l_lock s) (lbroadcast (l_thr s)) (l_holders s) (rem1 h (l_bpend s)) (l_tick s))
      else None
  | LmTickW w =>
      match l_tick s with
      | TIdle => if w =? l_waiters s then Some (lset_tick s (TW w)) else None
      | _ => None
      end
  | LmTickA a =>
      match l_tick s with
      | TW w => if Bool.eqb a (avail c (l_inuse s) (cap c)) then Some (lset_tick s (TA w a)) else None
      | _ => None
      end
  | LmTickFire =>
      match l_tick s with
      | TA w a => if tickc c (0 <? w) a then Some (lset_tick (lbcast s) TFired) else None
      | _ => None
      end
  | LmTickEnd =>
      match l_tick s with
      | TA w a => if tickc c (0 <? w) a then None else Some (lset_tick s TIdle)
      | TFired => Some (lset_tick s TIdle)
      | _ => None
      end
  | LmEnvBc => Some (lbcast s)
  end.

Fixpoint lrun (c : pcfg) (s : lst) (ls : list llabel) : option lst :=
  match ls with
  | [] => Some s
  | l :: r => match lstep c s l with Some s' => lrun c s' r | None => None end
  end.

(* steps of the environment: calling get / back, and the harness' rescue broadcast *)
Definition l_env (l : llabel) : bool :=
  match l with LmInc _ _ | LmBDec _ | LmEnvBc => true | _ => false end.
Definition l_is_tickw (l : llabel) : bool := match l with LmTickW _ => true | _ => false end.

(* ============================ standard pool =================================================== *)
Record slot := { f1 : bool; f2 : bool; sev : option Z }.
Definition slot0 : slot := {| f1 := false; f2 := false; sev := None |}.

Inductive gpc :=
| GIdle
| GSpin (x : Z)           (* owns ticket x, trying free1[x].CAS(true,false) *)
| GWaiting (x : Z)        (* after slowWaiters.Inc() *)
| GLocked (x : Z)         (* holds getMu *)
| GSleep (x : Z)          (* inside Wait() *)
| GWoken (x : Z)
| GReady (x : Z)          (* Wait returned: holds getMu *)
| GUnlocked (x : Z)       (* before slowWaiters.Dec() *)
| GTook (x : Z)           (* won free1[x] *)
| GTaken (x : Z)          (* read and cleared events[x] *)
| GF2.                    (* stored free2[x] = false, before inUseEvents.Inc() *)

Inductive bpc :=
| BIdle
| BSpin (y : Z)           (* owns ticket y, trying free2[y].CAS(false,true) *)
| BWon (y : Z)            (* won free2[y] *)
| BPut (y : Z).           (* stored events[y]; next: free1[y].Store(true) *)
(* once free1[y] is true the object can be handed out (and even returned) again while the tail of this
   back() call (inUseEvents.Dec, Broadcast) is still to come: the tail is counted, not keyed by object *)

Record sst := {
  s_slots : list (Z * slot);
  s_getc : Z;                     (* getCounter *)
  s_backc : Z;                    (* backCounter - capacity (number of back tickets handed out) *)
  s_inuse : Z;
  s_waiters : Z;
  s_lock : bool;                  (* getMu *)
  s_gthr : list (Z * gpc);        (* getters by thread id *)
  s_bthr : list (Z * bpc);        (* back() calls by event id *)
  s_holders : list Z;             (* event objects out of the pool and not inside back() *)
  s_pdec : Z;                     (* back() calls past free1[y].Store(true), before inUseEvents.Dec() *)
  s_pbc : Z;                      (* back() calls past inUseEvents.Dec(), before Broadcast() *)
  s_tick : tpc
}.

Fixpoint init_slots (n : nat) : list (Z * slot) :=
  match n with
  | O => []
  | S k => (Z.of_nat k, {| f1 := true; f2 := true; sev := Some (Z.of_nat k) |}) :: init_slots k
  end.

Definition sinit (c : pcfg) : sst :=
  {| s_slots := init_slots (Z.to_nat (cap c)); s_getc := 0; s_backc := 0; s_inuse := 0; s_waiters := 0;
     s_lock := false; s_gthr := []; s_bthr := []; s_holders := []; s_pdec := 0; s_pbc := 0; s_tick := TIdle |}.

Inductive slabel :=
| SClaim (g x : Z) | SCas (g x : Z) (ok : bool) | SWInc (g : Z) | SLock (g : Z) | SReg (g : Z)
| SWake (g : Z) | SUnlock (g : Z) | SWDec (g : Z) | STake (g x e : Z) | SF2 (g : Z) | SInc (g : Z)
| SBClaim (e y : Z) | SBCas (e y : Z) (ok : bool) | SBPut (e : Z) | SBF1 (e : Z) | SBDec (e : Z) | SBBc (e : Z)
| STickW (w : Z) | STickA (a : bool) | STickFire | STickEnd
| SEnvBc.

Definition gpc_of (s : sst) (g : Z) : gpc := fget GIdle g (s_gthr s).
Definition bpc_of (s : sst) (e : Z) : bpc := fget BIdle e (s_bthr s).
Definition slot_of (s : sst) (x : Z) : slot := fget slot0 x (s_slots s).
Definition gwake (p : gpc) : gpc := match p with GSleep x => GWoken x | _ => p end.
Definition sbroadcast (m : list (Z * gpc)) : list (Z * gpc) := fmapv gwake m.

Definition supd (s : sst) slots getc backc inuse waiters lock gthr bthr holders tick : sst :=
  {| s_slots := slots; s_getc := getc; s_backc := backc; s_inuse := inuse; s_waiters := waiters; s_lock := lock;
     s_gthr := gthr; s_bthr := bthr; s_holders := holders; s_pdec := s_pdec s; s_pbc := s_pbc s; s_tick := tick |}.
Definition sset_pend (s : sst) (pd pb : Z) : sst :=
  {| s_slots := s_slots s; s_getc := s_getc s; s_backc := s_backc s; s_inuse := s_inuse s; s_waiters := s_waiters s;
     s_lock := s_lock s; s_gthr := s_gthr s; s_bthr := s_bthr s; s_holders := s_holders s; s_pdec := pd; s_pbc := pb;
     s_tick := s_tick s |}.
Definition sset_g (s : sst) (g : Z) (p : gpc) : sst :=
  supd s (s_slots s) (s_getc s) (s_backc s) (s_inuse s) (s_waiters s) (s_lock s) (fset g p (s_gthr s)) (s_bthr s) (s_holders s) (s_tick s).
Definition sset_b (s : sst) (e : Z) (p : bpc) : sst :=
  supd s (s_slots s) (s_getc s) (s_backc s) (s_inuse s) (s_waiters s) (s_lock s) (s_gthr s) (fset e p (s_bthr s)) (s_holders s) (s_tick s).
Definition sset_slot (s : sst) (x : Z) (v : slot) : sst :=
  supd s (fset x v (s_slots s)) (s_getc s) (s_backc s) (s_inuse s) (s_waiters s) (s_lock s) (s_gthr s) (s_bthr s) (s_holders s) (s_tick s).
Definition sset_lock (s : sst) (b : bool) : sst :=
  supd s (s_slots s) (s_getc s) (s_backc s) (s_inuse s) (s_waiters s) b (s_gthr s) (s_bthr s) (s_holders s) (s_tick s).
Definition sset_waiters (s : sst) (w : Z) : sst :=
  supd s (s_slots s) (s_getc s) (s_backc s) (s_inuse s) w (s_lock s) (s_gthr s) (s_bthr s) (s_holders s) (s_tick s).
Definition sset_inuse (s : sst) (n : Z) : sst :=
  supd s (s_slots s) (s_getc s) (s_backc s) n (s_waiters s) (s_lock s) (s_gthr s) (s_bthr s) (s_holders s) (s_tick s).
Definition sset_holders (s : sst) (h : list Z) : sst :=
  supd s (s_slots s) (s_getc s) (s_backc s) (s_inuse s) (s_waiters s) (s_lock s) (s_gthr s) (s_bthr s) h (s_tick s).
Definition sset_tick (s : sst) (t : tpc) : sst :=
  supd s (s_slots s) (s_getc s) (s_backc s) (s_inuse s) (s_waiters s) (s_lock s) (s_gthr s) (s_bthr s) (s_holders s) t.
Definition sbcast (s : sst) : sst :=
  supd s (s_slots s) (s_getc s) (s_backc s) (s_inuse s) (s_waiters s) (s_lock s) (sbroadcast (s_gthr s)) (s_bthr s) (s_holders s) (s_tick s).

Definition sstep (c : pcfg) (s : sst) (l : slabel) : option sst :=
  match l with
  | SClaim g x =>
      match gpc_of s g with
      | GIdle => if (0 <? cap c) && (x =? s_getc s mod cap c)
                 then Some (supd s (s_slots s) (s_getc s + 1) (s_backc s) (s_inuse s) (s_waiters s) (s_lock s)
                                 (fset g (GSpin x) (s_gthr s)) (s_bthr s) (s_holders s) (s_tick s))
                 else None
      | _ => None
      end
  | SCas g x ok =>
      match gpc_of s g with
      | GSpin x' =>
          let sl := slot_of s x in
          if (x =? x') && Bool.eqb ok (f1 sl) then
            if ok then Some (sset_g (sset_slot s x {| f1 := false; f2 := f2 sl; sev := sev sl |}) g (GTook x))
            else Some s
          else None
      | _ => None
      end
  | SWInc g =>
      match gpc_of s g with
      | GSpin x => Some (sset_g (sset_waiters s (s_waiters s + 1)) g (GWaiting x))
      | _ => None
      end
  | SLock g =>
      match gpc_of s g with
      | GWaiting x => if s_lock s then None else Some (sset_g (sset_lock s true) g (GLocked x))
      | _ => None
      end
  | SReg g =>
      match gpc_of s g with
      | GLocked x => Some (sset_g (sset_lock s false) g (GSleep x))
      | _ => None
      end
  | SWake g =>
      match gpc_of s g with
      | GWoken x => if s_lock s then None else Some (sset_g (sset_lock s true) g (GReady x))
      | _ => None
      end
  | SUnlock g =>
      match gpc_of s g with
      | GReady x => Some (sset_g (sset_lock s false) g (GUnlocked x))
      | _ => None
      end
  | SWDec g =>
      match gpc_of s g with
      | GUnlocked x => Some (sset_g (sset_waiters s (s_waiters s - 1)) g (GSpin x))
      | _ => None
      end
  | STake g x e =>
      match gpc_of s g with
      | GTook x' =>
          let sl := slot_of s x in
          match sev sl with
          | Some e' =>
              if (x =? x') && (e =? e')
              then Some (sset_g (sset_holders (sset_slot s x {| f1 := f1 sl; f2 := f2 sl; sev := None |}) (e :: s_holders s)) g (GTaken x))
              else None
          | None => None            (* events[x] == nil: the real code would dereference nil *)
          end
      | _ => None
      end
  | SF2 g =>
      match gpc_of s g with
      | GTaken x =>
          let sl := slot_of s x in
          Some (sset_g (sset_slot s x {| f1 := f1 sl; f2 := false; sev := sev sl |}) g GF2)
      | _ => None
      end
  | SInc g =>
      match gpc_of s g with
      | GF2 => Some (sset_g (sset_inuse s (s_inuse s + 1)) g GIdle)
      | _ => None
      end
  | SBClaim e y =>
      match bpc_of s e with
      | BIdle =>
          (* environment assumption: back() is called for an event that is held *)
          if mem_z e (s_holders s) && (0 <? cap c) && (y =? s_backc s mod cap c)
          then Some (supd s (s_slots s) (s_getc s) (s_backc s + 1) (s_inuse s) (s_waiters s) (s_lock s) (s_gthr s)
                          (fset e (BSpin y) (s_bthr s)) (rem1 e (s_holders s)) (s_tick s))
          else None
      | _ => None
      end
  | SBCas e y ok =>
      match bpc_of s e with
      | BSpin y' =>
          let sl := slot_of s y in
          if (y =? y') && Bool.eqb ok (negb (f2 sl)) then
            if ok then Some (sset_b (sset_slot s y {| f1 := f1 sl; f2 := true; sev := sev sl |}) e (BWon y))
            else Some s
          else None
      | _ => None
      end
  | SBPut e =>
      match bpc_of s e with
      | BWon y =>
          let sl := slot_of s y in
          Some (sset_b (sset_slot s y {| f1 := f1 sl; f2 := f2 sl; sev := Some e |}) e (BPut y))
      | _ => None
      end
  | SBF1 e =>
      match bpc_of s e with
      | BPut y =>
          let sl := slot_of s y in
          Some (sset_pend (sset_b (sset_slot s y {| f1 := true; f2 := f2 sl; sev := sev sl |}) e BIdle) (s_pdec s + 1) (s_pbc s))
      | _ => None
      end
  | SBDec e =>
      if 0 <? s_pdec s then Some (sset_pend (sset_inuse s (s_inuse s - 1)) (s_pdec s - 1) (s_pbc s + 1)) else None
  | SBBc e =>
      if 0 <? s_pbc s then Some (sset_pend (sbcast s) (s_pdec s) (s_pbc s - 1)) else None
  | STickW w =>
      match s_tick s with
      | TIdle => if w =? s_waiters s then Some (sset_tick s (TW w)) else None
      | _ => None
      end
  | STickA a =>
      match s_tick s with
      | TW w => if Bool.eqb a (avail c (s_inuse s) (cap c)) then Some (sset_tick s (TA w a)) else None
      | _ => None
      end
  | STickFire =>
      match s_tick s with
      | TA w a => if tickc c (0 <? w) a then Some (sset_tick (sbcast s) TFired) else None
      | _ => None
      end
  | STickEnd =>
      match s_tick s with
      | TA w a => if tickc c (0 <? w) a then None else Some (sset_tick s TIdle)
      | TFired => Some (sset_tick s TIdle)
      | _ => None
      end
  | SEnvBc => Some (sbcast s)
  end.

Fixpoint srun (c : pcfg) (s : sst) (ls : list slabel) : option sst :=
  match ls with
  | [] => Some s
  | l :: r => match sstep c s l with Some s' => srun c s' r | None => None end
  end.

Definition s_env (l : slabel) : bool :=
  match l with SClaim _ _ | SBClaim _ _ | SEnvBc => true | _ => false end.
Definition s_is_tickw (l : slabel) : bool := match l with STickW _ => true | _ => false end.

(* ============================ the heartbeat's life cycle ======================================= *)
(* Both pools start their heartbeat goroutine (wakeupWaiters) ONCE - `runHeartbeatOnce.Do(go wakeupWaiters)` on the slow
   path of get() - and rely on it for ever after: back() broadcasts without the condition lock, so a wake-up can be lost and
   only a later heartbeat tick repairs it.  The transition systems above let the heartbeat tick at any time; this layer adds
   the goroutine's life cycle on top of either of them:
     HbNone  not started yet: no tick label is enabled
     HbRun   running: the tick labels are those of the pool's transition system
     HbGone  the goroutine has returned: no tick label is enabled ever again (the Once never fires a second time)
   [hb_starts] / [hb_forever] are facts about the source, regenerated from the Go AST (Gen/PoolGen.v):
     hb_starts   get() runs the Once on every path that reaches getCond.Wait()
     hb_forever  wakeupWaiters is `for { if stopped { return }; sleep; ... }` with no other way out of the loop
   With hb_forever = false the goroutine may return at any point ([HExit]): an over-approximation of "has an exit path".
   Stopping the pool (shutdown) is outside this model.  Wall-clock time is outside it too: that the running heartbeat
   DOES tick again and again (scheduler fairness: infinitely many ticks) is the liveness assumption, stated explicitly as
   the hypothesis "the run contains heartbeat iterations" of the theorems [pool_fair_heartbeat_wakes_*]. *)
Inductive hbst := HbNone | HbRun | HbGone.
Record hcfg := { hb_starts : bool; hb_forever : bool }.
Inductive hlab (Lab : Type) := HL (l : Lab) | HExit.
Arguments HL {Lab} l.
Arguments HExit {Lab}.
Record hst (St : Type) := mk_hst { h_hb : hbst; h_s : St }.
Arguments mk_hst {St} _ _.
Arguments h_hb {St} _.
Arguments h_s {St} _.

Definition hb_running (b : hbst) : bool := match b with HbRun => true | _ => false end.

Section HbLayer.
  Context {St Lab : Type}.
  Variable step : St -> Lab -> option St.
  Variable is_start : Lab -> bool.    (* the label of the program point in front of the Once *)
  Variable is_tick : Lab -> bool.     (* the labels of the heartbeat goroutine *)
  Variable h : hcfg.

  Definition hb_after (b : hbst) (l : Lab) : hbst :=
    match b with HbNone => if is_start l && hb_starts h then HbRun else HbNone | _ => b end.

  Definition hstep (s : hst St) (l : hlab Lab) : option (hst St) :=
    match l with
    | HExit => if hb_running (h_hb s) && negb (hb_forever h) then Some (mk_hst HbGone (h_s s)) else None
    | HL l0 =>
        if is_tick l0 && negb (hb_running (h_hb s)) then None
        else match step (h_s s) l0 with
             | Some s' => Some (mk_hst (hb_after (h_hb s) l0) s')
             | None => None
             end
    end.

  Fixpoint hrun (s : hst St) (ls : list (hlab Lab)) : option (hst St) :=
    match ls with
    | [] => Some s
    | l :: r => match hstep s l with Some s' => hrun s' r | None => None end
    end.
End HbLayer.

(* low-memory pool: the Once follows inUseEvents.Dec() of the slow path (LmDec) in program order - the heartbeat is taken
   to run from that label on (it cannot tick earlier, it may start a moment later: irrelevant to what is proved) *)
Definition l_is_start (l : llabel) : bool := match l with LmDec _ => true | _ => false end.
Definition l_is_tick (l : llabel) : bool :=
  match l with LmTickW _ | LmTickA _ | LmTickFire | LmTickEnd => true | _ => false end.
Definition lhstep (c : pcfg) (h : hcfg) := hstep (lstep c) l_is_start l_is_tick h.
Definition lhrun (c : pcfg) (h : hcfg) := hrun (lstep c) l_is_start l_is_tick h.
Definition lhinit : hst lst := mk_hst HbNone linit.
(* steps of the environment; the heartbeat's return is not one *)
Definition lh_env (l : hlab llabel) : bool := match l with HL l0 => l_env l0 | HExit => false end.
Definition lh_nonenv (ls : list (hlab llabel)) : Prop := forallb (fun l => negb (lh_env l)) ls = true.

(* standard pool: the Once is on the slowest path of get(), reached after getCounter.Inc() (SClaim) - same remark *)
Definition s_is_start (l : slabel) : bool := match l with SClaim _ _ => true | _ => false end.
Definition s_is_tick (l : slabel) : bool :=
  match l with STickW _ | STickA _ | STickFire | STickEnd => true | _ => false end.
Definition shstep (c : pcfg) (h : hcfg) := hstep (sstep c) s_is_start s_is_tick h.
Definition shrun (c : pcfg) (h : hcfg) := hrun (sstep c) s_is_start s_is_tick h.
Definition shinit (c : pcfg) : hst sst := mk_hst HbNone (sinit c).
Definition sh_env (l : hlab slabel) : bool := match l with HL l0 => s_env l0 | HExit => false end.
Definition sh_nonenv (ls : list (hlab slabel)) : Prop := forallb (fun l => negb (sh_env l)) ls = true.

(* ---- fairness: runs during which one getter stays asleep, and the heartbeat iterations they contain -------------------- *)
(* [lrun_asleep c g s ls]: the run of ls from s, defined only when getter g is inside Cond.Wait() in every state reached *)
Fixpoint lrun_asleep (c : pcfg) (g : Z) (s : lst) (ls : list llabel) : option lst :=
  match ls with
  | [] => Some s
  | l :: r => match lstep c s l with
              | Some s' => match lpc_of s' g with LSleep => lrun_asleep c g s' r | _ => None end
              | None => None
              end
  end.
Fixpoint srun_asleep (c : pcfg) (g : Z) (s : sst) (ls : list slabel) : option sst :=
  match ls with
  | [] => Some s
  | l :: r => match sstep c s l with
              | Some s' => match gpc_of s' g with GSleep _ => srun_asleep c g s' r | _ => None end
              | None => None
              end
  end.
(* heartbeat iterations of a run that found capacity free (`eventsAvailable` loaded as true) *)
Definition l_avail_ticks (ls : list llabel) : nat :=
  length (filter (fun l => match l with LmTickA true => true | _ => false end) ls).
Definition s_avail_ticks (ls : list slabel) : nat :=
  length (filter (fun l => match l with STickA true => true | _ => false end) ls).
