(* C10, which = 5: the kafka input plugin END TO END in a consumer group — real Plugin.Start / NewClient / poll loop /
   Assigned / Lost / Commit / Stop against an in-process broker (harness/c10/group.go, broker.go) — and what a
   RESTART of the group redelivers. Executable model, no proofs here (Proofs/KafkaGroup.v).

   Three maps of (topic, partition) -> (offset, epoch), all of the type [marks] of Model/Kafka.v:
     B  what the group has committed to Kafka (the broker's __consumer_offsets),
     M  the heads kgo holds for the member (MarkCommitOffsets; Model/Kafka.v mark_update),
     C  what the member knows to be committed (kgo's uncommit.committed): MarkedOffsets shows, and
        CommitMarkedOffsets sends, the heads that differ from it.
   A member that (re)joins — Start, or Lost + Assigned of an eager rebalance — fetches the group's offsets:
   M = C = B (the leader epoch is kept only when the broker offers OffsetForLeaderEpoch, kgo: kip320), and every
   partition is read from its committed offset; a partition without one from the start of its log (offset: oldest)
   or from behind everything that is there (offset: newest).  [redelivered] is that rule. *)
From Verif Require Import Base.Sx Base.GoSem Model.KafkaInt Gen.KafkaGen Model.Kafka.

Definition rkey (r : krec) : key := (k_topic r, k_part r).

Definition from_commit (b : marks) (oldest : bool) (r : krec) : bool :=
  match lookup b (rkey r) with
  | Some h => fst h <=? k_off r
  | None => oldest
  end.
(* what a member that starts from the committed offsets b is handed of a log *)
Definition redelivered (b : marks) (oldest : bool) (log : list krec) : list krec :=
  filter (from_commit b oldest) log.

(* ---- configuration of a case ------------------------------------------------------------------ *)
Record gcfg : Type := {
  gc_oldest : bool;      (* offset: oldest *)
  gc_coop : bool;        (* balancer cooperative-sticky (or none given: kgo's default) *)
  gc_kip : bool;         (* the broker offers OffsetForLeaderEpoch *)
  gc_pipe : bool;        (* mode 1: the real pipeline with an output that acknowledges at once; mode 2: see gc_discard *)
  gc_discard : bool;     (* mode 2: the real pipeline with an action that DISCARDS the records of kind 4 and an output that
                            acknowledges late: a discarded record is dropped - never handed over, never acknowledged, and no
                            mark / committed offset may belong to it (its partition's offset moves only with the records the
                            output acknowledged) *)
  gc_maxsize : Z
}.
Definition gcfg_of_sx (s : sx) : option gcfg :=
  match s with
  | SL [SZ off; SZ bal; SZ meta; SZ buf; SZ conc; SZ kip; SZ mpf; SZ mode; SZ msz; SZ ferr; SZ spam] =>
      if (0 <=? off) && (off <=? 1) && (0 <=? bal) && (bal <=? 4) && (0 <=? meta) && (meta <=? 2)
         && (1 <=? buf) && (0 <=? conc) && (0 <=? kip) && (kip <=? 1) && (0 <=? mpf)
         && (0 <=? mode) && (mode <=? 2) && ((msz =? 0) || (32 <=? msz)) && ((ferr =? 0) || (2 <=? ferr)) && (0 <=? spam)
      then Some {| gc_oldest := off =? 1; gc_coop := 3 <=? bal; gc_kip := kip =? 1; gc_pipe := 1 <=? mode; gc_discard := mode =? 2; gc_maxsize := msz |}
      else None
  | _ => None
  end.

(* record kinds: 0 a JSON object, 1 empty value, 2 not JSON, 3 longer than settings.MaxEventSize.
   Pipeline.In drops kinds 1..3 (checkInputBytes / the decoder); a recording controller gets everything. *)
Definition grec := (krec * Z)%type.
Definition deliverable (c : gcfg) (kind : Z) : bool := negb (gc_pipe c) || (kind =? 0).
Definition gfetch := (key * list grec)%type.

Definition grec_of_sx (name : bytes) (p : Z) (s : sx) : option grec :=
  match s with
  | SL [SZ o; SZ e; SZ kind] => Some ({| k_topic := name; k_part := p; k_off := o; k_epoch := e |}, kind)
  | _ => None
  end.
Definition gfetch_of_sx (topics : list bytes) (s : sx) : option gfetch :=
  match s with
  | SL (SZ ti :: SZ p :: recs) =>
      match idx topics ti with
      | Ok name => match opt_map (grec_of_sx name p) recs with Some rs => Some ((name, p), rs) | None => None end
      | _ => None
      end
  | _ => None
  end.

Inductive gop : Type :=
| GProduce (fs : list gfetch)
| GCommit (ks : list Z)
| GTick
| GRebalance.
Definition gop_of_sx (topics : list bytes) (s : sx) : option gop :=
  match s with
  | SL [SZ 2] => Some GTick
  | SL [SZ 3] => Some GRebalance
  | SL (SZ 0 :: fs) => option_map GProduce (opt_map (gfetch_of_sx topics) fs)
  | SL (SZ 1 :: ks) => option_map GCommit (opt_map as_Z ks)
  | _ => None
  end.
Definition gphase := (list gop * Z)%type.
Definition gphase_of_sx (topics : list bytes) (s : sx) : option gphase :=
  match s with
  | SL [SL ops; SZ e] =>
      if (0 <=? e) && (e <=? 1) then option_map (fun o => (o, e)) (opt_map (gop_of_sx topics) ops) else None
  | _ => None
  end.

(* ---- validity of a case ------------------------------------------------------------------------ *)
Fixpoint np_of (topics : list bytes) (nps : list Z) (name : bytes) : Z :=
  match topics, nps with
  | t :: tr, n :: nr => let m := np_of tr nr name in if N_eqb_list t name then Z.max n m else m
  | _, _ => 0
  end.
Fixpoint last_off (log : list gfetch) (k : key) : Z :=   (* log: latest fetch first *)
  match log with
  | [] => -1
  | (k', rs) :: r =>
      if key_eqb k' k then match rev_append (map (fun x : grec => k_off (fst x)) rs) [] with o :: _ => o | [] => last_off r k end
      else last_off r k
  end.
Fixpoint ascending_from (o : Z) (rs : list grec) : bool :=
  match rs with
  | [] => true
  | x :: r => (o <? k_off (fst x)) && ascending_from (k_off (fst x)) r
  end.
Fixpoint epochs_ascend (e : Z) (rs : list grec) : bool :=
  match rs with
  | [] => true
  | x :: r => (e <=? k_epoch (fst x)) && epochs_ascend (k_epoch (fst x)) r
  end.
Fixpoint last_epoch (log : list gfetch) (k : key) : Z :=
  match log with
  | [] => 0
  | (k', rs) :: r =>
      if key_eqb k' k then match rev_append (map (fun x : grec => k_epoch (fst x)) rs) [] with e :: _ => e | [] => last_epoch r k end
      else last_epoch r k
  end.
Definition gfetch_ok (topics : list bytes) (nps : list Z) (c : gcfg) (log : list gfetch) (f : gfetch) : bool :=
  let k := fst f in
  (0 <=? snd k) && (snd k <? np_of topics nps (fst k))
  && ascending_from (last_off log k) (snd f) && epochs_ascend (last_epoch log k) (snd f)
  && forallb (fun x : grec => rec_in_range_b topics (fst x) && (0 <=? snd x) && (snd x <=? 4)
                              && (if snd x =? 3 then 32 <=? gc_maxsize c else true)
                              && (if snd x =? 4 then gc_discard c else true)) (snd f).

(* ---- the state ------------------------------------------------------------------------------- *)
Record gst : Type := {
  g_log : list gfetch;                    (* everything produced so far, latest fetch first *)
  g_B : marks; g_M : marks; g_C : marks;
  g_del : list (key * list krec);         (* delivered in this plugin lifetime, per partition, latest first *)
  g_steps : list sx;                      (* observations of this lifetime, latest first *)
  g_ack : list krec;                      (* the records Commit was called for so far, over ALL lifetimes, latest first *)
  g_snaps : list (list krec);             (* per step of g_steps the records acknowledged by then, latest first *)
  g_status : Z;
  g_bad : bool
}.

Fixpoint mark_set (m : marks) (k : key) (h : eo) : marks :=
  match m with
  | [] => [(k, h)]
  | (k', c) :: r => if key_eqb k' k then (k', h) :: r else (k', c) :: mark_set r k h
  end.
Definition eo_eqb (a b : eo) : bool := (fst a =? fst b) && (snd a =? snd b).
(* a head that MarkedOffsets shows and CommitMarkedOffsets sends *)
Definition live (c : marks) (x : key * eo) : bool :=
  match lookup c (fst x) with Some h => negb (eo_eqb h (snd x)) | None => true end.
Definition sx_of_all (m : marks) : sx :=
  SL (map (fun x : key * eo => SL [SB (fst (fst x)); SZ (snd (fst x)); SZ (fst (snd x)); SZ (snd (snd x))]) (sort_marks m)).
Definition sx_of_live (c m : marks) : sx := sx_of_all (filter (live c) m).

(* CommitMarkedOffsets: the live heads go to the broker and become the member's committed *)
Definition tick_marks (m : marks) (bc : marks * marks) : marks * marks :=
  fold_left (fun (acc : marks * marks) (x : key * eo) =>
               if live (snd acc) x then (mark_set (fst acc) (fst x) (snd x), mark_set (snd acc) (fst x) (snd x)) else acc)
            m bc.

Fixpoint last_or {A} (d : A) (l : list A) : A := match l with [] => d | [x] => x | _ :: r => last_or d r end.

(* records handed to In; in mode 1 every one of them is committed at once *)
Definition deliver (topics : list bytes) (c : gcfg) (st : gst) (k : key) (rs : list grec) : gst :=
  let ds := map fst (filter (fun x : grec => deliverable c (snd x)) rs) in
  let d := match ds with [] => g_del st | _ => deliv_add (g_del st) k ds end in
  if gc_pipe c then
    let '(tr, s) := commit_trace topics (g_M st) (map (event_of topics) ds) in
    {| g_log := g_log st; g_B := g_B st; g_M := last_or (g_M st) tr; g_C := g_C st; g_del := d; g_steps := g_steps st;
       g_ack := rev_append ds (g_ack st); g_snaps := g_snaps st;
       g_status := if s =? 0 then g_status st else s; g_bad := g_bad st |}
  else
    {| g_log := g_log st; g_B := g_B st; g_M := g_M st; g_C := g_C st; g_del := d; g_steps := g_steps st;
       g_ack := g_ack st; g_snaps := g_snaps st;
       g_status := g_status st; g_bad := g_bad st |}.

Definition fetched_head (c : gcfg) (x : key * eo) : key * eo :=
  (fst x, (fst (snd x), if gc_kip c then snd (snd x) else -1)).

(* the member (re)joins: offsets fetched, every partition read from its committed offset *)
Definition g_begin (topics : list bytes) (c : gcfg) (st : gst) : gst :=
  let m0 := map (fetched_head c) (g_B st) in
  let st0 := {| g_log := g_log st; g_B := g_B st; g_M := m0; g_C := m0; g_del := g_del st; g_steps := g_steps st;
                g_ack := g_ack st; g_snaps := g_snaps st;
                g_status := g_status st; g_bad := g_bad st |} in
  fold_left (fun s (f : gfetch) =>
               deliver topics c s (fst f) (filter (fun x : grec => from_commit (g_B st) (gc_oldest c) (fst x)) (snd f)))
            (rev_append (g_log st) []) st0.

Fixpoint insert_z (x : Z) (l : list Z) : list Z :=
  match l with [] => [x] | y :: r => if x <? y then x :: l else y :: insert_z x r end.
Definition sort_z (l : list Z) : list Z := fold_right insert_z [] l.

Definition g_groups (topics : list bytes) (c : gcfg) (st : gst) : list (Z * list Z) :=
  map (fun g : sgroup =>
         let offs := map (fun r => snd (event_of topics r)) (snd g) in
         (fst g, if gc_pipe c then sort_z offs else offs))
      (groups_of topics (g_del st)).

Definition g_step (topics : list bytes) (nps : list Z) (c : gcfg) (st : gst) (o : gop) : gst :=
  match o with
  | GProduce fs =>
      fold_left (fun s (f : gfetch) =>
                   let ok := gfetch_ok topics nps c (g_log s) f in
                   let s1 := {| g_log := f :: g_log s; g_B := g_B s; g_M := g_M s; g_C := g_C s; g_del := g_del s;
                                g_steps := g_steps s; g_ack := g_ack s; g_snaps := g_snaps s;
                                g_status := g_status s; g_bad := g_bad s || negb ok |} in
                   deliver topics c s1 (fst f) (snd f)) fs st
  | GCommit ks =>
      if gc_pipe c then st else
      let groups := g_groups topics c st in
      let evs := concat (map (fun g : Z * list Z => map (fun o => (fst g, o)) (snd g)) groups) in
      let n := Z.of_nat (length evs) in
      if n =? 0 then st else
      (* the records behind the events, in the same (group) order: the ones Commit is called for are acknowledged *)
      let recs := concat (map snd (groups_of topics (g_del st))) in
      match pick evs (map (fun k => k mod n) ks), pick recs (map (fun k => k mod n) ks) with
      | Some calls, Some crecs =>
          let '(tr, s) := commit_trace topics (g_M st) calls in
          let acked := firstn (length tr) crecs in
          {| g_log := g_log st; g_B := g_B st; g_M := last_or (g_M st) tr; g_C := g_C st; g_del := g_del st;
             g_steps := rev_append (map (sx_of_live (g_C st)) tr) (g_steps st);
             g_ack := rev_append acked (g_ack st); g_snaps := rev_append (snaps_of (g_ack st) acked) (g_snaps st);
             g_status := if s =? 0 then g_status st else s; g_bad := g_bad st |}
      | _, _ => {| g_log := g_log st; g_B := g_B st; g_M := g_M st; g_C := g_C st; g_del := g_del st; g_steps := g_steps st;
                   g_ack := g_ack st; g_snaps := g_snaps st;
                   g_status := g_status st; g_bad := true |}
      end
  | GTick =>
      let '(b, cm) := tick_marks (g_M st) (g_B st, g_C st) in
      {| g_log := g_log st; g_B := b; g_M := g_M st; g_C := cm; g_del := g_del st; g_steps := sx_of_all b :: g_steps st;
         g_ack := g_ack st; g_snaps := g_ack st :: g_snaps st;
         g_status := g_status st; g_bad := g_bad st |}
  | GRebalance => if gc_coop c then st else g_begin topics c st
  end.

(* ---- observation and the property's predicate on it ------------------------------------------ *)
Definition ggroup_of_sx (s : sx) : option (Z * list Z) :=
  match s with
  | SL [SZ sid; SL offs] => option_map (fun l => (sid, l)) (opt_map as_Z offs)
  | _ => None
  end.
Definition gobs_phase := (list marks * list (Z * list Z) * marks)%type.     (* steps, groups, committed after Stop *)
Definition gobs_phase_of_sx (s : sx) : option gobs_phase :=
  match s with
  | SL [SL steps; SL gs; cm] =>
      match opt_map (as_list mark_of_sx) steps, opt_map ggroup_of_sx gs, as_list mark_of_sx cm with
      | Some st, Some g, Some m => Some (st, g, m)
      | _, _, _ => None
      end
  | _ => None
  end.
Definition group_has (gs : list (Z * list Z)) (ev : Z * Z) : bool :=
  existsb (fun g : Z * list Z => (fst g =? fst ev) && existsb (Z.eqb (snd ev)) (snd g)) gs.
(* the restart clause on what was observed: every record of the log that a pipeline would let through and that the
   offsets committed BEFORE this lifetime do not cover was handed over again *)
Definition redelivery_pred (topics : list bytes) (c : gcfg) (prev : marks) (log : list gfetch) (gs : list (Z * list Z)) : bool :=
  forallb (fun f : gfetch =>
             forallb (fun x : grec =>
                        if deliverable c (snd x) && from_commit prev (gc_oldest c) (fst x)
                        then group_has gs (event_of topics (fst x)) else true) (snd f)) log.

Record grun : Type := {
  r_st : gst;
  r_out : list sx;                 (* model's phase observations, latest first *)
  r_obs : list gobs_phase;         (* observed phases not yet used *)
  r_prev : marks;                  (* committed offsets observed after the previous lifetime *)
  r_pred : bool
}.

Definition g_phase (topics : list bytes) (nps : list Z) (c : gcfg) (r : grun) (ph : gphase) : grun :=
  let st := r_st r in
  let '(pred1, obs_rest, prev1, osteps) :=
    match r_obs r with
    | (steps, gs, cm) :: rest => (redelivery_pred topics c (r_prev r) (g_log st) gs, rest, cm, steps)
    | [] => (false, [], r_prev r, [])
    end in
  let st1 := g_begin topics c st in
  let st2 := fold_left (g_step topics nps c) (fst ph) st1 in
  let '(b, cm) := if snd ph =? 0 then tick_marks (g_M st2) (g_B st2, g_C st2) else (g_B st2, g_C st2) in
  let out := SL [SL (rev_append (g_steps st2) []);
                 SL (map (fun g : Z * list Z => SL [SZ (fst g); SL (map SZ (snd g))]) (g_groups topics c st2));
                 sx_of_all b] in
  (* what was marked (after every Commit) and committed (at every tick, after Stop) in this lifetime belongs to a
     record acknowledged by then, under that record's own topic and partition *)
  let pred2 := acks_pred (rev_append (g_snaps st2) []) osteps
               && (match r_obs r with [] => true | _ => forallb (head_of_some_record (g_ack st2)) prev1 end) in
  {| r_st := {| g_log := g_log st2; g_B := b; g_M := []; g_C := []; g_del := []; g_steps := [];
                g_ack := g_ack st2; g_snaps := []; g_status := g_status st2; g_bad := g_bad st2 |};
     r_out := out :: r_out r; r_obs := obs_rest; r_prev := prev1; r_pred := r_pred r && pred1 && pred2 |}.

Definition all_recs (log : list gfetch) : list krec := concat (map (fun f : gfetch => map fst (snd f)) log).

Definition c10_group_run (case obs : sx) : verdict :=
  match case with
  | SL [SL ts; SL npsx; cf; SL init; SL phs] =>
      match opt_map as_B ts, opt_map as_Z npsx, gcfg_of_sx cf with
      | Some topics, Some nps, Some c =>
          match opt_map (gfetch_of_sx topics) init, opt_map (gphase_of_sx topics) phs with
          | Some fs, Some phases =>
              if negb (Z.of_nat (length nps) =? Z.of_nat (length topics)) then BadCase else
              let st0 := {| g_log := []; g_B := []; g_M := []; g_C := []; g_del := []; g_steps := []; g_ack := []; g_snaps := [];
                            g_status := 0; g_bad := false |} in
              (* the log before the first Start: nobody is listening *)
              let st1 := fold_left (fun s (f : gfetch) =>
                                      {| g_log := f :: g_log s; g_B := []; g_M := []; g_C := []; g_del := []; g_steps := [];
                                         g_ack := []; g_snaps := [];
                                         g_status := 0; g_bad := g_bad s || negb (gfetch_ok topics nps c (g_log s) f) |}) fs st0 in
              let ophases := match obs with
                             | SL [SZ _; SL ps] => match opt_map gobs_phase_of_sx ps with Some l => l | None => [] end
                             | _ => []
                             end in
              let r := fold_left (g_phase topics nps c) phases
                                 {| r_st := st1; r_out := []; r_obs := ophases; r_prev := []; r_pred := true |} in
              if g_bad (r_st r) then BadCase else
              let model := SL [SZ (g_status (r_st r)); SL (rev_append (r_out r) [])] in
              let recs := all_recs (g_log (r_st r)) in
              let commits := map (fun x : gobs_phase => snd x) ophases in
              let pred :=
                r_pred r
                && (match r_obs r with [] => true | _ => false end)
                && (match obs with SL [SZ 0; SL _] => true | _ => false end)
                && forallb (forallb (head_of_some_record recs)) commits
                && steps_monotone [] commits in
              verdict_of model obs pred
          | _, _ => BadCase
          end
      | _, _, _ => BadCase
      end
  | _ => BadCase
  end.
