(* Pipe.v — the COMPOSITION as one transition system: one batching output (Model/Batcher.v) and the
   end-to-end flows of all streams (Model/StreamFlow.v, each containing the logical processor of its
   stream, Model/Proc.v), synchronised on the two labels they share:
     Batcher.Add(e)            = the flow of e's stream moves e from "handed to the output" to "added"
     Controller.Commit(e)      = the flow of e's stream commits e.
   A product label is a batcher label or a processor label of some stream; the product steps iff
   every component that knows the label steps.  Proofs/Pipe.v shows that guard F2 of StreamFlow.v
   (commit in add order), which is a per-trace check in the component view, is REDUNDANT here: it
   follows from the batcher's theorem committed = prefix of added.  Guard F1 (add in hand-over order:
   the processor calls the output synchronously) stays a guard and is checked on every real trace.
   Only for outputs without a dead queue (with one, F2 is false: the recorded finding).  No proofs here. *)
From Verif Require Import Base.Sx Model.Batcher Model.Proc Model.StreamFlow.

Definition pev_of (e : ev) : pev := {| pseq := eid e; pkind := ekind e |}.

Fixpoint gget (l : list (Z * fst_)) (i : Z) : option fst_ :=
  match l with [] => None | (k, v) :: r => if k =? i then Some v else gget r i end.
Fixpoint gset (l : list (Z * fst_)) (i : Z) (v : fst_) : list (Z * fst_) :=
  match l with [] => [(i, v)] | (k, w) :: r => if k =? i then (k, v) :: r else (k, w) :: gset r i v end.

Record gst := {
  gb : st;                     (* the batcher *)
  gf : list (Z * fst_)         (* stream id -> flow of that stream (absent = initial) *)
}.
Definition ginit (c : cfg) : gst := {| gb := init c; gf := [] |}.

(* n = number of actions of the pipeline *)
Definition gflow (n : Z) (g : gst) (s : Z) : fst_ :=
  match gget (gf g) s with Some f => f | None => finit n false end.

Inductive glabel :=
| GB (l : label)               (* a label of the batcher *)
| GP (strm : Z) (pl : plabel). (* a processor label about an event of stream strm *)

Definition gstep (c : cfg) (n : Z) (g : gst) (l : glabel) : option gst :=
  match l with
  | GP s pl =>
      match fstep (gflow n g s) (FProc pl) with
      | Some f' => Some {| gb := gb g; gf := gset (gf g) s f' |}
      | None => None
      end
  | GB bl =>
      match step c (gb g) bl with
      | None => None
      | Some b' =>
          match bl with
          | LAdd e =>
              match fstep (gflow n g (esrc e)) (FAdd (pev_of e)) with
              | Some f' => Some {| gb := b'; gf := gset (gf g) (esrc e) f' |}
              | None => None
              end
          | LCommitEv e =>
              if ordered (pev_of e) then
                match fstep (gflow n g (esrc e)) (FCommit (pev_of e)) with
                | Some f' => Some {| gb := b'; gf := gset (gf g) (esrc e) f' |}
                | None => None
                end
              else Some {| gb := b'; gf := gf g |}
          | _ => Some {| gb := b'; gf := gf g |}
          end
      end
  end.

Fixpoint grun (c : cfg) (n : Z) (g : gst) (ls : list glabel) : option gst :=
  match ls with
  | [] => Some g
  | l :: r => match gstep c n g l with Some g' => grun c n g' r | None => None end
  end.
