(* Model of plugin/input/k8s/multiline_action.go (MultilineAction.Do, resetLogBuf, isLineEnd,
   escapedCutKeep), byte level on the ESCAPED log fragment (what insane-json's AppendEscapedString
   yields for the `log` node: a quoted JSON string).  The model follows the REPAIRED code
   (fixes/C15-k8s-*.patch, fixes/C13-k8s-cut-inside-escape.patch; /repo 2e55483: the time-out branch also
   clears skipNextEvent, the action is completely fresh afterwards): the line-end test is the function
   isLineEnd (length guard + backslash parity); the cut at max_event_size (cut_off_event_by_limit)
   keeps  fragment[:escapedCutKeep(fragment, len(fragment)-offset)]  of the fragment body, i.e. it
   never cuts inside an escape sequence (\x, \uXXXX) and never keeps more than the byte limit.
   Meta data lookup and label fields are not modelled; the Fatalf checks on the k8s_* fields are the
   same exit as the one for a missing log field (see kin_of_sx).  Index / slice expressions are in GoSem.res.  No proofs here.   *)
From Verif Require Import Base.Sx Base.GoSem Model.Join.

Definition QUOTE : byte := 34%N.
Definition BSLASH : byte := 92%N.
Definition CH_n : byte := 110%N.
Definition CH_u : byte := 117%N.
Definition NLESC : bytes := [BSLASH; CH_n].            (* const newLine = `\n` *)
Definition lookahead : Z := 131072.                   (* predictionLookahead = 128 * 1024 *)

Record kcfg := { kmax : Z; ksplit : Z; kcut : bool; kfield : bool; konly : bool }.
(* MaxEventSize, SplitEventSize, CutOffEventByLimit, CutOffEventByLimitField != "", OnlyNode *)

Record kstate := { ebuf : bytes; esize : Z; skipNext : bool; cutOff : bool }.
Definition kstate0 : kstate := {| ebuf := [QUOTE]; esize := 0; skipNext := false; cutOff := false |}.

Inductive kin :=
| KTimeout
| KChunk (frag : bytes) (size : Z).      (* AppendEscapedString(log), event.Size *)

(* one Do call: ActionResult, IncMaxEventSizeExceeded calls, the log field (escaped) of a passed
   event, whether the cut-off marker field was added *)
Definition kstep : Type := Z * Z * option bytes * bool.

(* resetLogBuf: eventBuf = eventBuf[:1]; eventSize = 0; cutOffEvent = false (skipNextEvent stays) *)
Definition k_reset (st : kstate) : res kstate :=
  b <- slice_to (ebuf st) 1 ;;
  Ok {| ebuf := b; esize := 0; skipNext := skipNext st; cutOff := false |}.

(* for i := last - 1; i > 0 && fragment[i] == '\\'; i-- { slashes++ } *)
Fixpoint count_slashes (fuel : nat) (frag : bytes) (i acc : Z) : res Z :=
  match fuel with
  | O => Ok acc
  | S f =>
      if i >? 0 then
        c <- idx frag i ;;
        if N.eqb c BSLASH then count_slashes f frag (i - 1) (acc + 1) else Ok acc
      else Ok acc
  end.

(* isLineEnd: last := len(fragment) - 2; if last < 2 || fragment[last] != 'n' { return false };
   count the backslashes before it; return slashes%2 == 1 *)
Definition is_line_end (frag : bytes) : res bool :=
  let last := len frag - 2 in
  if last <? 2 then Ok false
  else
    c <- idx frag last ;;
    if negb (N.eqb c CH_n) then Ok false
    else s <- count_slashes (Z.to_nat last) frag (last - 1) 0 ;; Ok (Z.odd s).

(* escapedCutKeep(s, limit), the loop.  [rest] is the view s[i:] of the string, so s[i] is its head
   and the guard  i+1 < len(s)  is "the tail is not empty";  i += n  drops n bytes of the view.
       for i < limit { if s[i] != '\\' { i++; continue }
                       n := 2; if i+1 < len(s) && s[i+1] == 'u' { n = 6 }
                       if i+n > limit { return i }; i += n }
       return limit
   Out of fuel = Err 1 (excluded: Proofs.K8sMultiline.cut_loop_ok, fuel limit+1 always suffices). *)
Fixpoint cut_loop (fuel : nat) (rest : bytes) (i limit : Z) : res Z :=
  match fuel with
  | O => Err 1
  | S f =>
      if i <? limit then
        match rest with
        | [] => Panic 2                                            (* s[i], index out of range *)
        | ch :: r =>
            if negb (N.eqb ch BSLASH) then cut_loop f r (i + 1) limit
            else
              let n := match r with e :: _ => if N.eqb e CH_u then 6 else 2 | [] => 2 end in
              if i + n >? limit then Ok i
              else cut_loop f (skipn (Z.to_nat n) rest) (i + n) limit
        end
      else Ok limit
  end.

(* if limit >= len(s) { return len(s) }; if limit < 0 { return 0 }; the loop from i = 0 *)
Definition escaped_cut_keep (s : bytes) (limit : Z) : res Z :=
  if limit >=? len s then Ok (len s)
  else if limit <? 0 then Ok 0
  else cut_loop (S (Z.to_nat limit)) s 0 limit.

Definition k_do (c : kcfg) (st : kstate) (x : kin) : res (kstate * kstep) :=
  match x with
  | KTimeout =>
      (* p.resetLogBuf(); p.skipNextEvent = false; return ActionDiscard *)
      st' <- k_reset st ;;
      Ok ({| ebuf := ebuf st'; esize := esize st'; skipNext := false; cutOff := cutOff st' |}, (ADiscard, 0, None, false))
  | KChunk frag size =>
      if konly c then Ok (st, (APass, 0, Some frag, false))
      else if Nat.eqb (length frag) 0 then Panic 3          (* Fatalf "wrong event format" *)
      else
        let esize' := esize st + size in
        let should_split := esize' + lookahead >? ksplit c in
        let L := len frag in
        is_end <- is_line_end frag ;;
        if negb is_end && negb should_split then
          let after := len (ebuf st) + L in
          (* once a chunk did not fit, the rest of the line is skipped even if a later chunk would fit *)
          if (kmax c =? 0) || (negb (skipNext st) && (after <? kmax c)) then
            b <- slice frag 1 (L - 1) ;;
            Ok ({| ebuf := ebuf st ++ b; esize := esize'; skipNext := skipNext st; cutOff := cutOff st |},
                (ACollapse, 0, None, false))
          else if negb (skipNext st) then
            if kcut c then
              let offset := after - kmax c in
              fragment <- slice frag 1 (L - 1) ;;
              keep <- escaped_cut_keep fragment (len fragment - offset) ;;
              b <- slice_to fragment keep ;;
              Ok ({| ebuf := ebuf st ++ b; esize := esize'; skipNext := true; cutOff := true |},
                  (ACollapse, 1, None, false))
            else
              Ok ({| ebuf := ebuf st; esize := esize'; skipNext := true; cutOff := cutOff st |},
                  (ACollapse, 1, None, false))
          else
            Ok ({| ebuf := ebuf st; esize := esize'; skipNext := skipNext st; cutOff := cutOff st |},
                (ACollapse, 0, None, false))
        else if skipNext st && negb is_end then
          Ok ({| ebuf := ebuf st; esize := esize'; skipNext := true; cutOff := cutOff st |},
              (ACollapse, 0, None, false))
        else
          let st1 := {| ebuf := ebuf st; esize := esize'; skipNext := false; cutOff := cutOff st |} in
          if skipNext st && negb (cutOff st) then
            st' <- k_reset st1 ;; Ok (st', (ADiscard, 0, None, false))
          else if (len (ebuf st) >? 1) || cutOff st then
            if negb (cutOff st) then
              b <- slice frag 1 (L - 1) ;;
              st' <- k_reset st1 ;;
              Ok (st', (APass, 0, Some (ebuf st ++ b ++ [QUOTE]), false))
            else
              st' <- k_reset st1 ;;
              Ok (st', (APass, 0, Some (ebuf st ++ (if is_end then NLESC else []) ++ [QUOTE]), kfield c))
          else
            st' <- k_reset st1 ;; Ok (st', (APass, 0, Some frag, false))
  end.

Fixpoint k_run (c : kcfg) (st : kstate) (xs : list kin) : list kstep * res kstate :=
  match xs with
  | [] => ([], Ok st)
  | x :: r =>
      match k_do c st x with
      | Ok (st', o) => let '(os, f) := k_run c st' r in (o :: os, f)
      | Err e => ([], Err e)
      | Panic p => ([], Panic p)
      end
  end.

(* ---- specification ---------------------------------------------------------------------------
   a fragment is a quoted string; its body is what lies between the quotes *)
Definition body (frag : bytes) : bytes := removelast (tl frag).

(* JSON string tokens, left to right: a backslash takes the next byte with it.  Returns whether a
   backslash is left dangling and whether the LAST token is the escape pair backslash-n. *)
Fixpoint esc_scan (b : bytes) (esc lastnl : bool) : bool * bool :=
  match b with
  | [] => (esc, lastnl)
  | c :: r =>
      if esc then esc_scan r false (N.eqb c CH_n)
      else if N.eqb c BSLASH then esc_scan r true false
      else esc_scan r false false
  end.
Definition ends_nl (frag : bytes) : bool := snd (esc_scan (body frag) false false).

(* the chunks of the current line seen so far (fragment, event size), oldest first.
   first_unfit: walk them with the buffer length [pre] (1 = the opening quote); a chunk FITS iff
   max_event_size is 0 or  len(buffer) + len(fragment) < max_event_size  (fragment with its quotes);
   result: the fitting prefix and the first chunk that does not fit *)
Fixpoint first_unfit (max pre : Z) (fs : list bytes) : option (list bytes * bytes) :=
  match fs with
  | [] => None
  | f :: r =>
      if (max =? 0) || (pre + len f <? max) then
        match first_unfit max (pre + len f - 2) r with
        | None => None
        | Some (p, u) => Some (f :: p, u)
        end
      else Some ([], f)
  end.

Definition bodies (fs : list bytes) : bytes := concat (map body fs).

(* the body of a VALID JSON string literal: a sequence of tokens, each an ordinary byte (not a
   backslash, not a quote, not a control character), a two-byte escape backslash + one of quote, backslash, slash, b f n r t,
   or backslash u + four hexadecimal digits; nothing left dangling *)
Definition is_hex (h : byte) : bool :=
  ((48 <=? h) && (h <=? 57) || (65 <=? h) && (h <=? 70) || (97 <=? h) && (h <=? 102))%N.
Definition is_simple_esc (e : byte) : bool :=
  existsb (N.eqb e) [34; 92; 47; 98; 102; 110; 114; 116]%N.
Definition plain_ok (ch : byte) : bool := negb (N.eqb ch QUOTE) && (32 <=? ch)%N.
Fixpoint esc_wf (s : bytes) : bool :=
  match s with
  | [] => true
  | ch :: r =>
      if N.eqb ch BSLASH then
        match r with
        | [] => false
        | e :: r1 =>
            if N.eqb e CH_u then
              match r1 with
              | h1 :: h2 :: h3 :: h4 :: r2 => is_hex h1 && is_hex h2 && is_hex h3 && is_hex h4 && esc_wf r2
              | _ => false
              end
            else is_simple_esc e && esc_wf r1
        end
      else plain_ok ch && esc_wf r
  end.

(* how many bytes of the body [s] the cut keeps for the byte limit [limit] (escaped_cut_keep is
   total: Proofs.K8sMultiline.k8s_cut_keep_ok) *)
Definition cut_keep (s : bytes) (limit : Z) : nat :=
  match escaped_cut_keep s limit with Ok k => Z.to_nat k | _ => O end.

(* what a cut event carries for the fitting chunks p and the first chunk u that does not fit: the
   bodies of p and the prefix of u's body chosen by the cut for the limit
   max_event_size - len(buffer) - 2  =  max_event_size - 3 - len(bodies p) *)
Definition cut_body (max : Z) (p : list bytes) (u : bytes) : bytes :=
  bodies p ++ firstn (cut_keep (body u) (max - 3 - len (bodies p))) (body u).

(* the result for the terminating chunk g of a line whose earlier chunks are fs *)
Definition final_step (c : kcfg) (fs : list bytes) (g : bytes) : kstep :=
  match first_unfit (kmax c) 1 fs with
  | None =>
      match bodies fs with
      | [] => (APass, 0, Some g, false)                          (* nothing buffered: event untouched *)
      | _ :: _ => (APass, 0, Some (QUOTE :: bodies fs ++ body g ++ [QUOTE]), false)
      end
  | Some (p, u) =>
      if kcut c then
        (APass, 0,
         Some (QUOTE :: cut_body (kmax c) p u ++ (if ends_nl g then NLESC else []) ++ [QUOTE]),
         kfield c)
      else (ADiscard, 0, None, false)
  end.

Definition sum_sizes (h : list (bytes * Z)) : Z := fold_right (fun p a => snd p + a) 0 h.

(* time-out free sequences: every output is a function of the chunks of the current line so far *)
Fixpoint k_spec (c : kcfg) (hist : list (bytes * Z)) (xs : list kin) : list kstep :=
  match xs with
  | [] => []
  | KTimeout :: _ => []                                           (* outside this specification *)
  | KChunk f sz :: r =>
      let fs := map fst hist in
      let unfit := first_unfit (kmax c) 1 fs in
      let term := ends_nl f || (opt_is_none unfit && (sum_sizes hist + sz + lookahead >? ksplit c)) in
      if term then final_step c fs f :: k_spec c [] r
      else
        let inc := if opt_is_none unfit && negb (opt_is_none (first_unfit (kmax c) 1 (fs ++ [f])))
                   then 1 else 0 in
        (ACollapse, inc, None, false) :: k_spec c (hist ++ [(f, sz)]) r
  end.

(* ... and with time-outs: the time-out drops what is buffered (the flush clause is refuted, see k8s_timeout_flush_refuted)
   and the action is as good as new - it is no longer busy, the processor may hand it any other stream next, so NOTHING
   of the line that timed out may survive.  (Proofs k8s_timeout_fresh: holds for every configuration since /repo 2e55483;
   the code before it kept skipNextEvent, k8s_timeout_old_keeps_skip_excluded) *)
Fixpoint k_spec_t (c : kcfg) (hist : list (bytes * Z)) (xs : list kin) : list kstep :=
  match xs with
  | [] => []
  | KTimeout :: r => (ADiscard, 0, None, false) :: k_spec_t c [] r
  | KChunk f sz :: r =>
      let fs := map fst hist in
      let unfit := first_unfit (kmax c) 1 fs in
      let term := ends_nl f || (opt_is_none unfit && (sum_sizes hist + sz + lookahead >? ksplit c)) in
      if term then final_step c fs f :: k_spec_t c [] r
      else
        let inc := if opt_is_none unfit && negb (opt_is_none (first_unfit (kmax c) 1 (fs ++ [f])))
                   then 1 else 0 in
        (ACollapse, inc, None, false) :: k_spec_t c (hist ++ [(f, sz)]) r
  end.

Definition no_timeout (xs : list kin) : bool :=
  forallb (fun x => match x with KTimeout => false | _ => true end) xs.
Definition frag_ok (x : kin) : bool :=
  match x with KChunk f _ => 2 <=? len f | KTimeout => true end.
(* every fragment body is a valid escaped JSON string; the log field of a step is one *)
Definition frag_wf (x : kin) : bool :=
  match x with KChunk f _ => esc_wf (body f) | KTimeout => true end.
Definition step_wf (o : kstep) : bool :=
  match snd (fst o) with Some l => esc_wf (body l) | None => true end.

(* bytes in / bytes out (conservation, for max_event_size = 0) *)
Definition k_in_bytes (xs : list kin) : bytes :=
  concat (map (fun x => match x with KChunk f _ => body f | KTimeout => [] end) xs).
Definition k_out_bytes (os : list kstep) : bytes :=
  concat (map (fun o : kstep => match snd (fst o) with Some l => body l | None => [] end) os).

(* ---- exchange glue ---------------------------------------------------------------------------
   case = ((max split cut field only) (chunk ...)), chunk = 0 | (style #raw size #escaped)
   obs  = ((step ...) (late ...) panic), step = (result incs #log cutflag)                       *)
(* style bits 4-6 (style / 16 mod 8) <> 0: the event lacks one of k8s_namespace / k8s_pod / k8s_container_id /
   k8s_container.  Do ends the process with Fatalf at the same place where it does for an event without a log field
   (after the only_node return, before anything is buffered): such a chunk is the chunk with no fragment; with
   only_node the fields are never looked at *)
Definition kin_of_sx (only : bool) (s : sx) : option kin :=
  match s with
  | SZ 0 => Some KTimeout
  | SL [SZ style; SB _; SZ size; SB esc] =>
      Some (KChunk (if negb only && negb ((style / 16) mod 8 =? 0) then [] else esc) size)
  | _ => None
  end.

Definition kcase_of_sx (s : sx) : option (kcfg * list kin) :=
  match s with
  | SL [SL [SZ max; SZ split; cut; field; only]; xs] =>
      match as_bool cut, as_bool field, as_bool only with
      | Some a, Some b, Some o =>
          match as_list (kin_of_sx o) xs with
          | Some l => Some ({| kmax := max; ksplit := split; kcut := a; kfield := b; konly := o |}, l)
          | None => None
          end
      | _, _, _ => None
      end
  | _ => None
  end.

Definition sx_of_kstep (o : kstep) : sx :=
  let '(r, inc, log, cut) := o in
  SL [SZ r; SZ inc; SB (match log with Some l => l | None => [] end); of_bool cut].

Definition k_late (os : list kstep) : list sx :=
  flat_map (fun o : kstep => match snd (fst o) with
                             | Some l => if fst (fst (fst o)) =? APass then [SB l] else []
                             | None => [] end) os.

Definition k_panic_code {A} (f : res A) : Z :=
  match f with Ok _ => 0 | Panic 1 => 1 | Panic 2 => 2 | _ => 3 end.

Definition c15_k8s_model (case : sx) : option sx :=
  match kcase_of_sx case with
  | Some (c, xs) =>
      let '(os, f) := k_run c kstate0 xs in
      Some (SL [SL (map sx_of_kstep os); SL (k_late os); SZ (k_panic_code f)])
  | None => None
  end.

Definition kstep_of_sx (s : sx) : option kstep :=
  match s with
  | SL [SZ r; SZ inc; SB l; cut] =>
      match as_bool cut with
      | Some b => Some (r, inc, (if r =? APass then Some l else None), b)
      | None => None
      end
  | _ => None
  end.

(* the property's predicate: admissible fragments => no panic; on time-out free sequences of a plugin
   that is not only_node, moreover every step is what k_spec says (in particular a cut event carries
   exactly  bodies p ++ the whole tokens of u that fit: a prefix of the line, Proofs k8s_cut_event) *)
Definition c15_k8s_pred (case obs : sx) : bool :=
  match kcase_of_sx case with
  | Some (c, xs) =>
      if forallb frag_ok xs then
        match obs with
        | SL [SL steps; SL late; SZ 0] =>
            Nat.eqb (length steps) (length xs) &&
            (if no_timeout xs && negb (konly c) then
               sx_eqb (SL steps) (SL (map sx_of_kstep (k_spec c [] xs))) &&
               sx_eqb (SL late) (SL (k_late (k_spec c [] xs)))
             else true)
        | _ => false
        end
      else true
  | None => false
  end.

(* ... and, time-outs or not, only_node or not: when every input fragment is a valid escaped JSON
   string, so is the log field of every passed event, at once and when re-read at the end
   (Proofs k8s_cut_event_wf: joined, cut and untouched events alike) *)
Definition c15_k8s_wf_pred (case obs : sx) : bool :=
  match kcase_of_sx case with
  | Some (c, xs) =>
      if forallb frag_ok xs && forallb frag_wf xs then
        match obs with
        | SL [SL steps; SL late; _] =>
            forallb (fun s => match kstep_of_sx s with Some o => step_wf o | None => false end) steps &&
            forallb (fun s => match s with SB l => esc_wf (body l) | _ => false end) late
        | _ => false
        end
      else true
  | None => false
  end.

Definition c15_k8s_run (case obs : sx) : verdict :=
  match c15_k8s_model case with
  | None => BadCase
  | Some m =>
      if c15_k8s_pred case obs && c15_k8s_wf_pred case obs
      then (if sx_eqb m obs then Agree else Differ m) else Violates m
  end.

(* which = 9: sequences WITH time-outs against k_spec_t (the action starts afresh after a time-out) *)
Definition c15_k8s_fresh_pred (case obs : sx) : bool :=
  match kcase_of_sx case with
  | Some (c, xs) =>
      if forallb frag_ok xs && negb (konly c) then
        match obs with
        | SL [SL steps; SL late; SZ 0] =>
            sx_eqb (SL steps) (SL (map sx_of_kstep (k_spec_t c [] xs))) &&
            sx_eqb (SL late) (SL (k_late (k_spec_t c [] xs)))
        | _ => false
        end
      else true
  | None => false
  end.

Definition c15_k8s_fresh_run (case obs : sx) : verdict :=
  match c15_k8s_model case with
  | None => BadCase
  | Some m =>
      if c15_k8s_fresh_pred case obs && c15_k8s_pred case obs && c15_k8s_wf_pred case obs
      then (if sx_eqb m obs then Agree else Differ m) else Violates m
  end.

(* the flush-on-time-out clause of the property, as byte conservation: with max_event_size = 0 and a
   sequence that ends with a complete line, every input byte must leave in some passed event *)
Definition c15_k8s_flush_pred (case obs : sx) : bool :=
  match kcase_of_sx case, obs with
  | Some (c, xs), SL [SL steps; SL _; SZ 0] =>
      match opt_map kstep_of_sx steps with
      | Some os => bytes_eqb (k_in_bytes xs) (k_out_bytes os)
      | None => false
      end
  | _, _ => false
  end.

Definition c15_k8s_flush_run (case obs : sx) : verdict :=
  match c15_k8s_model case with
  | None => BadCase
  | Some m =>
      if c15_k8s_flush_pred case obs && c15_k8s_pred case obs && c15_k8s_wf_pred case obs
      then (if sx_eqb m obs then Agree else Differ m) else Violates m
  end.
