(* Model of plugin/action/join/join.go (Do, flush, isNextOK) and of the way
   plugin/action/join_template/join_template.go drives the same core (firstCheck / nextCheck with
   curTemplateIdx).  No proofs here (Proofs/Join.v).

   One state machine serves both plugins: a configuration is a list of "templates"; the plain join
   plugin is the one-template instance (Start_ / Continue_ / negate), join_template has one entry
   per configured template (StartCheck / ContinueCheck / Negate).  What the regular expressions or
   the template checks answer on the field's value is NOT modelled: every input event carries the
   answers as oracle bits (one start bit and one continue bit per template, before negation).

   Events are identified by an integer id, so "unchanged, in order, none lost, none duplicated" can
   be stated.  The Panicf branches ("timeout without joining", "first event is nil") and the
   templates[curTemplateIdx] index expression are in GoSem.res, so "never panics" is a theorem.   *)
From Verif Require Import Base.Sx Base.GoSem.

(* pipeline.ActionResult (pipeline/processor.go) *)
Definition APass : Z := 0.
Definition ACollapse : Z := 1.
Definition ADiscard : Z := 2.
Definition AHold : Z := 3.

Inductive jin :=
| JTimeout                                   (* event.IsTimeoutKind() *)
| JNoField                                   (* event.Root.Dig(field) == nil *)
| JField (isStr : bool) (value : bytes)      (* node.IsString(), node.AsString() *)
         (starts conts : list bool).         (* oracle: StartCheck_i(value), ContinueCheck_i(value) *)

Definition jev : Type := Z * jin.            (* (id, input) *)

Record jcfg := { jmax : Z; jnegs : list bool }.      (* max_event_size; negate flag per template *)

Record jstate := { isJoining : bool; initial : option Z; buff : bytes; cur : Z }.
Definition jstate0 : jstate := {| isJoining := false; initial := None; buff := []; cur := -1 |}.

(* one Do call: the ActionResult and the Propagate calls (id of the propagated event, its field) *)
Definition jstep : Type := Z * list (Z * bytes).

(* flush(): event := p.initial; p.initial = nil; p.isJoining = false;
            if event == nil { Panicf }; field := string(p.buff); Propagate(event) *)
Definition flush (st : jstate) : res (jstate * list (Z * bytes)) :=
  match initial st with
  | None => Panic 4                                           (* "first event is nil, why?" *)
  | Some i => Ok ({| isJoining := false; initial := None; buff := buff st; cur := cur st |}, [(i, buff st)])
  end.

(* firstCheck: the first template whose StartCheck answers true (plain join: Start_.MatchString) *)
Fixpoint find_true (l : list bool) (i : Z) : option Z :=
  match l with
  | [] => None
  | b :: r => if b then Some i else find_true r (i + 1)
  end.

(* nextCheck: templates[curTemplateIdx].ContinueCheck(value) xor .Negate   (plain join: isNextOK) *)
Definition next_ok (c : jcfg) (st : jstate) (conts : list bool) : res bool :=
  b <- idx conts (cur st) ;;
  n <- idx (jnegs c) (cur st) ;;
  Ok (xorb b n).

Definition append_limited (max : Z) (buf v : bytes) : bytes :=
  if (max =? 0) || (len buf <? max) then buf ++ v else buf.

Definition join_do (c : jcfg) (st : jstate) (e : jev) : res (jstate * jstep) :=
  let '(id, x) := e in
  match x with
  | JTimeout =>
      if isJoining st then '(st', em) <- flush st ;; Ok (st', (ADiscard, em))
      else Panic 3                                          (* "timeout without joining, why?" *)
  | JNoField =>
      if isJoining st then '(st', em) <- flush st ;; Ok (st', (APass, em))
      else Ok (st, (APass, []))
  | JField isStr v starts conts =>
      match (if isStr then find_true starts 0 else None) with
      | Some t =>
          '(st1, em) <- (if isJoining st then flush st else Ok (st, [])) ;;
          Ok ({| isJoining := true; initial := Some id; buff := v; cur := t |}, (AHold, em))
      | None =>
          if isJoining st then
            ok <- next_ok c st conts ;;
            if ok then
              Ok ({| isJoining := true; initial := initial st;
                     buff := append_limited (jmax c) (buff st) v; cur := cur st |}, (ACollapse, []))
            else '(st', em) <- flush st ;; Ok (st', (APass, em))
          else Ok (st, (APass, []))
      end
  end.

(* a sequence of Do calls; the steps made before a panic are kept *)
Fixpoint join_run (c : jcfg) (st : jstate) (evs : list jev) : list jstep * res jstate :=
  match evs with
  | [] => ([], Ok st)
  | e :: r =>
      match join_do c st e with
      | Ok (st', o) => let '(os, f) := join_run c st' r in (o :: os, f)
      | Err x => ([], Err x)
      | Panic p => ([], Panic p)
      end
  end.

(* ---- what leaves the action, in order: propagated (joined) events and passed events ---------- *)
Inductive jout :=
| OJoined (id : Z) (content : bytes)      (* Propagate(initial) with its field set to the buffer *)
| OPassed (id : Z).                       (* ActionPass: the event itself, untouched *)

Definition step_down (o : jstep) (e : jev) : list jout :=
  map (fun p => OJoined (fst p) (snd p)) (snd o) ++ (if fst o =? APass then [OPassed (fst e)] else []).

Fixpoint downstream (os : list jstep) (evs : list jev) : list jout :=
  match os, evs with
  | o :: os', e :: evs' => step_down o e ++ downstream os' evs'
  | _, _ => []
  end.

(* ---- the delivery guarantee of the processor, stated on the action's own results: a time-out
   event is handed to the action only while it is busy, i.e. its previous Do returned Hold or
   Collapse.  (If a step panics the remainder is unconstrained: the theorems then have to show
   that this never happens.) *)
Definition is_busy (r : Z) : bool := (r =? AHold) || (r =? ACollapse).

Fixpoint busy_ok_from (c : jcfg) (st : jstate) (busy : bool) (evs : list jev) : bool :=
  match evs with
  | [] => true
  | e :: r =>
      (match snd e with JTimeout => busy | _ => true end) &&
      match join_do c st e with
      | Ok (st', o) => busy_ok_from c st' (is_busy (fst o)) r
      | _ => true
      end
  end.
Definition busy_ok (c : jcfg) (evs : list jev) : bool := busy_ok_from c jstate0 false evs.

(* every event carries one start bit and one continue bit per configured template *)
Definition jin_wf (c : jcfg) (x : jin) : bool :=
  match x with
  | JField _ _ starts conts =>
      Nat.eqb (length starts) (length (jnegs c)) && Nat.eqb (length conts) (length (jnegs c))
  | _ => true
  end.
Definition jwf (c : jcfg) (evs : list jev) : bool := forallb (fun e => jin_wf c (snd e)) evs.

(* ---- specification: the input cut into maximal runs ------------------------------------------ *)
Definition is_start (x : jin) : option Z :=
  match x with JField true _ starts _ => find_true starts 0 | _ => None end.

Definition opt_is_none {A} (o : option A) : bool := match o with None => true | Some _ => false end.

(* continuation line of a run started by template t: has the field, does not itself start a run,
   and template t's continue check (after negation) accepts it *)
Definition is_cont (negs : list bool) (t : Z) (x : jin) : bool :=
  match x with
  | JField _ _ _ conts =>
      opt_is_none (is_start x) &&
      match idx conts t, idx negs t with
      | Ok b, Ok n => xorb b n
      | _, _ => false
      end
  | _ => false
  end.

Definition jval (x : jin) : bytes := match x with JField _ v _ _ => v | _ => [] end.

(* the exact size rule of the code: a continuation line is appended iff max_event_size is 0 or the
   buffer is still SHORTER than max_event_size before the append (so the result may exceed it) *)
Definition limited_cat (max : Z) (first : bytes) (vs : list bytes) : bytes :=
  fold_left (append_limited max) vs first.

Inductive closing := COpen | CNext | CTimeout (t : jev).
Inductive seg :=
| SPlain (e : jev)
| SRun (s : jev) (t : Z) (cs : list jev) (c : closing).

Fixpoint span_cont (negs : list bool) (t : Z) (r : list jev) : list jev * list jev :=
  match r with
  | [] => ([], [])
  | y :: r' =>
      if is_cont negs t (snd y)
      then let '(a, b) := span_cont negs t r' in (y :: a, b)
      else ([], r)
  end.

(* fuel = number of events is always enough (Proofs/Join.v: segments_fuel_enough) *)
Fixpoint segments_fuel (n : nat) (negs : list bool) (evs : list jev) : list seg :=
  match n with
  | O => []
  | S n' =>
      match evs with
      | [] => []
      | e :: r =>
          match is_start (snd e) with
          | Some t =>
              let '(cs, rest) := span_cont negs t r in
              match rest with
              | [] => [SRun e t cs COpen]
              | y :: rest' =>
                  match snd y with
                  | JTimeout => SRun e t cs (CTimeout y) :: segments_fuel n' negs rest'
                  | _ => SRun e t cs CNext :: segments_fuel n' negs rest
                  end
              end
          | None => SPlain e :: segments_fuel n' negs r
          end
      end
  end.
Definition segments (negs : list bool) (evs : list jev) : list seg :=
  segments_fuel (length evs) negs evs.

Definition seg_inputs (s : seg) : list jev :=
  match s with
  | SPlain e => [e]
  | SRun s _ cs (CTimeout t) => s :: cs ++ [t]
  | SRun s _ cs _ => s :: cs
  end.

Definition run_content (max : Z) (s : jev) (cs : list jev) : bytes :=
  limited_cat max (jval (snd s)) (map (fun e => jval (snd e)) cs).

Definition seg_down (max : Z) (s : seg) : list jout :=
  match s with
  | SPlain e => [OPassed (fst e)]
  | SRun _ _ _ COpen => []                                    (* still held by the action *)
  | SRun s _ cs _ => [OJoined (fst s) (run_content max s cs)]
  end.

Definition seg_results (s : seg) : list Z :=
  match s with
  | SPlain _ => [APass]
  | SRun _ _ cs c =>
      AHold :: map (fun _ => ACollapse) cs ++ (match c with CTimeout _ => [ADiscard] | _ => [] end)
  end.

(* what the action still holds after the sequence: the id of the held event and the buffer *)
Definition seg_pending (max : Z) (s : seg) : option (Z * bytes) :=
  match s with
  | SRun s _ cs COpen => Some (fst s, run_content max s cs)
  | _ => None
  end.
Fixpoint spec_pending (max : Z) (ss : list seg) : option (Z * bytes) :=
  match ss with
  | [] => None
  | s :: l => match l with [] => seg_pending max s | _ :: _ => spec_pending max l end
  end.
Definition state_pending (st : jstate) : option (Z * bytes) :=
  if isJoining st then match initial st with Some i => Some (i, buff st) | None => None end else None.

Definition spec_down (c : jcfg) (evs : list jev) : list jout :=
  flat_map (seg_down (jmax c)) (segments (jnegs c) evs).
Definition spec_results (c : jcfg) (evs : list jev) : list Z :=
  flat_map seg_results (segments (jnegs c) evs).

(* bytes entering and leaving (conservation): a plain event carries its own value, a run (closed
   or still held) the buffer built from it *)
Definition in_bytes (evs : list jev) : bytes := concat (map (fun e => jval (snd e)) evs).
Definition seg_bytes (max : Z) (s : seg) : bytes :=
  match s with
  | SPlain e => jval (snd e)
  | SRun s _ cs _ => run_content max s cs
  end.

(* the decomposition is well formed and its runs are maximal *)
Definition seg_head (s : seg) : jev := match s with SPlain e => e | SRun s _ _ _ => s end.
Definition is_timeout (x : jin) : bool := match x with JTimeout => true | _ => false end.
Fixpoint segs_ok (negs : list bool) (ss : list seg) : bool :=
  match ss with
  | [] => true
  | SPlain e :: l => opt_is_none (is_start (snd e)) && segs_ok negs l
  | SRun s t cs c :: l =>
      match is_start (snd s) with Some t' => t' =? t | None => false end &&
      forallb (fun e => is_cont negs t (snd e)) cs &&
      match c with
      | COpen => match l with [] => true | _ :: _ => false end
      | CTimeout y => is_timeout (snd y)
      | CNext => match l with
                 | [] => false
                 | n :: _ => negb (is_cont negs t (snd (seg_head n))) && negb (is_timeout (snd (seg_head n)))
                 end
      end && segs_ok negs l
  end.

(* ---- exchange glue --------------------------------------------------------------------------
   case = ((max (neg ...) extra) (ev ...)),  ev = 0 | (1) | (2 isStr #json #value (s ...) (c ...))
   obs  = ((step ...) (late ...) panic),     step = (result ((id #content) ...)),
                                             late = (present #value intact)                      *)
Definition jin_of_sx (s : sx) : option jin :=
  match s with
  | SZ 0 => Some JTimeout
  | SL [SZ 1] => Some JNoField
  | SL [SZ 2; isStr; SB _; SB v; ss; cs] =>
      match as_bool isStr, as_list as_bool ss, as_list as_bool cs with
      | Some b, Some ss', Some cs' => Some (JField b v ss' cs')
      | _, _, _ => None
      end
  | _ => None
  end.

Fixpoint number_from {A} (i : Z) (l : list A) : list (Z * A) :=
  match l with [] => [] | x :: r => (i, x) :: number_from (i + 1) r end.

Definition jcase_of_sx (s : sx) : option (jcfg * list jev) :=
  match s with
  | SL [SL [SZ max; negs; _]; evs] =>
      match as_list as_bool negs, as_list jin_of_sx evs with
      | Some ns, Some xs => Some ({| jmax := max; jnegs := ns |}, number_from 0 xs)
      | _, _ => None
      end
  | _ => None
  end.

Definition sx_of_emit (p : Z * bytes) : sx := SL [SZ (fst p); SB (snd p)].
Definition sx_of_jstep (o : jstep) : sx := SL [SZ (fst o); SL (map sx_of_emit (snd o))].

(* model's late observation, from the steps actually made: the last Propagate of an id wins *)
Fixpoint lookup_emit (id : Z) (ems : list (Z * bytes)) : option bytes :=
  match ems with
  | [] => None
  | (i, b) :: r => match lookup_emit id r with
                   | Some x => Some x
                   | None => if i =? id then Some b else None
                   end
  end.
Definition model_late (os : list jstep) (evs : list jev) : list sx :=
  let ems := flat_map (fun o : jstep => snd o) os in
  flat_map (fun e : jev =>
              match snd e with
              | JTimeout => []
              | JNoField => [SL [SZ 0; SB []; SZ 1]]
              | JField _ v _ _ =>
                  [SL [SZ 1; SB (match lookup_emit (fst e) ems with Some b => b | None => v end); SZ 1]]
              end) evs.

(* 1 "timeout without joining" (Panic 3), 2 "first event is nil" (Panic 4), 3 anything else *)
Definition panic_code {A} (f : res A) : Z :=
  match f with Ok _ => 0 | Panic 3 => 1 | Panic 4 => 2 | _ => 3 end.

Definition c15_join_model (case : sx) : option sx :=
  match jcase_of_sx case with
  | Some (c, evs) =>
      let '(os, f) := join_run c jstate0 evs in
      (* events not reached because of a panic were never created by the harness either *)
      let seen := firstn (length os + (if is_ok f then 0 else 1)) evs in
      Some (SL [SL (map sx_of_jstep os); SL (model_late os seen); SZ (panic_code f)])
  | None => None
  end.

(* ---- the property's executable predicate on what the implementation did ----------------------
   only for admissible cases (well-formed bits, time-outs only while busy); it does not use
   join_do: results, downstream sequence, final field contents and the LATE observation of the field
   contents (what a batching output serialises) are compared with the run decomposition. *)
Definition jstep_of_sx (s : sx) : option jstep :=
  match s with
  | SL [SZ r; SL ems] =>
      match opt_map (fun e => match e with SL [SZ i; SB b] => Some (i, b) | _ => None end) ems with
      | Some l => Some (r, l)
      | None => None
      end
  | _ => None
  end.

Definition sx_of_jout (o : jout) : sx :=
  match o with OJoined i b => SL [SZ 1; SZ i; SB b] | OPassed i => SL [SZ 0; SZ i] end.

(* what the output reads from each event when it serialises it LATER (after the whole case ran): a joined event
   carries its whole run (spec_down), every other event its own value — the join's buffer must not be shared with
   an event that already went downstream *)
Fixpoint find_joined (id : Z) (l : list jout) : option bytes :=
  match l with
  | [] => None
  | OJoined i b :: r => match find_joined id r with
                        | Some x => Some x
                        | None => if i =? id then Some b else None
                        end
  | OPassed _ :: r => find_joined id r
  end.
Definition spec_late (c : jcfg) (evs : list jev) : list sx :=
  let down := spec_down c evs in
  flat_map (fun e : jev =>
              match snd e with
              | JTimeout => []
              | JNoField => [SL [SZ 0; SB []; SZ 1]]
              | JField _ v _ _ =>
                  [SL [SZ 1; SB (match find_joined (fst e) down with Some b => b | None => v end); SZ 1]]
              end) evs.

Definition c15_join_pred (case obs : sx) : bool :=
  match jcase_of_sx case with
  | Some (c, evs) =>
      if jwf c evs && busy_ok c evs then
        match obs with
        | SL [SL steps; SL late; SZ 0] =>
            match opt_map jstep_of_sx steps with
            | Some os =>
                Nat.eqb (length os) (length evs) &&
                sx_eqb (SL (map (fun o : jstep => SZ (fst o)) os)) (SL (map SZ (spec_results c evs))) &&
                sx_eqb (SL (map sx_of_jout (downstream os evs))) (SL (map sx_of_jout (spec_down c evs))) &&
                sx_eqb (SL late) (SL (spec_late c evs))
            | None => false
            end
        | _ => false
        end
      else true
  | None => false
  end.

Definition c15_join_run (case obs : sx) : verdict :=
  match c15_join_model case with
  | None => BadCase
  | Some m =>
      if c15_join_pred case obs then (if sx_eqb m obs then Agree else Differ m) else Violates m
  end.
