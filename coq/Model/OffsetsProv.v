(* OffsetsProv.v — the file input's jobProvider around its offsets file, as a sequential machine
   (plugin/input/file/provider.go: start / addJob / initJobOffset / initEofInfo / commit / refreshFile ->
   checkFileWasTruncated -> truncateJob / doneJob / maintenanceJob -> deleteJobAndUnlock / stop; offset.go: save, load).
   One operation = one call of the real code (harness/c07/provider.go, which 10).  The offsets file is kept as the
   table it loads back to (Model/OffsetsFmt.v + Proofs/OffsetsFmt.v: parse (print t) = t), how it gets onto the disk is
   Model/FsCrash.v, interleavings are Model/OffsetsSnap.v.  No proofs here (Proofs/OffsetsProv.v). *)
From Verif Require Import Base.Sx Base.GoSem Model.OffsetsFmt Model.OffsetsSnap.

(* a job: Job{sourceID, filename, eofReadInfo.timestamp, offsets, ignoreEventsLE, lastEventSeq, isDone} + the position
   of its file descriptor *)
Record pjob := {
  pj_id : N; pj_name : bytes; pj_ts : Z; pj_offs : smap; pj_ign : Z; pj_last : Z; pj_done : bool; pj_pos : Z }.
(* a watched file: its size, and whether its name is still in the directory *)
Record pfile := { pf_id : N; pf_name : bytes; pf_size : Z; pf_disk : bool }.
(* persistence_mode sync?; offsets_op 0 continue | 1 tail | 2 reset *)
Record pcfg := { pc_sync : bool; pc_op0 : Z }.

Record pstate := {
  p_jobs : list pjob;              (* jp.jobs *)
  p_files : list pfile;
  p_file : list entry;             (* what the offsets file loads back to *)
  p_hist : list (list entry)       (* ghost: the snapshot of every earlier job table, newest first *)
}.

Definition nonempty {A} (l : list A) : bool := match l with [] => false | _ :: _ => true end.
Definition job_entry (j : pjob) : entry :=
  {| efile := pj_name j; esid := pj_id j; ets := Some (pj_ts j); estreams := pj_offs j |}.
(* what save writes: the jobs that have offsets (len(job.offsets) == 0: skipped) *)
Definition snap (js : list pjob) : list entry := map job_entry (filter (fun j => nonempty (pj_offs j)) js).

Definition set_jobs (st : pstate) (js : list pjob) : pstate :=
  {| p_jobs := js; p_files := p_files st; p_file := p_file st; p_hist := snap (p_jobs st) :: p_hist st |}.
Definition set_files (st : pstate) (fs : list pfile) : pstate :=
  {| p_jobs := p_jobs st; p_files := fs; p_file := p_file st; p_hist := p_hist st |}.
Definition do_save (st : pstate) : pstate :=
  {| p_jobs := p_jobs st; p_files := p_files st; p_file := snap (p_jobs st); p_hist := p_hist st |}.

Definition find_job (js : list pjob) (fi : N) : option pjob := find (fun j => N.eqb (pj_id j) fi) js.
Definition find_file (fs : list pfile) (fi : N) : option pfile := find (fun f => N.eqb (pf_id f) fi) fs.
Definition upd_job (js : list pjob) (j' : pjob) : list pjob :=
  map (fun j => if N.eqb (pj_id j) (pj_id j') then j' else j) js.
Definition del_job (js : list pjob) (fi : N) : list pjob := filter (fun j => negb (N.eqb (pj_id j) fi)) js.
Definition upd_file (fs : list pfile) (f' : pfile) : list pfile :=
  map (fun f => if N.eqb (pf_id f) (pf_id f') then f' else f) fs.

Definition job_with (j : pjob) (offs : smap) (ign : Z) (done : bool) (pos : Z) : pjob :=
  {| pj_id := pj_id j; pj_name := pj_name j; pj_ts := pj_ts j; pj_offs := offs; pj_ign := ign; pj_last := pj_last j;
     pj_done := done; pj_pos := pos |}.

(* ---- start: load + addJob for every file of the directory --------------------------------------------- *)
Definition lookup_entry (es : list entry) (id : N) : option entry := find (fun e => N.eqb (esid e) id) es.
Definition min_off (ss : smap) : Z := fold_left (fun m kv => Z.min m (snd kv)) ss (2 ^ 63 - 1).

Definition start_job (cfg : pcfg) (loaded : list entry) (f : pfile) : pjob :=
  let le := if pc_op0 cfg =? 0 then lookup_entry loaded (pf_id f) else None in     (* start() loads only for continue *)
  {| pj_id := pf_id f; pj_name := pf_name f;
     pj_ts := match le with Some e => match ets e with Some t => t | None => 0 end | None => 0 end;    (* initEofInfo *)
     pj_offs := match le with Some e => estreams e | None => [] end;                                     (* initJobOffset *)
     pj_ign := 0; pj_last := 0; pj_done := false;
     pj_pos := if pc_op0 cfg =? 0 then match le with Some e => min_off (estreams e) | None => 0 end
               else if pc_op0 cfg =? 1 then (if pf_size f =? 0 then 0 else pf_size f - 1)
               else 0 |}.
Definition start_jobs (cfg : pcfg) (loaded : list entry) (fs : list pfile) : list pjob :=
  map (start_job cfg loaded) (filter pf_disk fs).

Definition pinit (cfg : pcfg) (fs : list pfile) : pstate :=
  {| p_jobs := start_jobs cfg [] fs; p_files := fs; p_file := []; p_hist := [] |}.

(* ---- operations ----------------------------------------------------------------------------------------- *)
Inductive pop :=
| PCommit (fi : N) (kind seq : Z) (s : bytes) (off : Z)   (* jobProvider.commit of an event *)
| PSave                                                    (* offsetDB.save: a tick of the async saver *)
| PProgress (fi : N) (pos seq : Z)                         (* the worker read up to pos, its last event has number seq *)
| PTrunc (fi : N) (size : Z)                               (* the file now has size bytes + write notification (refreshFile) *)
| PDone (fi : N)                                           (* the worker reached EOF: doneJob *)
| PMaint (fi : N) (remove : bool)                          (* [the file is unlinked;] maintenanceJob *)
| PRestart (crash : bool)                                  (* stop() (final save) or death; a new provider starts *)
| PTs (fi : N) (t : Z).                                    (* EOF seen at time t *)

(* IsRegularKind || IsChildParentKind *)
Definition commits_kind (k : Z) : bool := (k =? 0) || (k =? 4).
(* truncateJob: every stored offset becomes 0, events up to the last one read are ignored *)
Definition truncated (j : pjob) : pjob := job_with j (map (fun kv => (fst kv, 0)) (pj_offs j)) (pj_last j) (pj_done j) 0.

(* result codes: 0 returned, 7 panicked, 8 no such job / file; PMaint: 1 not done, 2 resumed, 3 deleted, 4 noop *)
Definition pstep (cfg : pcfg) (st : pstate) (o : pop) : Z * pstate :=
  match o with
  | PCommit fi kind seq s off =>
      match find_job (p_jobs st) fi with
      | None => (0, st)                                                  (* unknown source: commit returns *)
      | Some j =>
          if negb (commits_kind kind) || (seq <=? pj_ign j) then (0, st)  (* not a committing kind / ignored after a truncation *)
          else if off <=? sget (pj_offs j) s then (7, st)                 (* "offset corruption": panic, nothing stored, lock released *)
          else
            let st' := set_jobs st (upd_job (p_jobs st) (job_with j (sset (pj_offs j) s off) (pj_ign j) (pj_done j) (pj_pos j))) in
            (0, if pc_sync cfg then do_save st' else st')
      end
  | PSave => (0, do_save st)
  | PProgress fi pos seq =>
      match find_job (p_jobs st) fi with
      | None => (8, st)
      | Some j =>
          (0, set_jobs st (upd_job (p_jobs st)
                 {| pj_id := pj_id j; pj_name := pj_name j; pj_ts := pj_ts j; pj_offs := pj_offs j; pj_ign := pj_ign j;
                    pj_last := seq; pj_done := pj_done j; pj_pos := pos |}))
      end
  | PTrunc fi size =>
      match find_job (p_jobs st) fi, find_file (p_files st) fi with
      | Some j, Some f =>
          if pf_disk f then
            let st1 := set_files st (upd_file (p_files st) {| pf_id := pf_id f; pf_name := pf_name f; pf_size := size; pf_disk := true |}) in
            let j1 := if size <? pj_pos j then truncated j else j in       (* checkFileWasTruncated: lastOffset > size *)
            (0, set_jobs st1 (upd_job (p_jobs st1) (job_with j1 (pj_offs j1) (pj_ign j1) false (pj_pos j1))))   (* tryResumeJobAndUnlock *)
          else (8, st)
      | _, _ => (8, st)
      end
  | PDone fi =>
      match find_job (p_jobs st) fi with
      | Some j => if pj_done j then (8, st)
                  else (0, set_jobs st (upd_job (p_jobs st) (job_with j (pj_offs j) (pj_ign j) true (pj_pos j))))
      | None => (8, st)
      end
  | PMaint fi remove =>
      let st1 := match find_file (p_files st) fi with
                 | Some f => if remove
                             then set_files st (upd_file (p_files st) {| pf_id := pf_id f; pf_name := pf_name f; pf_size := pf_size f; pf_disk := false |})
                             else st
                 | None => st
                 end in
      match find_job (p_jobs st1) fi, find_file (p_files st1) fi with
      | Some j, Some f =>
          if negb (pj_done j) then (1, st1)
          else if negb (pf_size f =? pj_pos j) then (2, set_jobs st1 (upd_job (p_jobs st1) (job_with j (pj_offs j) (pj_ign j) false (pj_pos j))))
          else if pf_disk f then (4, st1)
          else (3, set_jobs st1 (del_job (p_jobs st1) fi))                (* deleteJobAndUnlock *)
      | _, _ => (8, st1)
      end
  | PRestart crash =>
      let st1 := if crash then st else do_save st in                       (* stop(): "saving last known offsets" *)
      (0, set_jobs st1 (start_jobs cfg (p_file st1) (p_files st1)))
  | PTs fi t =>
      match find_job (p_jobs st) fi with
      | None => (8, st)
      | Some j =>
          (0, set_jobs st (upd_job (p_jobs st)
                 {| pj_id := pj_id j; pj_name := pj_name j; pj_ts := t; pj_offs := pj_offs j; pj_ign := pj_ign j;
                    pj_last := pj_last j; pj_done := pj_done j; pj_pos := pj_pos j |}))
      end
  end.

(* the result of every operation with the state after it *)
Fixpoint prun (cfg : pcfg) (st : pstate) (ops : list pop) : list (Z * pstate) :=
  match ops with
  | [] => []
  | o :: r => let zs := pstep cfg st o in zs :: prun cfg (snd zs) r
  end.

(* every state of a history, the initial one first *)
Fixpoint pstates (cfg : pcfg) (st : pstate) (ops : list pop) : list pstate :=
  st :: match ops with
        | [] => []
        | o :: r => pstates cfg (snd (pstep cfg st o)) r
        end.
