(* C04 entry: which 0 = the real pipeline (Model/PipeGlue.v), which 10/11 = the event pools alone (Model/PoolGlue.v) *)
From Verif Require Import Base.Sx Model.PipeEntry Model.PoolGlue.
Definition c04_full_entry (which : Z) (case obs : sx) : verdict :=
  if (which =? 10) || (which =? 11) then pool_entry which case obs else c04_pipe_entry which case obs.
