(* Fields.v — C18: remove_fields / keep_fields and the selector parser (cfg.ParseFieldSelector,
   cfg.ParseNestedFields), over the insane-json value model of Base/Json.v.  No proofs here.

   Go sources modelled:
     cfg/config.go            ParseFieldSelector, ParseNestedFields
     plugin/action/remove_fields/remove_fields.go   Do  (Root.Dig(path...).Suicide() per path)
     plugin/action/keep_fields/keep_fields.go       Start (trie), Do, traverseFieldsTree (+ fieldsDepthSlice)
     insane-json v0.1.9       Dig (objects by first matching key, arrays by strconv.Atoi index),
                              Suicide (object field: swap-remove; array element: order-preserving) *)
From Verif Require Import Base.Sx Base.GoSem Base.Json.
From Coq Require Import Lia.

Definition DOT : byte := 46%N.
Definition BSL : byte := 92%N.
Definition path := list bytes.
Definition fields := list (bytes * json).

(* ------------------------------------------------------------------------------------------ *)
(* cfg.ParseFieldSelector, statement by statement (racc = result, reversed)                    *)
(* ------------------------------------------------------------------------------------------ *)
Fixpoint psel_loop (fuel : nat) (racc : list bytes) (tail sel : bytes) : res (list bytes) :=
  match fuel with
  | O => Err 99
  | S f =>
      let pos := index_byte sel DOT in
      if pos =? -1 then
        Ok (rev_append racc (if (len sel + len tail =? 0) then [] else [tail ++ sel]))
      else
        esc <- (if 0 <? pos then c <- idx sel (pos - 1) ;; Ok (N.eqb c BSL) else Ok false) ;;
        if (esc : bool) then
          pre <- slice_to sel (pos - 1) ;;
          rest <- slice_from sel (pos + 1) ;;
          psel_loop f racc (tail ++ pre ++ [DOT]) rest
        else
          dd <- (if pos + 1 <? len sel then c <- idx sel (pos + 1) ;; Ok (N.eqb c DOT) else Ok false) ;;
          if (dd : bool) then
            t <- slice_to sel (pos + 1) ;;
            rest <- slice_from sel (pos + 2) ;;
            psel_loop f racc t rest
          else
            pre <- slice_to sel pos ;;
            rest <- slice_from sel (pos + 1) ;;
            psel_loop f ((tail ++ pre) :: racc) [] rest
  end.

Definition parse_selector (s : bytes) : res path := psel_loop (S (length s)) [] [] s.

(* the specification of a selector: split on unescaped dots ("\." is a literal dot, any other
   backslash is literal), a final empty segment is dropped *)
Fixpoint split_go (cur_rev : bytes) (s : bytes) {struct s} : list bytes :=
  match s with
  | [] => match cur_rev with [] => [] | _ => [rev cur_rev] end
  | c :: r =>
      if N.eqb c DOT then rev cur_rev :: split_go [] r
      else if N.eqb c BSL then
        match r with
        | d :: r' => if N.eqb d DOT then split_go (DOT :: cur_rev) r' else split_go (BSL :: cur_rev) r
        | [] => [rev (BSL :: cur_rev)]
        end
      else split_go (c :: cur_rev) r
  end.
Definition split_unesc (s : bytes) : path := split_go [] s.

(* the "a..b" form: an unescaped dot immediately followed by a dot *)
Fixpoint has_dotdot (s : bytes) : bool :=
  match s with
  | [] => false
  | c :: r =>
      if N.eqb c DOT then
        match r with d :: _ => if N.eqb d DOT then true else has_dotdot r | [] => false end
      else if N.eqb c BSL then
        match r with
        | d :: r' => if N.eqb d DOT then has_dotdot r' else has_dotdot r
        | [] => false
        end
      else has_dotdot r
  end.

(* ------------------------------------------------------------------------------------------ *)
(* cfg.ParseNestedFields                                                                       *)
(* ------------------------------------------------------------------------------------------ *)
Fixpoint path_eqb (a b : path) : bool :=
  match a, b with
  | [], [] => true
  | x :: a', y :: b' => key_eqb x y && path_eqb a' b'
  | _, _ => false
  end.

(* sort.Slice(paths, len(i) < len(j)) for at most 12 paths is insertionSortLessFunc: stable *)
Fixpoint insert_len (p : path) (sorted : list path) : list path :=
  match sorted with
  | [] => [p]
  | q :: r => if (length p <? length q)%nat then p :: q :: r else q :: insert_len p r
  end.
Definition sort_len (ps : list path) : list path := fold_left (fun acc p => insert_len p acc) ps [].

(* for _, shortPath := range paths[:i] { if slices.Equal(shortPath, longPath[:len(shortPath)]) ... break } *)
Fixpoint covered (before : list path) (lp : path) : res bool :=
  match before with
  | [] => Ok false
  | sp :: r =>
      pre <- slice_to lp (len sp) ;;
      if path_eqb sp pre then Ok true else covered r lp
  end.

Fixpoint nest_loop (before rest : list path) (racc : list path) : res (list path) :=
  match rest with
  | [] => Ok (rev racc)
  | lp :: rest' =>
      cov <- covered before lp ;;
      nest_loop (before ++ [lp]) rest' (if (cov : bool) then racc else lp :: racc)
  end.
Definition nest (ps : list path) : res (list path) := nest_loop [] (sort_len ps) [].

Fixpoint parse_all (sels : list bytes) : res (list path) :=
  match sels with
  | [] => Ok []
  | s :: r =>
      p <- parse_selector s ;;
      match p with
      | [] => Err 2                      (* "empty path parsed" *)
      | _ => ps <- parse_all r ;; Ok (p :: ps)
      end
  end.

Definition parse_nested (sels : list bytes) : res (list path) :=
  match sels with
  | [] => Err 1                          (* "empty fields list" *)
  | _ => ps <- parse_all sels ;; nest ps
  end.

(* ------------------------------------------------------------------------------------------ *)
(* insane-json Dig + Suicide, as remove_fields uses them                                       *)
(* ------------------------------------------------------------------------------------------ *)
Definition is_digit (c : byte) : bool := N.leb 48 c && N.leb c 57.
Fixpoint digits_val (acc : Z) (s : bytes) : option Z :=
  match s with
  | [] => Some acc
  | c :: r => if is_digit c then digits_val (acc * 10 + (Z.of_N c - 48)) r else None
  end.
(* strconv.Atoi: optional sign, at least one digit (the int64 range error is indistinguishable
   from an out-of-range index below) *)
Definition atoi (s : bytes) : option Z :=
  match s with
  | [] => None
  | c :: r =>
      if N.eqb c 43 || N.eqb c 45 then
        match r with
        | [] => None
        | _ => match digits_val 0 r with
               | Some v => Some (if N.eqb c 45 then - v else v)
               | None => None
               end
        end
      else digits_val 0 s
  end.
Definition arr_index (k : bytes) (n : nat) : option nat :=
  match atoi k with
  | Some z => if (0 <=? z) && (z <? Z.of_nat n) then Some (Z.to_nat z) else None
  | None => None
  end.

(* replace the value of the first field named k *)
Fixpoint upd_field (k : bytes) (f : json -> json) (fs : fields) : fields :=
  match fs with
  | [] => []
  | (k', v) :: r => if key_eqb k' k then (k', f v) :: r else (k', v) :: upd_field k f r
  end.

(* Dig(path...) *)
Fixpoint dig_ix (j : json) (p : path) : option json :=
  match p with
  | [] => Some j
  | k :: rest =>
      match j with
      | JObj fs => match field_get fs k with Some v => dig_ix v rest | None => None end
      | JArr l => match arr_index k (length l) with
                  | Some i => match nth_error l i with Some v => dig_ix v rest | None => None end
                  | None => None
                  end
      | _ => None
      end
  end.

(* Dig(path...).Suicide(), value level: the tree after the call (the root never dies) *)
Fixpoint remove1 (p : path) (j : json) {struct p} : json :=
  match p with
  | [] => j
  | k :: rest =>
      match j with
      | JObj fs =>
          match rest with
          | [] => match field_index fs k 0 with
                  | Some i => JObj (swap_remove fs i)
                  | None => j
                  end
          | _ => JObj (upd_field k (remove1 rest) fs)
          end
      | JArr l =>
          match arr_index k (length l) with
          | Some i =>
              match rest with
              | [] => JArr (remove_at l i)
              | _ => match nth_error l i with
                     | Some v => JArr (set_at l i (remove1 rest v))
                     | None => j
                     end
              end
          | None => j
          end
      | _ => j
      end
  end.

Definition is_obj (j : json) : bool := match j with JObj _ => true | _ => false end.

(* remove_fields.Do *)
Definition remove_do (ps : list path) (j : json) : json :=
  if is_obj j then fold_left (fun j p => remove1 p j) ps j else j.

(* ------------------------------------------------------------------------------------------ *)
(* keep_fields: the trie of Start and traverseFieldsTree with its per-depth delete buffers     *)
(* ------------------------------------------------------------------------------------------ *)
Inductive trie : Type := Trie (ch : list (bytes * trie)).
Definition children (t : trie) : list (bytes * trie) := match t with Trie ch => ch end.
Definition is_leaf (t : trie) : bool := match children t with [] => true | _ => false end.

Fixpoint trie_get (ch : list (bytes * trie)) (k : bytes) : option trie :=
  match ch with
  | [] => None
  | (k', c) :: r => if key_eqb k' k then Some c else trie_get r k
  end.

Fixpoint trie_insert (p : path) (t : trie) {struct p} : trie :=
  match p with
  | [] => t
  | k :: r =>
      Trie ((fix ins (ch : list (bytes * trie)) : list (bytes * trie) :=
               match ch with
               | [] => [(k, trie_insert r (Trie []))]
               | (k', c) :: ch' =>
                   if key_eqb k' k then (k', trie_insert r c) :: ch' else (k', c) :: ins ch'
               end) (children t))
  end.
Definition trie_of (ps : list path) : trie := fold_left (fun t p => trie_insert p t) ps (Trie []).
Definition max_depth (ps : list path) : nat := fold_left (fun m p => Nat.max m (length p)) ps 0%nat.

(* for _, field := range buf { eventNode.Dig(field).Suicide() } *)
Definition del_key (k : bytes) (fs : fields) : fields :=
  match field_index fs k 0 with Some i => swap_remove fs i | None => fs end.
Fixpoint del_keys (ks : list bytes) (fs : fields) : fields :=
  match ks with [] => fs | k :: r => del_keys r (del_key k fs) end.

Definition bufs_t := list (list bytes).        (* fieldsDepthSlice; each buffer newest first *)

(* p.fieldsDepthSlice[depth] = append(p.fieldsDepthSlice[depth], k) *)
Definition buf_push (bufs : bufs_t) (depth : nat) (k : bytes) : res bufs_t :=
  b <- idx bufs (Z.of_nat depth) ;; Ok (set_at bufs depth (k :: b)).

Fixpoint trav (fuel : nat) (t : trie) (j : json) (depth : nat) (bufs : bufs_t) {struct fuel}
  : res (bool * json * bufs_t) :=
  match fuel with
  | O => Err 99
  | S fuel' =>
      if is_leaf t then Ok (true, j, bufs) else
      match j with
      | JObj fs0 =>
          r <- (fix loop (keys : list bytes) (fs : fields) (bufs : bufs_t) (pres : bool)
                  {struct keys} : res (fields * bufs_t * bool) :=
                  match keys with
                  | [] => Ok (fs, bufs, pres)
                  | k :: keys' =>
                      match trie_get (children t) k with
                      | Some c =>
                          if is_leaf c then loop keys' fs bufs true
                          else
                            match field_get fs k with
                            | Some v =>
                                r <- trav fuel' c v (S depth) bufs ;;
                                let '(e, v', bufs') := r in
                                let fs' := upd_field k (fun _ => v') fs in
                                if (e : bool) then loop keys' fs' bufs' true
                                else (b2 <- buf_push bufs' depth k ;; loop keys' fs' b2 pres)
                            | None => b2 <- buf_push bufs depth k ;; loop keys' fs b2 pres
                            end
                      | None => b2 <- buf_push bufs depth k ;; loop keys' fs b2 pres
                      end
                  end) (map fst fs0) fs0 bufs false ;;
          let '(fs, bufs1, pres) := r in
          b <- idx bufs1 (Z.of_nat depth) ;;
          let fs' := if Nat.eqb depth 0 || pres then del_keys (rev b) fs else fs in
          Ok (pres, JObj fs', set_at bufs1 depth [])
      | _ => Ok (false, j, bufs)
      end
  end.

(* keep_fields.Do with the buffers Start allocated; also returns the buffers left behind *)
Definition keep_run (ps : list path) (j : json) : res (json * bufs_t) :=
  let md := max_depth ps in
  if is_obj j then
    r <- trav (S md) (trie_of ps) j 0 (repeat [] md) ;;
    let '(_, j', bufs) := r in Ok (j', bufs)
  else Ok (j, repeat [] md).
Definition keep_do (ps : list path) (j : json) : res json :=
  r <- keep_run ps j ;; Ok (fst r).

(* the two plugins, selectors to event *)
Definition remove_fields (sels : list bytes) (j : json) : res json :=
  ps <- parse_nested sels ;; Ok (remove_do ps j).
Definition keep_fields (sels : list bytes) (j : json) : res json :=
  ps <- parse_nested sels ;; keep_do ps j.

(* ------------------------------------------------------------------------------------------ *)
(* Specifications on trees                                                                     *)
(* ------------------------------------------------------------------------------------------ *)
Definition is_nil {A} (l : list A) : bool := match l with [] => true | _ => false end.

(* the continuations below key k *)
Fixpoint tails (k : bytes) (ps : list path) : list path :=
  match ps with
  | [] => []
  | [] :: r => tails k r
  | (k' :: t) :: r => if key_eqb k' k then t :: tails k r else tails k r
  end.

(* order-preserving "delete exactly these paths"; anything that is not an object is left alone *)
Fixpoint subtract (ps : list path) (j : json) {struct j} : json :=
  match j with
  | JObj fs =>
      JObj ((fix go (fs : fields) : fields :=
               match fs with
               | [] => []
               | (k, v) :: r =>
                   if existsb is_nil (tails k ps) then go r
                   else (k, subtract (tails k ps) v) :: go r
               end) fs)
  | _ => j
  end.

(* order-preserving "keep exactly these paths and the objects on the way to an existing one";
   None = nothing below this node is selected *)
Fixpoint proj (ps : list path) (j : json) {struct j} : option json :=
  match j with
  | JObj fs =>
      match (fix go (fs : fields) : fields :=
               match fs with
               | [] => []
               | (k, v) :: r =>
                   if existsb is_nil (tails k ps) then (k, v) :: go r
                   else match proj (tails k ps) v with
                        | Some v' => (k, v') :: go r
                        | None => go r
                        end
               end) fs with
      | [] => None
      | kept => Some (JObj kept)
      end
  | _ => None
  end.
Definition project (ps : list path) (j : json) : json :=
  if is_obj j then match proj ps j with Some x => x | None => JObj [] end else j.

(* equality up to the order of the fields of every object (values of arrays compared as they are) *)
Inductive jperm : json -> json -> Prop :=
| JP_refl : forall j, jperm j j
| JP_obj : forall fs gs, fperm fs gs -> jperm (JObj fs) (JObj gs)
with fperm : fields -> fields -> Prop :=
| FP_nil : fperm [] []
| FP_cons : forall k v v' fs gs, jperm v v' -> fperm fs gs -> fperm ((k, v) :: fs) ((k, v') :: gs)
| FP_swap : forall a b fs, fperm (a :: b :: fs) (b :: a :: fs)
| FP_trans : forall fs gs hs, fperm fs gs -> fperm gs hs -> fperm fs hs.

(* its decision procedure (the property predicate of the harness) *)
Fixpoint take_field (k : bytes) (gs : fields) : option (json * fields) :=
  match gs with
  | [] => None
  | (k', v) :: r =>
      if key_eqb k' k then Some (v, r)
      else match take_field k r with
           | Some (v', r') => Some (v', (k', v) :: r')
           | None => None
           end
  end.
Fixpoint jperm_b (a b : json) {struct a} : bool :=
  match a with
  | JObj fs =>
      match b with
      | JObj gs =>
          (fix go (fs gs : fields) : bool :=
             match fs with
             | [] => is_nil gs
             | (k, v) :: r =>
                 match take_field k gs with
                 | Some (v', gs') => jperm_b v v' && go r gs'
                 | None => false
                 end
             end) fs gs
      | _ => false
      end
  | _ => json_eqb a b
  end.

(* unique keys in every object reachable through objects *)
Fixpoint ouniq (j : json) : Prop :=
  match j with
  | JObj fs =>
      NoDup (map fst fs) /\
      (fix all (fs : fields) : Prop :=
         match fs with [] => True | (_, v) :: r => ouniq v /\ all r end) fs
  | _ => True
  end.
Fixpoint mem_key (k : bytes) (ks : list bytes) : bool :=
  match ks with [] => false | x :: r => key_eqb x k || mem_key k r end.
Fixpoint nodup_b (ks : list bytes) : bool :=
  match ks with [] => true | k :: r => negb (mem_key k r) && nodup_b r end.
Fixpoint ouniq_b (j : json) : bool :=
  match j with
  | JObj fs =>
      nodup_b (map fst fs) &&
      (fix all (fs : fields) : bool :=
         match fs with [] => true | (_, v) :: r => ouniq_b v && all r end) fs
  | _ => true
  end.

(* no path of ps steps into an array with a valid index (where Dig would continue) *)
Fixpoint arr_safe (ps : list path) (j : json) {struct j} : bool :=
  match j with
  | JObj fs =>
      (fix all (fs : fields) : bool :=
         match fs with [] => true | (k, v) :: r => arr_safe (tails k ps) v && all r end) fs
  | JArr l =>
      negb (existsb (fun p => match p with
                              | [] => false
                              | k :: _ => match arr_index k (length l) with Some _ => true | None => false end
                              end) ps)
  | _ => true
  end.

(* path sets as ParseNestedFields leaves them *)
Fixpoint is_prefix (a b : path) : bool :=
  match a, b with
  | [], _ => true
  | x :: a', y :: b' => key_eqb x y && is_prefix a' b'
  | _ :: _, [] => false
  end.
Fixpoint prefix_free (ps : list path) : Prop :=
  match ps with
  | [] => True
  | p :: r => Forall (fun q => is_prefix p q = false /\ is_prefix q p = false) r /\ prefix_free r
  end.

(* ------------------------------------------------------------------------------------------ *)
(* Glue                                                                                        *)
(* ------------------------------------------------------------------------------------------ *)
Definition sx_of_path (p : path) : sx := SL (map SB p).
Definition sx_of_paths (ps : list path) : sx := SL (map sx_of_path ps).

(* how the observed event relates to the order-preserving specification:
   0 identical | 1 only the key order differs | 3 content differs and a path indexes an array |
   2 content differs otherwise *)
Definition c18_tag (after spec : json) (hit : bool) : Z :=
  if json_eqb after spec then 0 else if jperm_b after spec then 1 else if hit then 3 else 2.

(* which = 0 remove_fields, 1 keep_fields.  case = ((#selector ...) event)
   obs = (tag event-after) | (9 #panic)   tag = the harness' own naive classification *)
Definition c18_run (keep : bool) (case obs : sx) : verdict :=
  match case with
  | SL [sels; ev] =>
      match as_list as_B sels, json_of_sx ev with
      | Some sels, Some o =>
          if negb (ouniq_b o) || existsb has_dotdot sels then BadCase else
          match parse_nested sels with
          | Ok ps =>
              let specps := map split_unesc sels in
              let spec := if keep then project specps o else subtract specps o in
              let hit := if keep then false else negb (arr_safe ps o) in
              match (if keep then keep_do ps o else Ok (remove_do ps o)) with
              | Ok m =>
                  let msx := SL [SZ (c18_tag m spec hit); sx_of_json m] in
                  match obs with
                  | SL [SZ gtag; after] =>
                      match json_of_sx after with
                      | Some a =>
                          let ctag := c18_tag a spec hit in
                          if negb (ctag =? gtag) then Differ msx
                          else if json_eqb a m then
                                 (if ctag =? 0 then Agree else Violates (SL [SZ ctag; sx_of_json spec]))
                          else if ctag =? 2 then Violates (SL [SZ 2; sx_of_json spec])
                          else Differ msx
                      | None => Violates msx          (* panic / not a JSON value *)
                      end
                  | _ => BadCase
                  end
              | _ => BadCase
              end
          | _ => BadCase
          end
      | _, _ => BadCase
      end
  | _ => BadCase
  end.

(* which = 2: ParseNestedFields.  case = (#selector ...)   obs = (0 ((#seg ...) ...)) | (1 e) | (2) *)
Definition c18_nested (case obs : sx) : verdict :=
  match as_list as_B case with
  | Some sels => exact_verdict (sx_of_res sx_of_paths (parse_nested sels)) obs
  | None => BadCase
  end.

(* which = 3: ParseFieldSelector.  case = #selector   obs = (0 (#seg ...)) | (2);
   for selectors without the ".." form the predicate is the specification split_unesc *)
Definition c18_selector (case obs : sx) : verdict :=
  match case with
  | SB s =>
      let m := sx_of_res sx_of_path (parse_selector s) in
      if has_dotdot s then exact_verdict m obs
      else
        let spec := SL [SZ 0; sx_of_path (split_unesc s)] in
        if sx_eqb obs spec then (if sx_eqb m obs then Agree else Differ m) else Violates spec
  | _ => BadCase
  end.

(* which = 4: insane-json conformance of this file's Dig / Suicide (arrays included).
   case = (op (#seg ...) tree); op 0: obs = the node Dig returns | (9); op 1: obs = the tree after
   Dig(path...).Suicide() *)
Definition c18_conf (case obs : sx) : verdict :=
  match case with
  | SL [SZ op; p; t] =>
      match as_list as_B p, json_of_sx t with
      | Some p, Some j =>
          if op =? 0 then
            exact_verdict (match dig_ix j p with Some v => sx_of_json v | None => SL [SZ 9] end) obs
          else exact_verdict (sx_of_json (remove1 p j)) obs
      | _, _ => BadCase
      end
  | _ => BadCase
  end.

(* which = 5: Base/Json.v conformance.  case = (0 (#seg ...) tree): Json.dig (the generator never
   steps into an array); case = (1 i object): Json.swap_remove of the i-th field (unique keys) *)
Definition c18_conf_base (case obs : sx) : verdict :=
  match case with
  | SL [SZ 0; p; t] =>
      match as_list as_B p, json_of_sx t with
      | Some p, Some j =>
          exact_verdict (match dig j p with Some v => sx_of_json v | None => SL [SZ 9] end) obs
      | _, _ => BadCase
      end
  | SL [SZ 1; i; t] =>
      match as_nat i, json_of_sx t with
      | Some i, Some (JObj fs) => exact_verdict (sx_of_json (JObj (swap_remove fs i))) obs
      | _, _ => BadCase
      end
  | _ => BadCase
  end.

(* ------------------------------------------------------------------------------------------ *)
(* Glue for more than 12 selectors and for instance histories (which = 6, 7, 8)                *)
(* ------------------------------------------------------------------------------------------ *)
(* Above 12 paths Go's sort.Slice is pdqsort: deterministic but not stable, so the order of equally long
   paths in the result of ParseNestedFields is not the order [sort_len] gives.  The sub-models below take
   that order from the observation (what cfg.ParseNestedFields returned on the case's selectors) and
   validate it: it has to be the model's path set, every path once, in non-decreasing length; up to 12
   selectors it has to be the model's list itself (insertion sort). *)
Fixpoint len_sorted (ps : list path) : bool :=
  match ps with
  | p :: r => match r with
              | q :: _ => (length p <=? length q)%nat && len_sorted r
              | [] => true
              end
  | [] => true
  end.
Definition path_mem (p : path) (ps : list path) : bool := existsb (path_eqb p) ps.
Fixpoint paths_eqb (a b : list path) : bool :=
  match a, b with
  | [], [] => true
  | x :: a', y :: b' => path_eqb x y && paths_eqb a' b'
  | _, _ => false
  end.
Definition valid_order (nsel : nat) (model obs : list path) : bool :=
  if (nsel <=? 12)%nat then paths_eqb model obs
  else Nat.eqb (length model) (length obs) && len_sorted obs
       && forallb (fun p => path_mem p obs) model && forallb (fun p => path_mem p model) obs.

(* which = 7: ParseNestedFields with any number of selectors.  case = (#selector ...)
   obs = (0 ((#seg ...) ...)) | (1 e) | (2) *)
Definition c18_nested_many (case obs : sx) : verdict :=
  match as_list as_B case with
  | Some sels =>
      match parse_nested sels with
      | Ok psm =>
          match obs with
          | SL [SZ 0; opaths] =>
              match as_list (as_list as_B) opaths with
              | Some ops => if valid_order (length sels) psm ops then Agree
                            else Differ (SL [SZ 0; sx_of_paths psm])
              | None => BadCase
              end
          | _ => Differ (SL [SZ 0; sx_of_paths psm])
          end
      | r => exact_verdict (sx_of_res sx_of_paths r) obs
      end
  | None => BadCase
  end.

(* severity of the classification tags: identical < order only < array index < content < panic *)
Definition sev (t : Z) : Z :=
  if t =? 0 then 0 else if t =? 1 then 1 else if t =? 3 then 2 else if t =? 2 then 3 else 4.
Definition worse (a b : Z) : Z := if sev a <? sev b then b else a.

Inductive ev_res := EvBad | EvAgree | EvViol (tag : Z) (spec : json) | EvDiff (m : sx).

(* one Do of a history, judged exactly like c18_run judges its single event; ps = the plugin's paths in
   the validated order *)
Definition c18_one (keep : bool) (specps ps : list path) (o : json) (obs : sx) : ev_res * Z :=
  let spec := if keep then project specps o else subtract specps o in
  let hit := if keep then false else negb (arr_safe ps o) in
  match (if keep then keep_do ps o else Ok (remove_do ps o)) with
  | Ok m =>
      let msx := SL [SZ (c18_tag m spec hit); sx_of_json m] in
      match obs with
      | SL [SZ gtag; after] =>
          match json_of_sx after with
          | Some a =>
              let ctag := c18_tag a spec hit in
              if negb (ctag =? gtag) then (EvDiff msx, ctag)
              else if json_eqb a m then (if ctag =? 0 then (EvAgree, 0) else (EvViol ctag spec, ctag))
              else if ctag =? 2 then (EvViol 2 spec, 2)
              else (EvDiff msx, ctag)
          | None => (EvBad, 0)
          end
      | _ => (EvBad, 0)
      end
  | _ => (EvBad, 0)
  end.

Definition is_bad (r : ev_res * Z) : bool := match fst r with EvBad => true | _ => false end.
Fixpoint first_diff (rs : list (ev_res * Z)) : option sx :=
  match rs with
  | [] => None
  | (EvDiff m, _) :: _ => Some m
  | _ :: r => first_diff r
  end.
(* the first violation of the worst kind present *)
Fixpoint first_viol (want : Z) (rs : list (ev_res * Z)) : option sx :=
  match rs with
  | [] => None
  | (EvViol t spec, _) :: r => if t =? want then Some (SL [SZ t; sx_of_json spec]) else first_viol want r
  | _ :: r => first_viol want r
  end.

(* which = 6 remove_fields, 8 keep_fields: ONE plugin instance, the events one after the other.
   case = ((#selector ...) (event ...))
   obs  = (overall ((tag event-after) ...) ((#seg ...) ...)) | (9 #panic)
          overall = the worst tag; the last item = what cfg.ParseNestedFields returned (see valid_order).
   A path list that is not a valid order of the model's is a difference, unless some event's content is
   wrong as well (then that violation is reported).
   The model has no state between two Do (the per-depth buffers are empty after every Do: last
   conjunct of c18_keep_spec_partial), so each event is judged on its own.  A content violation wins over a
   model/code difference, which wins over the two known kinds (order only, array index): a difference
   in one event is never hidden behind a known finding in another. *)
Definition c18_seq (keep : bool) (case obs : sx) : verdict :=
  match case with
  | SL [sels; evs] =>
      match as_list as_B sels, as_list json_of_sx evs with
      | Some sels, Some os =>
          if negb (forallb ouniq_b os) || existsb has_dotdot sels then BadCase else
          match parse_nested sels with
          | Ok psm =>
              match obs with
              | SL [SZ 9; SB _] => Violates (SL [SZ 9])
              | SL [SZ overall; SL robs; opaths] =>
                  match as_list (as_list as_B) opaths with
                  | Some ops =>
                      let ord_ok := valid_order (length sels) psm ops in
                      if negb (Nat.eqb (length os) (length robs)) then BadCase
                      else
                        let specps := map split_unesc sels in
                        let use := if ord_ok then ops else psm in
                        let rs := map (fun ob => c18_one keep specps use (fst ob) (snd ob)) (combine os robs) in
                        let w := fold_left (fun a r => worse a (snd r)) rs 0 in
                        if existsb is_bad rs then BadCase
                        else match first_viol 2 rs with
                             | Some v => Violates v
                             | None =>
                                 if negb ord_ok then Differ (SL [SZ 7; sx_of_paths psm]) else
                                 match first_diff rs with
                                 | Some m => Differ m
                                 | None =>
                                     if negb (w =? overall) then Differ (SL [SZ 6; SZ w])
                                     else match first_viol w rs with
                                          | Some v => Violates v
                                          | None => Agree
                                          end
                                 end
                             end
                  | None => BadCase
                  end
              | _ => BadCase
              end
          | _ => BadCase
          end
      | _, _ => BadCase
      end
  | _ => BadCase
  end.

Definition c18_entry (which : Z) (case obs : sx) : verdict :=
  match which with
  | 0 => c18_run false case obs
  | 1 => c18_run true case obs
  | 2 => c18_nested case obs
  | 3 => c18_selector case obs
  | 4 => c18_conf case obs
  | 6 => c18_seq false case obs
  | 7 => c18_nested_many case obs
  | 8 => c18_seq true case obs
  | _ => c18_conf_base case obs
  end.
