(* Exchange glue + raw-trace monitors for the batcher properties (C08, C09). *)
From Verif Require Import Base.Sx Model.Batcher.

(* harness label: (bidx kind a b c d) / (bidx 102 seq id ...) *)
Definition zs_of (l : list sx) : option (list Z) := opt_map as_Z l.

Definition label_of (kind : Z) (a : list Z) : option label :=
  match kind, a with
  | 1, [id; src; sz; k] => Some (LAdd {| eid := id; esrc := src; esize := sz; ekind := k |})
  | 2, _ => Some LFree
  | 3, [seq; n; status; bytes] => Some (LSeal seq n status bytes)
  | 4, seq :: _ => Some (LPush seq)
  | 5, seq :: _ => Some (LTake seq)
  | 6, seq :: n :: _ => Some (LOutBegin seq n)
  | 7, seq :: n :: status :: _ => Some (LOutEnd seq n status)
  | 8, seq :: n :: _ => Some (LCommitBegin seq n)
  | 9, seq :: status :: _ => Some (LCommitEnd seq status)
  | 10, _ => Some LStop
  | 11, _ => Some LTick
  | 12, seq :: t :: _ => Some (LRetryCall seq t)
  | 13, seq :: t :: ok :: _ => Some (LRetryResult seq t (negb (ok =? 0)))
  | 14, seq :: t :: n :: flags :: _ => Some (LRetryGiveUp seq t n (Z.odd flags) (2 <=? flags))
  | 15, [n; bytes; el; tmo] => Some (LNotReady n bytes el tmo)
  | 100, [id; src; sz; k] => Some (LCommitEv {| eid := id; esrc := src; esize := sz; ekind := k |})
  | 101, _ => Some LPanic
  | 102, seq :: ids => Some (LOutSaw seq ids)
  | _, _ => None
  end.

(* an observed entry: batcher index, raw kind, decoded label (None for harness-only kinds 103..105) *)
Record entry := { ebidx : Z; ekind_raw : Z; eargs : list Z; elabel : option label }.

Definition entry_of_sx (s : sx) : option entry :=
  match s with
  | SL (SZ b :: SZ k :: rest) =>
      match zs_of rest with
      | Some a => Some {| ebidx := b; ekind_raw := k; eargs := a; elabel := label_of k a |}
      | None => None
      end
  | _ => None
  end.

Definition cfg_of_sx (atomic : bool) (s : sx) : option (cfg * cfg) :=
  match s with
  | SL [SZ w; SZ cnt; SZ byt; SZ _; SZ rt; SZ retry; SZ dq; SZ dqw; SZ dqc] =>
      Some ({| workers := w; maxCount := cnt; maxBytes := byt; retriable := negb (rt =? 0); retry := retry;
               deadq := negb (dq =? 0); atomic_push := atomic |},
            {| workers := dqw; maxCount := dqc; maxBytes := 0; retriable := false; retry := 0; deadq := false;
               atomic_push := atomic |})
  | _ => None
  end.

(* run the labels of batcher [b] through the LTS; returns the number of accepted entries and the state *)
Fixpoint run_entries (c : cfg) (b : Z) (s : st) (es : list entry) (n : Z) : Z * st * bool :=
  match es with
  | [] => (n, s, true)
  | e :: r =>
      if ebidx e =? b then
        match elabel e with
        | Some l => match step c s l with
                    | Some s' => run_entries c b s' r (n + 1)
                    | None => (n, s, false)
                    end
        | None => run_entries c b s r (n + 1)         (* harness-only entry *)
        end
      else run_entries c b s r (n + 1)
  end.

(* ---- raw-trace monitors: the property's own predicates over what was observed ------------------ *)
Definition kind_is (k : Z) (e : entry) : bool := ekind_raw e =? k.
Definition of_b (b : Z) (es : list entry) : list entry := filter (fun e => ebidx e =? b) es.

Fixpoint mem_z (x : Z) (l : list Z) : bool := match l with [] => false | y :: r => (x =? y) || mem_z x r end.
Fixpoint index_z (x : Z) (l : list Z) (i : Z) : Z := match l with [] => -1 | y :: r => if x =? y then i else index_z x r (i + 1) end.
Fixpoint nodup_z (l : list Z) : bool := match l with [] => true | x :: r => negb (mem_z x r) && nodup_z r end.
Fixpoint increasing (l : list Z) : bool :=
  match l with
  | [] => true
  | x :: r => match r with [] => true | y :: _ => (x <? y) && increasing r end
  end.

Definition ids_of_kind (k : Z) (es : list entry) : list Z :=
  flat_map (fun e => if kind_is k e then match eargs e with id :: _ => [id] | [] => [] end else []) es.

(* M1: no panic, not stuck *)
Definition m_no_panic (es : list entry) : bool := negb (existsb (kind_is 101) es).
Definition m_not_stuck (es : list entry) : bool := negb (existsb (kind_is 103) es).

(* M2: sealed batches respect the limits: count <= maxCount; bytes exceed maxBytes by at most the last event *)
Fixpoint m_bounds_go (c : cfg) (es : list entry) (lastsz : Z) : bool :=
  match es with
  | [] => true
  | e :: r =>
      match ekind_raw e, eargs e with
      | 1, [_; _; sz; _] => m_bounds_go c r sz
      | 3, [_; n; _; bytes] =>
          ((maxCount c =? 0) || (n <=? maxCount c)) &&
          ((maxBytes c =? 0) || (bytes - lastsz <? maxBytes c)) && m_bounds_go c r 0
      | _, _ => m_bounds_go c r lastsz
      end
  end.

(* M3: every committed id was added before, at most once, and commits follow the Add order *)
Definition m_commit_order (es : list entry) : bool :=
  let adds := ids_of_kind 1 es in
  let coms := ids_of_kind 100 es in
  nodup_z coms && forallb (fun id => mem_z id adds) coms && increasing (map (fun id => index_z id adds 0) coms).

(* M4: an iterable committed event was yielded to OutFn in a batch whose OutFn had already returned *)
Fixpoint m_sent_go (es : list entry) (insend : list (Z * list Z)) (done : list Z) : bool :=
  match es with
  | [] => true
  | e :: r =>
      match ekind_raw e, eargs e with
      | 102, seq :: ids => m_sent_go r ((seq, ids) :: insend) done
      | 7, seq :: _ =>
          let ids := flat_map (fun p => if fst p =? seq then snd p else []) insend in
          m_sent_go r insend (ids ++ done)
      | 100, [id; _; _; k] => ((k =? 2) || mem_z id done) && m_sent_go r insend done
      | _, _ => m_sent_go r insend done
      end
  end.

(* M5: commit notifications only happen inside a commit section, and sections do not overlap:
       begin(seq) ... commits ... end(seq), with seq increasing by one from 0 *)
Fixpoint m_sections_go (es : list entry) (next : Z) (open_ : bool) : bool :=
  match es with
  | [] => true
  | e :: r =>
      match ekind_raw e, eargs e with
      | 8, seq :: _ => negb open_ && (seq =? next) && m_sections_go r next true
      | 9, seq :: _ => open_ && (seq =? next) && m_sections_go r (next + 1) false
      | 100, _ => open_ && m_sections_go r next open_
      | _, _ => m_sections_go r next open_
      end
  end.

Definition c08_monitor (c : cfg) (quiescent : bool) (es0 : list entry) : bool :=
  let es := of_b 0 es0 in
  m_no_panic es && m_not_stuck es && m_bounds_go c es 0 && m_commit_order es && m_sent_go es [] [] &&
  m_sections_go es 0 false &&
  (negb quiescent || (Z.of_nat (length (ids_of_kind 100 es)) =? Z.of_nat (length (ids_of_kind 1 es)))).

Definition summary (n : Z) (s : st) (ok : bool) : sx :=
  SL [of_bool ok; SZ n; SZ (outSeq s); SZ (commitSeq s); of_nat (length (committed s)); of_bool (crashed s)].

(* C08: case = (cfg adders plan (stopmode arg)); obs = (entry ...) *)
Definition c08_run (atomic : bool) (case obs : sx) : verdict :=
  match case, as_list entry_of_sx obs with
  | SL [cs; _; _; SL [SZ mode; _]], Some es =>
      match cfg_of_sx atomic cs with
      | Some (c, _) =>
          let '(n, s, ok) := run_entries c 0 (init c) es 0 in
          let m := summary n s ok in
          if c08_monitor c (mode =? 0) es then (if ok then Agree else Differ m) else Violates m
      | None => BadCase
      end
  | _, _ => BadCase
  end.

Definition c08_entry_with (atomic : bool) (which : Z) (case obs : sx) : verdict := c08_run atomic case obs.

(* ---- C09: retriable main batcher (bidx 0) + optional dead-queue batcher (bidx 1) --------------- *)
Definition args_of_kind (k : Z) (es : list entry) : list (list Z) :=
  flat_map (fun e => if kind_is k e then [eargs e] else []) es.

Definition count_where {A} (f : A -> bool) (l : list A) : Z := Z.of_nat (length (filter f l)).

(* R1: a give-up without backoff.Stop happens only with numTries > AttemptNum >= 0, after at least
       numTries+1 failed calls of that batch *)
Definition m_retries (c : cfg) (es : list entry) : bool :=
  forallb (fun a => match a with
                    | seq :: t :: _ :: flags :: _ =>
                        (2 <=? flags) ||
                        ((0 <=? retry c) && (retry c <? t) &&
                         (t + 1 <=? count_where (fun r => match r with s :: _ :: ok :: _ => (s =? seq) && (ok =? 0) | _ => false end)
                                                (args_of_kind 13 es)))
                    | _ => false
                    end) (args_of_kind 14 es).

(* R2: a batch that went through the retry frame enters its commit section only after a successful
       call or a give-up *)
Fixpoint m_commit_after_retry_go (es : list entry) (settled : list Z) (entered : list Z) : bool :=
  match es with
  | [] => true
  | e :: r =>
      match ekind_raw e, eargs e with
      | 12, seq :: _ => m_commit_after_retry_go r settled (seq :: entered)
      | 13, seq :: _ :: ok :: _ => m_commit_after_retry_go r (if ok =? 0 then settled else seq :: settled) entered
      | 14, seq :: _ => m_commit_after_retry_go r (seq :: settled) entered
      | 8, seq :: _ => (negb (mem_z seq entered) || mem_z seq settled) && m_commit_after_retry_go r settled entered
      | _, _ => m_commit_after_retry_go r settled entered
      end
  end.

(* content of every sealed batch (all events, child-parent ones included): the Add labels since the previous Seal *)
Fixpoint batches_go (es : list entry) (cur : list Z) (acc : list (Z * list Z)) : list (Z * list Z) :=
  match es with
  | [] => rev acc
  | e :: r =>
      match ekind_raw e, eargs e with
      | 1, id :: _ => batches_go r (id :: cur) acc
      | 3, seq :: _ => batches_go r [] ((seq, rev cur) :: acc)
      | _, _ => batches_go r cur acc
      end
  end.

(* events (ids) of given-up batches: everything onRetryError receives *)
Definition failed_ids (es : list entry) : list Z :=
  let bs := batches_go es [] [] in
  flat_map (fun a => match a with
                     | seq :: _ =>
                         match find (fun b => fst b =? seq) bs with
                         | Some b => snd b
                         | None => []
                         end
                     | [] => []
                     end) (args_of_kind 14 es).

Fixpoint count_z (x : Z) (l : list Z) : Z := match l with [] => 0 | y :: r => (if x =? y then 1 else 0) + count_z x r end.

Definition c09_monitor (c : cfg) (quiescent : bool) (es0 : list entry) : bool :=
  let m := of_b 0 es0 in
  let d := of_b 1 es0 in
  let failed := failed_ids m in
  let give_ups := args_of_kind 14 m in
  m_no_panic es0 && m_not_stuck es0 && m_retries c m && m_commit_after_retry_go m [] [] &&
  nodup_z (map (fun a => match a with s :: _ => s | [] => -1 end) give_ups) &&
  (* reported once through the error callback per given-up batch *)
  (Z.of_nat (length (args_of_kind 104 m)) =? Z.of_nat (length give_ups)) &&
  m_sections_go m 0 false && m_sent_go m [] [] && nodup_z (ids_of_kind 100 m) &&
  (if deadq c then
     (* each event of a given-up batch handed exactly once to the dead queue, never committed by main *)
     forallb (fun id => (count_z id (ids_of_kind 105 d) =? 1) && negb (mem_z id (ids_of_kind 100 m))) failed &&
     forallb (fun id => mem_z id failed) (ids_of_kind 105 d) &&
     m_sections_go d 0 false && m_sent_go d [] [] && nodup_z (ids_of_kind 100 d) &&
     (negb quiescent || forallb (fun id => count_z id (ids_of_kind 100 d) =? 1) failed)
   else
     negb (existsb (kind_is 105) es0) &&
     (negb quiescent || forallb (fun id => count_z id (ids_of_kind 100 m) =? 1) failed)) &&
  (* every added event is committed exactly once by exactly one of the two at quiescence *)
  (negb quiescent ||
   forallb (fun id => count_z id (ids_of_kind 100 m) + count_z id (ids_of_kind 100 d) =? 1) (ids_of_kind 1 m)).

Definition c09_run (atomic : bool) (case obs : sx) : verdict :=
  match case, as_list entry_of_sx obs with
  | SL [cs; _; _; SL [SZ mode; _]], Some es =>
      match cfg_of_sx atomic cs with
      | Some (c, cd) =>
          let '(n, s, ok) := run_entries c 0 (init c) es 0 in
          let '(n2, s2, ok2) := run_entries cd 1 (init cd) es 0 in
          let m := SL [summary n s ok; summary n2 s2 ok2] in
          if c09_monitor c (mode =? 0) es then (if ok && ok2 then Agree else Differ m) else Violates m
      | None => BadCase
      end
  | _, _ => BadCase
  end.
