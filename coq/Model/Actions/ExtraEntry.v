(* C13 runner glue of the tree-level sub-models 42..49 (models: Model/Actions/ExtraPlugins.v).
   The case carries the action's config JSON and the event tree(s); the observation carries what the
   collector's own helpers made of the config and the answers of library code (oracle part), and per Do
       out = (0 (result tree)) | (2) panic | (4 #why) the event is no finite, re-parsing document any more
     42 rename            case (#cfg tree)             obs (preserve ((#key #name) ...) ((#selector (#seg ...)) ...) out)
                                                       the configuration's pairs without override, and cfg.ParseFieldSelector of every
                                                       unescaped non-empty key (the model does the unescaping and the dropping itself)
     43 move              case (#cfg tree)             obs (block (#seg ...) ((#seg ...) ...) out)
                                                       block mode: the fields are the one-key selectors of the block list
     44 flatten           case (#cfg tree)             obs ((#seg ...) #prefix out)
     45 json_encode       case (#cfg tree)             obs ((#seg ...) #encoded-node out)
     46 json_decode       case (#cfg tree)             obs ((#seg ...) #prefix doc out)        doc = (0) error | (1 tree)
     47 convert_log_level case (#cfg tree)             obs ((#seg ...) string-style #default remove-on-fail ((#text #normalised) ...) out)
     48 one-step plugins  case (tag #cfg tree #source-name)
          tag 0 set_time      obs (#field override #format value out)     value = (0) | (1 node): what stands at the field afterwards
          tag 1 add_host      obs (#field #hostname out)
          tag 2 add_file_name obs ((#seg ...) out)
          tag 3 convert_date  obs ((#seg ...) remove-on-fail (entry ...) out)   entry = (0) ParseTime failed | (1 node) per source format
          tag 4 discard, 5 debug   obs (out)
     49 ONE instance over a sequence of events   case (tag #cfg (ev ...))   ev = 0 (time-out) | tree
          tag 0 parse_es      obs ((out ...))
          tag 1 cardinality   obs (((#name (#seg ...)) ...) ((#name (#seg ...)) ...) limit action (out ...))   action 0 nothing | 1 discard | 2 remove_fields
   A panic, a broken event, an undefined ActionResult or an ill-formed tree observed = Violates whatever
   the model says; any other difference = Differ.  No proofs here. *)
From Verif Require Import Base.Sx Base.GoSem Base.Json Model.Decoders.Common
  Model.Actions.Tree Model.Actions.ExtraTree Model.Actions.ExtraPlugins.

Definition is_bad_out (o : sx) : bool :=
  match o with SL (SZ 2 :: _) => true | SL (SZ 4 :: _) => true | _ => false end.

(* the property's own predicate on what one Do left: a defined result and a well-formed tree *)
Definition out_ok (o : sx) : bool :=
  match o with
  | SL [SZ 0; SL [SZ a; t]] =>
      result_defined a && match json_of_sx t with Some j => wf_json j | None => false end
  | _ => false
  end.

Definition sx_do (r : res (Z * json)) : sx :=
  match r with
  | Ok (a, t) => SL [SZ 0; SL [SZ a; sx_of_json t]]
  | Err _ => SL [SZ 4]
  | Panic _ => SL [SZ 2]
  end.

Definition do_verdict (model out : sx) : verdict :=
  if is_bad_out out || negb (out_ok out) then Violates model
  else if sx_eqb model out then Agree else Differ model.

Fixpoint seq_verdict (models outs : list sx) : verdict :=
  match models, outs with
  | [], [] => Agree
  | m :: ms, o :: os => match do_verdict m o with Agree => seq_verdict ms os | v => v end
  | _, _ => BadCase
  end.

Definition as_xpath (s : sx) : option (list bytes) := as_list as_B s.

Definition as_sel_entry (s : sx) : option (bytes * list bytes) :=
  match s with
  | SL [SB k; p] => match as_xpath p with Some p => Some (k, p) | None => None end
  | _ => None
  end.
(* the selector oracle as a table; a key the table does not list parses to the empty path *)
Fixpoint table_sel (t : list (bytes * list bytes)) (k : bytes) : list bytes :=
  match t with
  | [] => []
  | (a, p) :: r => if bytes_eqb a k then p else table_sel r k
  end.

Definition rename_run (case obs : sx) : verdict :=
  match case, obs with
  | SL [SB _; t], SL [pr; pairs; tb; out] =>
      match json_of_sx t, as_bool pr, as_list (fun s => match s with SL [SB a; SB b] => Some (a, b) | _ => None end) pairs,
            as_list as_sel_entry tb with
      | Some root, Some preserve, Some cfg, Some table =>
          do_verdict (sx_do (rename_cfg_do (table_sel table) preserve cfg root)) out
      | _, _, _, _ => BadCase
      end
  | _, _ => BadCase
  end.

Definition single_key (p : list bytes) : option bytes := match p with [k] => Some k | _ => None end.

Definition move_run (case obs : sx) : verdict :=
  match case, obs with
  | SL [SB _; t], SL [b; tp; fs; out] =>
      match json_of_sx t, as_bool b, as_xpath tp, as_list as_xpath fs with
      | Some root, Some block, Some target, Some fields =>
          if block then
            match single_key target, opt_map single_key fields with
            | Some tk, Some blocked => do_verdict (sx_do (move_block_do tk blocked root)) out
            | _, _ => BadCase
            end
          else
            match target with
            | [] => BadCase
            | _ :: _ => if forallb (fun f => negb (len f =? 0)) fields
                        then do_verdict (sx_do (move_allow_do target fields root)) out else BadCase
            end
      | _, _, _, _ => BadCase
      end
  | _, _ => BadCase
  end.

Definition flatten_run (case obs : sx) : verdict :=
  match case, obs with
  | SL [SB _; t], SL [p; SB prefix; out] =>
      match json_of_sx t, as_xpath p with
      | Some root, Some path => do_verdict (sx_do (flatten_do path prefix root)) out
      | _, _ => BadCase
      end
  | _, _ => BadCase
  end.

Definition json_encode_run (case obs : sx) : verdict :=
  match case, obs with
  | SL [SB _; t], SL [p; SB enc; out] =>
      match json_of_sx t, as_xpath p with
      | Some root, Some path => do_verdict (sx_do (json_encode_do path enc root)) out
      | _, _ => BadCase
      end
  | _, _ => BadCase
  end.

(* (0) | (1 tree) *)
Definition as_opt_json (s : sx) : option (option json) :=
  match s with
  | SL [SZ 0] => Some None
  | SL [SZ 1; t] => match json_of_sx t with Some j => Some (Some j) | None => None end
  | _ => None
  end.

Definition json_decode_run (case obs : sx) : verdict :=
  match case, obs with
  | SL [SB _; t], SL [p; SB prefix; d; out] =>
      match json_of_sx t, as_xpath p, as_opt_json d with
      | Some root, Some path, Some doc => do_verdict (sx_do (json_decode_do path prefix doc root)) out
      | _, _, _ => BadCase
      end
  | _, _ => BadCase
  end.

Definition as_pair_B (s : sx) : option (bytes * bytes) :=
  match s with SL [SB a; SB b] => Some (a, b) | _ => None end.
Fixpoint table_norm (t : list (bytes * bytes)) (s : bytes) : bytes :=
  match t with
  | [] => s
  | (a, b) :: r => if bytes_eqb a s then b else table_norm r s
  end.

Definition log_level_run (case obs : sx) : verdict :=
  match case, obs with
  | SL [SB _; t], SL [p; st; SB default; rof; nt; out] =>
      match json_of_sx t, as_xpath p, as_bool st, as_bool rof, as_list as_pair_B nt with
      | Some root, Some path, Some style_string, Some remove_on_fail, Some table =>
          do_verdict (sx_do (convert_log_level_do (table_norm table) path style_string default remove_on_fail root)) out
      | _, _, _, _, _ => BadCase
      end
  | _, _ => BadCase
  end.

Definition one_run (case obs : sx) : verdict :=
  match case with
  | SL [SZ tag; SB _; t; SB source] =>
      match json_of_sx t with
      | None => BadCase
      | Some root =>
          match tag, obs with
          | 0, SL [SB field; ov; SB _; v; out] =>
              match as_bool ov, as_opt_json v with
              | Some override, Some value =>
                  do_verdict (sx_do (set_time_do field override (match value with Some j => j | None => JNull end) root)) out
              | _, _ => BadCase
              end
          | 1, SL [SB field; SB host; out] => do_verdict (sx_do (add_host_do field host root)) out
          | 2, SL [p; out] =>
              match as_xpath p with
              | Some path => do_verdict (sx_do (add_file_name_do path source root)) out
              | None => BadCase
              end
          | 3, SL [p; rof; tb; out] =>
              match as_xpath p, as_bool rof, as_list as_opt_json tb with
              | Some path, Some remove_on_fail, Some table =>
                  do_verdict (sx_do (convert_date_do path remove_on_fail table root)) out
              | _, _, _ => BadCase
              end
          | 4, SL [out] => do_verdict (sx_do (discard_do root)) out
          | 5, SL [out] => do_verdict (sx_do (debug_do root)) out
          | _, _ => BadCase
          end
      end
  | _ => BadCase
  end.

(* 0 = time-out, else a tree *)
Definition as_event (s : sx) : option (option json) :=
  match s with
  | SZ 0 => Some None
  | _ => match json_of_sx s with Some j => Some (Some j) | None => None end
  end.

Definition as_card_field (s : sx) : option (bytes * list bytes) :=
  match s with
  | SL [SB name; p] => match as_xpath p with Some p => Some (name, p) | None => None end
  | _ => None
  end.

Fixpoint all_some {A} (l : list (option A)) : option (list A) :=
  match l with
  | [] => Some []
  | Some x :: r => match all_some r with Some xs => Some (x :: xs) | None => None end
  | None :: _ => None
  end.

Definition seq_run (case obs : sx) : verdict :=
  match case with
  | SL [SZ tag; SB _; SL evs] =>
      match opt_map as_event evs with
      | None => BadCase
      | Some evs =>
          match tag, obs with
          | 0, SL [SL outs] =>
              match parse_es_run (false, false) evs with
              | Ok (rs, _) =>
                  seq_verdict (map (fun re => sx_do (Ok (fst re, match snd re with Some j => j | None => JNull end)))
                                   (combine rs evs)) outs
              | _ => seq_verdict (map (fun _ => SL [SZ 2]) evs) outs
              end
          | 1, SL [ks; fs; SZ limit; SZ action; SL outs] =>
              match as_list as_card_field ks, as_list as_card_field fs, all_some evs with
              | Some keys, Some fields, Some trees =>
                  match card_run keys fields limit action [] trees with
                  | Ok ms => seq_verdict (map (fun m => sx_do (Ok m)) ms) outs
                  | _ => BadCase
                  end
              | _, _, _ => BadCase
              end
          | _, _ => BadCase
          end
      end
  | _ => BadCase
  end.

Definition c13_extra_entry (which : Z) (case obs : sx) : verdict :=
  match which with
  | 42 => rename_run case obs
  | 43 => move_run case obs
  | 44 => flatten_run case obs
  | 45 => json_encode_run case obs
  | 46 => json_decode_run case obs
  | 47 => log_level_run case obs
  | 48 => one_run case obs
  | 49 => seq_run case obs
  | _ => BadCase
  end.
