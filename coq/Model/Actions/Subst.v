(* cfg/substitution/{cut,trim_to,trim,regex}_filter.go — the field filters of the modify action,
   line for line, in the result monad of Base/GoSem.v (an out-of-range slice / index is Panic).
   No proofs here. *)
From Verif Require Import Base.Sx Base.GoSem Model.Decoders.Common.

(* ---- cut(mode, count):  CutFilter.Apply ------------------------------------------------------
     if len(src) < f.count { return src }
     first: src[:f.count]      last: src[len(src)-f.count:]                                       *)
Definition cut_apply (first : bool) (count : Z) (src : bytes) : res bytes :=
  if len src <? count then Ok src
  else if first then slice_to src count
  else slice_from src (len src - count).

(* ---- bytes.LastIndex(s, sep): last position of sep or -1; the empty sep is found at len(s) ---- *)
Fixpoint last_index_sub_from (l needle : bytes) (i best : Z) : Z :=
  match l with
  | [] => if has_prefix [] needle then i else best
  | _ :: r => last_index_sub_from r needle (i + 1) (if has_prefix l needle then i else best)
  end.
Definition last_index_sub (l needle : bytes) : Z := last_index_sub_from l needle 0 (-1).

(* ---- trim_to(mode, cutset):  TrimToFilter.Apply ----------------------------------------------
     mode 0 all | 1 left | 2 right
     if all||left  { if idx := bytes.Index(src, cutset); idx != -1 { src = src[idx:] } }
     if all||right { if idx := bytes.LastIndex(src, cutset); idx != -1 { src = src[:idx+1] } }    *)
Definition trim_to_apply (mode : Z) (cutset src : bytes) : res bytes :=
  src1 <- (if (mode =? 0) || (mode =? 1) then
             let i := index_sub src cutset in
             if i =? -1 then Ok src else slice_from src i
           else Ok src) ;;
  if (mode =? 0) || (mode =? 2) then
    let i := last_index_sub src1 cutset in
    if i =? -1 then Ok src1 else slice_to src1 (i + 1)
  else Ok src1.

(* ---- trim(mode, cutset): bytes.Trim / TrimLeft / TrimRight for an ASCII cutset ---------------- *)
Fixpoint drop_while_in (cs l : bytes) : bytes :=
  match l with [] => [] | x :: r => if mem_byte x cs then drop_while_in cs r else l end.
Definition trim_apply (mode : Z) (cutset src : bytes) : bytes :=
  let l := if mode =? 2 then src else drop_while_in cutset src in
  if mode =? 1 then l else rev' (drop_while_in cutset (rev' l)).

(* ---- re(regex, limit, groups, separator[, emptyOnNotMatched]):  RegexFilter.Apply -------------
   [indexes] is what Regexp.FindAllSubmatchIndex(src, limit) answered (the oracle);
   each element is [s0 e0 s1 e1 ...].
     if len(groups) == 0 { return dst }
     if len(indexes) == 0 { if emptyOnNotMatched { return empty }; return dst }
     for index in indexes, grp in groups:
        start := index[grp*2]; end := index[grp*2+1]
        if start == -1 || end == -1 { continue }
        if len(separator) > 0 && len(buf) != 0 { buf += separator }
        buf += src[start:end]
   [acc] holds the chunks of buf in reverse order, [ne] = (len(buf) != 0).                          *)
Fixpoint re_groups (src separator : bytes) (index groups : list Z) (acc : list bytes) (ne : bool)
  : res (list bytes * bool) :=
  match groups with
  | [] => Ok (acc, ne)
  | g :: gs =>
      st <- idx index (g * 2) ;;
      en <- idx index (g * 2 + 1) ;;
      if (st =? -1) || (en =? -1) then re_groups src separator index gs acc ne
      else
        chunk <- slice src st en ;;
        let acc1 := if (0 <? len separator) && ne then separator :: acc else acc in
        re_groups src separator index gs (chunk :: acc1) (ne || (0 <? len chunk))
  end.

Fixpoint re_matches (src separator : bytes) (indexes : list (list Z)) (groups : list Z)
  (acc : list bytes) (ne : bool) : res (list bytes * bool) :=
  match indexes with
  | [] => Ok (acc, ne)
  | index :: rest =>
      ' (acc1, ne1) <- re_groups src separator index groups acc ne ;;
      re_matches src separator rest groups acc1 ne1
  end.

Definition re_apply (groups : list Z) (separator : bytes) (empty_on_not_matched : bool)
  (indexes : list (list Z)) (src dst : bytes) : res bytes :=
  match groups with
  | [] => Ok dst
  | _ :: _ =>
      match indexes with
      | [] => if empty_on_not_matched then Ok [] else Ok dst
      | _ :: _ =>
          ' (acc, _) <- re_matches src separator indexes groups [] false ;;
          Ok (concat (rev' acc))
      end
  end.

(* what the regexp oracle promises: every match has 2*(n+1) entries, every pair is (-1,-1) or a
   range inside src *)
Fixpoint pairs_ok (srclen : Z) (index : list Z) : bool :=
  match index with
  | [] => true
  | s :: e :: r => (((s =? -1) && (e =? -1)) || ((0 <=? s) && (s <=? e) && (e <=? srclen))) && pairs_ok srclen r
  | _ => false
  end.
Definition index_ok (nsub srclen : Z) (index : list Z) : bool :=
  (len index =? 2 * (nsub + 1)) && pairs_ok srclen index.
Definition groups_ok (nsub : Z) (groups : list Z) : bool :=
  forallb (fun g => (0 <=? g) && (g <=? nsub)) groups.
