(* Additional value-level tree operations used by the models of Model/Actions/ExtraPlugins.v
   (rename, move, flatten, json_encode, json_decode, convert_log_level, set_time, convert_date,
   parse_es, add_host, add_file_name, discard, debug, cardinality), over the trees of Base/Json.v
   and next to Model/Actions/Tree.v.  insane-json is third-party: these are oracle models, compared
   with the real library by the tree-level differential streams 42..49.  No proofs here. *)
From Verif Require Import Base.Sx Base.GoSem Base.Json Model.Decoders.Common Model.Actions.Tree.

(* what  curr = curr.AddFieldNoAlloc(root, p); if !curr.IsObject() { curr.MutateToObject() }  leaves
   at the end of a path: the object that was there, else a new empty one *)
Definition coerce_obj (o : option json) : json :=
  match o with Some (JObj s) => JObj s | _ => JObj [] end.

(* pipeline.CreateNestedField(root, path) WITHOUT a later Mutate of the node it returns: every node
   on the path becomes an object, an object that is there already keeps its fields.  The root is
   never touched for the empty path, and nothing happens when the root is not an object. *)
Definition ensure_nested (j : json) (path : list bytes) : json :=
  match path with
  | [] => j
  | _ :: _ => create_nested j path (coerce_obj (dig j path))
  end.

(* obj.AddFieldNoAlloc(root, k).MutateToNode(v) on the object node [t] *)
Definition obj_set (k : bytes) (v : json) (t : json) : json :=
  match t with JObj fs => JObj (set_field fs k v) | _ => t end.

Definition is_object (j : json) : bool := match j with JObj _ => true | _ => false end.

Definition is_some {A} (o : option A) : bool := match o with Some _ => true | None => false end.

Fixpoint path_eqb (a b : list bytes) : bool :=
  match a, b with
  | [], [] => true
  | x :: a', y :: b' => key_eqb x y && path_eqb a' b'
  | _, _ => false
  end.

(* a is a PROPER prefix of b *)
Fixpoint path_proper_prefix (a b : list bytes) : bool :=
  match a, b with
  | [], _ :: _ => true
  | x :: a', y :: b' => key_eqb x y && path_proper_prefix a' b'
  | _, _ => false
  end.

Fixpoint mem_key (k : bytes) (l : list bytes) : bool :=
  match l with [] => false | x :: r => key_eqb x k || mem_key k r end.

(* the keys of an object get a prefix (MutateToField(prefix + name) for every field) *)
Definition prefix_fields (prefix : bytes) (fs : list (bytes * json)) : list (bytes * json) :=
  map (fun kv => (prefix ++ fst kv, snd kv)) fs.

(* ---- the loop of move's block mode ----------------------------------------------------------------
     for _, node := range event.Root.AsFields() { value := node.AsFieldValue(); if value == targetNode {continue}
        name := node.AsString(); if _, ok := blockFields[name]; !ok { value.Suicide(); target.AddFieldNoAlloc(root, name).MutateToNode(value) } }
   The range expression is evaluated once: the loop visits the ORIGINAL fields in their original
   order (a Suicide only ever writes a slot at or below the one being visited and the slots above
   stay what they were), while the live field list shrinks by swap-remove.  Fields are tagged with
   their original position so that the live position of the visited field can be found
   (Suicide -> findSelf). *)
Definition tagged (fs : list (bytes * json)) : list (nat * (bytes * json)) :=
  combine (seq 0 (length fs)) fs.

Fixpoint pos_of_id (l : list (nat * (bytes * json))) (id : nat) (i : nat) : option nat :=
  match l with
  | [] => None
  | (id', _) :: r => if Nat.eqb id' id then Some i else pos_of_id r id (S i)
  end.

Fixpoint block_loop (blocked : list bytes) (tid : nat) (visit : list (nat * (bytes * json)))
  (cur : list (nat * (bytes * json))) (tfs : list (bytes * json))
  : list (nat * (bytes * json)) * list (bytes * json) :=
  match visit with
  | [] => (cur, tfs)
  | (id, (k, v)) :: rest =>
      if Nat.eqb id tid || mem_key k blocked then block_loop blocked tid rest cur tfs
      else match pos_of_id cur id 0 with
           | Some p => block_loop blocked tid rest (swap_remove cur p) (set_field tfs k v)
           | None => block_loop blocked tid rest cur tfs
           end
  end.

(* the root's fields afterwards: the live list, the target's value replaced by what it has become *)
Definition untag (tid : nat) (tfs : list (bytes * json)) (cur : list (nat * (bytes * json)))
  : list (bytes * json) :=
  map (fun e => if Nat.eqb (fst e) tid then (fst (snd e), JObj tfs) else snd e) cur.

(* ---- strings ---------------------------------------------------------------------------------- *)
Fixpoint mem_bytes (k : bytes) (l : list bytes) : bool :=
  match l with [] => false | x :: r => bytes_eqb x k || mem_bytes k r end.
