(* C13 sub-model 53: the per-processor instances of ONE action, run concurrently.
   The pipeline starts one instance of every action per processor goroutine, all from one config object, one
   pipeline name and one action index; whatever a plugin keeps per pipeline (package-level caches, objects hung
   on the shared config) is therefore SHARED between goroutines that call Do at the same time.
     case ((plugin ...) mode ((rounds chunk (ev ...)) ...))     one event stream per instance (K = number of streams)
     obs  ((conc ...) (solo ...))                                one record list per stream on either side
          conc: what instance i did while all K instances ran on K goroutines
          solo: what a FRESH instance did on the same event sequence alone
          record (0 n #digest)   n output events of one chunk of rounds and the digest of their encodings
                 (code #detail)  code = 2..6: a panic / Fatal / broken event inside Do (runner.go's codes)
     mode 0: Do is a function of the instance's own history: conc must EQUAL solo
     mode 1: the plugin shares state between its instances on purpose (throttle limiters, cardinality cache):
             only "no violation record, every chunk of every stream accounted for" is required
   The predicate procs_ok is the property clause "no panic, no corrupted event" read per processor.  No proofs here. *)
From Verif Require Import Base.Sx.

Definition rec_ok (r : sx) : bool :=
  match r with SL [SZ 0; SZ _; SB _] => true | _ => false end.
Definition stream_ok (s : sx) : bool :=
  match s with SL l => forallb rec_ok l | _ => false end.
Definition side_ok (k : nat) (s : sx) : bool :=
  match s with SL l => Nat.eqb (length l) k && forallb stream_ok l | _ => false end.

Definition stream_len (s : sx) : nat := match s with SL l => length l | _ => O end.
Fixpoint same_lens (a b : list sx) : bool :=
  match a, b with
  | [], [] => true
  | x :: a', y :: b' => Nat.eqb (stream_len x) (stream_len y) && same_lens a' b'
  | _, _ => false
  end.
Definition sides_same_lens (a b : sx) : bool :=
  match a, b with SL x, SL y => same_lens x y | _, _ => false end.

Definition procs_ok (mode : Z) (k : nat) (obs : sx) : bool :=
  match obs with
  | SL [conc; solo] =>
      side_ok k conc && side_ok k solo &&
      (if mode =? 0 then sx_eqb conc solo else sides_same_lens conc solo)
  | _ => false
  end.

Definition procs_model (obs : sx) : sx :=
  match obs with SL [_; solo] => SL [solo; solo] | _ => SL [] end.

Definition procs_run (case obs : sx) : verdict :=
  match case with
  | SL [SL _; SZ mode; SL streams] =>
      if (2 <=? Z.of_nat (length streams)) && ((mode =? 0) || (mode =? 1)) then
        if procs_ok mode (length streams) obs then Agree else Violates (procs_model obs)
      else BadCase
  | _ => BadCase
  end.

Definition c13_procs_entry (which : Z) (case obs : sx) : verdict :=
  match which with 53 => procs_run case obs | _ => BadCase end.
