(* plugin/action/join_template/template/{common,cs_exception,go_panic,go_data_race}.go and
   plugin/action/join_template/ascii/ascii.go — the hand-written replacements of the join templates' regular
   expressions, line for line, in the result monad of Base/GoSem.v: every s[i] is [idx], every s[a:b] is [slice]
   (out of range = Panic), every backwards loop runs on explicit fuel (exhausted = Panic 4, excluded by the
   theorems of Proofs/Actions/Templates.v).  join_template.Do hands the event's field to these functions on the
   processor goroutine for every event (firstCheck / nextCheck of join.Do).
   cfg.ParseFieldSelector (cfg/config.go), which every action's Start runs over its field options, is modelled the
   same way at the end.  No proofs here. *)
From Verif Require Import Base.Sx Base.GoSem Model.Decoders.Common.

(* ---- ascii.go ---------------------------------------------------------------------------------- *)
Definition a_is_space (c : byte) : bool := beq c 32%N || beq c 10%N || beq c 9%N.
Definition a_is_digit (c : byte) : bool := (48 <=? c)%N && (c <=? 57)%N.
Definition a_is_lower (c : byte) : bool := (97 <=? c)%N && (c <=? 122)%N.
Definition a_is_upper (c : byte) : bool := (65 <=? c)%N && (c <=? 90)%N.
Definition a_is_letter (c : byte) : bool := a_is_lower c || a_is_upper c.
Definition a_is_lu (c : byte) : bool := a_is_letter c || beq c 95%N.
Definition a_is_lud (c : byte) : bool := a_is_lu c || a_is_digit c.
Definition a_is_hex (c : byte) : bool := a_is_digit c || ((97 <=? c)%N && (c <=? 102)%N).
Definition a_to_lower (c : byte) : byte := if a_is_upper c then (c + 32)%N else c.

(* a || b of two checks, b evaluated only when a is false *)
Definition orelse (a b : res bool) : res bool := x <- a ;; if x then Ok true else b.

(* ---- common.go --------------------------------------------------------------------------------- *)
Fixpoint first_non_space_from (l : bytes) (i : Z) : Z :=
  match l with
  | [] => -1
  | c :: r => if a_is_space c then first_non_space_from r (i + 1) else i
  end.
Definition first_non_space (l : bytes) : Z := first_non_space_from l 0.
Definition only_spaces (l : bytes) : bool := first_non_space l =? -1.
Definition only_digits (l : bytes) : bool := forallb a_is_digit l.

(* ---- cs_exception.go --------------------------------------------------------------------------- *)
Definition start_substr : bytes := [117%N; 110%N; 104%N; 97%N; 110%N; 100%N; 108%N; 101%N; 100%N; 32%N; 101%N; 120%N; 99%N; 101%N; 112%N; 116%N; 105%N; 111%N; 110%N] (* "unhandled exception" *).
Definition at_substr : bytes := [97%N; 116%N] (* "at" *).
Definition arrow_substr : bytes := [45%N; 45%N; 45%N; 62%N] (* "--->" *).
Definition end_of_substr : bytes := [45%N; 45%N; 45%N; 32%N; 69%N; 110%N; 100%N; 32%N; 111%N; 102%N] (* "--- End of" *).
Definition exception_substr : bytes := [69%N; 120%N; 99%N; 101%N; 112%N; 116%N; 105%N; 111%N; 110%N; 58%N] (* "Exception:" *).

(* equalCaseInsensitive: if len(a) != len(b) false; for i, c := range a { if lower(c) != lower(b[i]) false }; true *)
Fixpoint eq_ci_from (a b : bytes) (i : Z) : res bool :=
  match a with
  | [] => Ok true
  | c :: r => bi <- idx b i ;;
              if beq (a_to_lower c) (a_to_lower bi) then eq_ci_from r b (i + 1) else Ok false
  end.
Definition equal_ci (a b : bytes) : res bool :=
  if negb (len a =? len b) then Ok false else eq_ci_from a b 0.

(* the shape shared by sharpStartCheck and containsEndOf:
     i := firstNonSpaceIndex(s); if i == -1 false; s = s[i:]; if len(s) < len(sub) false; s = s[:len(sub)];
     return equalCaseInsensitive(s, sub) *)
Definition ci_prefix_after_spaces (sub s : bytes) : res bool :=
  let i := first_non_space s in
  if i =? -1 then Ok false else
  s1 <- slice_from s i ;;
  if len s1 <? len sub then Ok false else
  s2 <- slice_to s1 (len sub) ;;
  equal_ci s2 sub.

Definition sharp_start (s : bytes) : res bool := ci_prefix_after_spaces start_substr s.
Definition contains_end_of (s : bytes) : res bool := ci_prefix_after_spaces end_of_substr s.

(* containsAt: s = s[i:]; if !HasPrefix(s, "at") false; s = s[len("at"):]; if s == "" false; return IsSpace(s[0]) *)
Definition contains_at (s : bytes) : res bool :=
  let i := first_non_space s in
  if i =? -1 then Ok false else
  s1 <- slice_from s i ;;
  if negb (has_prefix s1 at_substr) then Ok false else
  s2 <- slice_from s1 (len at_substr) ;;
  if len s2 =? 0 then Ok false else
  c <- idx s2 0 ;; Ok (a_is_space c).

Definition contains_arrow (s : bytes) : res bool :=
  let i := first_non_space s in
  if i =? -1 then Ok false else
  s1 <- slice_from s i ;; Ok (has_prefix s1 arrow_substr).

(* containsException: i := Index(s, "Exception:"); if i < 1 false; i--;
     if s[i] == '.' { return i > 0 && IsLetterOrUnderscoreOrDigit(s[i-1]) }; return IsLetterOrUnderscoreOrDigit(s[i]) *)
Definition contains_exception (s : bytes) : res bool :=
  let i := index_sub s exception_substr in
  if i <? 1 then Ok false else
  let i := i - 1 in
  c <- idx s i ;;
  if beq c 46%N then
    (if 0 <? i then (c2 <- idx s (i - 1) ;; Ok (a_is_lud c2)) else Ok false)
  else Ok (a_is_lud c).

Definition sharp_continue (s : bytes) : res bool :=
  orelse (contains_at s) (orelse (contains_arrow s) (orelse (contains_end_of s) (contains_exception s))).

(* ---- go_panic.go ------------------------------------------------------------------------------- *)
Definition goroutine_prefix : bytes := [103%N; 111%N; 114%N; 111%N; 117%N; 116%N; 105%N; 110%N; 101%N; 32%N] (* "goroutine " *).
Definition goroutine_suffix : bytes := [32%N; 91%N] (* " [" *).
Definition line_number_part : bytes := [46%N; 103%N; 111%N; 58%N] (* ".go:" *).
Definition panic_part1 : bytes := [112%N; 97%N; 110%N; 105%N; 99%N] (* "panic" *).
Definition panic_part2 : bytes := [48%N; 120%N] (* "0x" *).
Definition created_by_part : bytes := [99%N; 114%N; 101%N; 97%N; 116%N; 101%N; 100%N; 32%N; 98%N; 121%N; 32%N] (* "created by " *).

Definition go_panic_start (s : bytes) : res bool :=
  Ok (has_prefix s ([112%N; 97%N; 110%N; 105%N; 99%N; 58%N] (* "panic:" *)) || has_prefix s ([102%N; 97%N; 116%N; 97%N; 108%N; 32%N; 101%N; 114%N; 114%N; 111%N; 114%N; 58%N] (* "fatal error:" *)) || contains s ([104%N; 116%N; 116%N; 112%N; 58%N; 32%N; 112%N; 97%N; 110%N; 105%N; 99%N; 32%N; 115%N; 101%N; 114%N; 118%N; 105%N; 110%N; 103%N] (* "http: panic serving" *))).

(* containsGoroutineID: i := Index(s, prefix); if i == -1 false; s = s[i+len(prefix):]; i = Index(s, " ");
     if i < 1 false; return containsOnlyDigits(s[:i]) && Contains(s[i:], " [") *)
Definition contains_goroutine_id (s : bytes) : res bool :=
  let i := index_sub s goroutine_prefix in
  if i =? -1 then Ok false else
  s1 <- slice_from s (i + len goroutine_prefix) ;;
  let j := index_sub s1 [SP] in
  if j <? 1 then Ok false else
  d <- slice_to s1 j ;;
  if only_digits d then (t <- slice_from s1 j ;; Ok (contains t goroutine_suffix)) else Ok false.

(* containsLineNumber: i := Index(s, ".go:"); if i == -1 false; i += len(".go:"); return i < len(s) && IsDigit(s[i]) *)
Definition contains_line_number (s : bytes) : res bool :=
  let i := index_sub s line_number_part in
  if i =? -1 then Ok false else
  let i := i + len line_number_part in
  if i <? len s then (c <- idx s i ;; Ok (a_is_digit c)) else Ok false.

Definition contains_created_by (s : bytes) : res bool :=
  let i := index_sub s created_by_part in
  if i =? -1 then Ok false else
  s1 <- slice_from s (i + len created_by_part) ;;
  Ok (negb (index_byte s1 46%N =? -1)).

(* for ; left >= 0 && IsLetterOrUnderscoreOrDigit(s[left]); left-- {} *)
Fixpoint scan_back_lud (s : bytes) (left : Z) (fuel : nat) : res Z :=
  match fuel with
  | O => OutOfFuel
  | S f => if 0 <=? left then
             (c <- idx s left ;; if a_is_lud c then scan_back_lud s (left - 1) f else Ok left)
           else Ok left
  end.

(* endsWithIdentifier: for i := len(s)-1; i >= 0; i-- { letter or _: true; digit: continue; else false }; false *)
Fixpoint ends_ident_from (s : bytes) (i : Z) (fuel : nat) : res bool :=
  match fuel with
  | O => OutOfFuel
  | S f => if 0 <=? i then
             (c <- idx s i ;;
              if a_is_lu c then Ok true else if a_is_digit c then ends_ident_from s (i - 1) f else Ok false)
           else Ok false
  end.
Definition ends_with_identifier (s : bytes) : res bool := ends_ident_from s (len s - 1) (S (length s)).

(* containsCall *)
Definition contains_call (s : bytes) : res bool :=
  let i := last_index_byte s 41%N in
  if i =? -1 then Ok false else
  s1 <- slice_to s i ;;
  let i := last_index_byte s1 40%N in
  if i =? -1 then Ok false else
  let right := i - 1 in
  left <- scan_back_lud s1 right (S (length s1)) ;;
  if left =? right then Ok false else
  if left =? -1 then Ok false else
  c <- idx s1 left ;;
  if negb (beq c 46%N) then Ok false else
  let left := left - 1 in
  left2 <- (if 0 <=? left then (c2 <- idx s1 left ;; Ok (if beq c2 41%N then left - 1 else left)) else Ok left) ;;
  s2 <- slice_to s1 (left2 + 1) ;;
  ends_with_identifier s2.

(* containsPanicAddress *)
Definition contains_panic_address (s : bytes) : res bool :=
  let i := index_sub s panic_part1 in
  if i =? -1 then Ok false else
  s1 <- slice_from s (i + len panic_part1) ;;
  let j := index_sub s1 panic_part2 in
  if j =? -1 then Ok false else
  if j =? 0 then Ok false else
  s2 <- slice_from s1 (j + len panic_part2) ;;
  if len s2 =? 0 then Ok false else
  c <- idx s2 0 ;; Ok (a_is_hex c).

Definition go_panic_continue (s : bytes) : res bool :=
  orelse (Ok (has_prefix s ([91%N; 115%N; 105%N; 103%N; 110%N; 97%N; 108%N] (* "[signal" *))))
  (orelse (Ok (only_spaces s))
  (orelse (contains_goroutine_id s)
  (orelse (contains_line_number s)
  (orelse (contains_created_by s)
  (orelse (contains_panic_address s)
  (orelse (Ok (contains s ([112%N; 97%N; 110%N; 105%N; 99%N; 58%N] (* "panic:" *))))
  (orelse (Ok (contains s ([60%N; 97%N; 117%N; 116%N; 111%N; 103%N; 101%N; 110%N; 101%N; 114%N; 97%N; 116%N; 101%N; 100%N; 62%N; 58%N] (* "<autogenerated>:" *))))
          (contains_call s)))))))).

(* ---- go_data_race.go --------------------------------------------------------------------------- *)
Definition data_race_start (s : bytes) : res bool := Ok (has_prefix s ([87%N; 65%N; 82%N; 78%N; 73%N; 78%N; 71%N; 58%N; 32%N; 68%N; 65%N; 84%N; 65%N; 32%N; 82%N; 65%N; 67%N; 69%N] (* "WARNING: DATA RACE" *))).
Definition data_race_finish (s : bytes) : res bool := Ok (has_prefix s ([61%N; 61%N; 61%N; 61%N; 61%N; 61%N; 61%N; 61%N; 61%N; 61%N; 61%N; 61%N; 61%N; 61%N; 61%N; 61%N; 61%N; 61%N] (* "==================" *))).

(* template.go: tmpl 0 go_panic | 1 cs_exception | 2 go_data_race; continue_check = false: StartCheck, true: ContinueCheck *)
Definition template_check (tmpl : Z) (continue_check : bool) (s : bytes) : res bool :=
  match tmpl, continue_check with
  | 0, false => go_panic_start s
  | 0, true => go_panic_continue s
  | 1, false => sharp_start s
  | 1, true => sharp_continue s
  | 2, false => data_race_start s
  | _, _ => data_race_finish s
  end.

(* ---- cfg.ParseFieldSelector -------------------------------------------------------------------
     result := []; tail := ""
     for { pos := IndexByte(selector, '.'); if pos == -1 { break }
           if pos > 0 && selector[pos-1] == '\\' { tail = tail + selector[:pos-1] + "."; selector = selector[pos+1:]; continue }
           if len(selector) > pos+1 { if selector[pos+1] == '.' { tail = selector[:pos+1]; selector = selector[pos+2:]; continue } }
           result = append(result, tail+selector[:pos]); selector = selector[pos+1:]; tail = "" }
     if len(selector)+len(tail) != 0 { result = append(result, tail+selector) }
   [acc] holds the result in reverse order; every round consumes at least one byte of the selector (fuel). *)
Fixpoint parse_selector_loop (selector tail : bytes) (acc : list bytes) (fuel : nat) : res (list bytes) :=
  match fuel with
  | O => OutOfFuel
  | S f =>
      let pos := index_byte selector 46%N in
      if pos =? -1 then
        Ok (rev' (if negb (len selector + len tail =? 0) then (tail ++ selector) :: acc else acc))
      else
        esc <- (if 0 <? pos then (c <- idx selector (pos - 1) ;; Ok (beq c 92%N)) else Ok false) ;;
        if esc then
          a <- slice_to selector (pos - 1) ;;
          rest <- slice_from selector (pos + 1) ;;
          parse_selector_loop rest (tail ++ a ++ [46%N]) acc f
        else
          dbl <- (if pos + 1 <? len selector then (c <- idx selector (pos + 1) ;; Ok (beq c 46%N)) else Ok false) ;;
          if dbl then
            t <- slice_to selector (pos + 1) ;;
            rest <- slice_from selector (pos + 2) ;;
            parse_selector_loop rest t acc f
          else
            a <- slice_to selector pos ;;
            rest <- slice_from selector (pos + 1) ;;
            parse_selector_loop rest [] ((tail ++ a) :: acc) f
  end.
Definition parse_field_selector (selector : bytes) : res (list bytes) :=
  parse_selector_loop selector [] [] (S (length selector)).

(* ---- glue --------------------------------------------------------------------------------------
     51 template check   case (tmpl continue #line)   obs (0 b) | (2)
     52 selector         case (#selector)             obs (0 (#seg ...)) | (2) *)
Definition sx_bool (b : bool) : sx := SZ (if b then 1 else 0).

Definition panic_or_exact (model obs : sx) : verdict :=
  match obs with
  | SL (SZ 2 :: _) => Violates model
  | _ => if sx_eqb model obs then Agree else Differ model
  end.

Definition template_run (case obs : sx) : verdict :=
  match case with
  | SL [SZ tmpl; c; SB line] =>
      match as_bool c with
      | Some cont =>
          if (0 <=? tmpl) && (tmpl <=? 2) then panic_or_exact (sx_of_res sx_bool (template_check tmpl cont line)) obs
          else BadCase
      | None => BadCase
      end
  | _ => BadCase
  end.

Definition selector_run (case obs : sx) : verdict :=
  match case with
  | SL [SB sel] => panic_or_exact (sx_of_res (fun p => SL (map SB p)) (parse_field_selector sel)) obs
  | _ => BadCase
  end.

Definition c13_cov_entry (which : Z) (case obs : sx) : verdict :=
  match which with
  | 51 => template_run case obs
  | 52 => selector_run case obs
  | _ => BadCase
  end.
