(* plugin/action/hash/normalize/token_normalizer.go — the hand-written tokenizer (brackets and
   quotes, normalize-by-bytes) and normalizeByTokenizer, line for line, in the result monad of
   Base/GoSem.v: data[i] is [idx], data[a:b] is [slice].  The lexmachine scanner used for the
   regular-expression patterns is third-party code and is not modelled.  No proofs here. *)
From Verif Require Import Base.Sx Base.GoSem Model.Decoders.Common Model.Actions.ConvertUtf8.
(* the placeholders as byte lists (no Coq string in the extracted model) *)
Module PH.
  Definition curly : bytes := [60; 99; 117; 114; 108; 121; 95; 98; 114; 97; 99; 107; 101; 116; 101; 100; 62]%N.     (* <curly_bracketed> *)
  Definition square : bytes := [60; 115; 113; 117; 97; 114; 101; 95; 98; 114; 97; 99; 107; 101; 116; 101; 100; 62]%N.    (* <square_bracketed> *)
  Definition paren : bytes := [60; 112; 97; 114; 101; 110; 116; 104; 101; 115; 105; 122; 101; 100; 62]%N.     (* <parenthesized> *)
  Definition dquoted : bytes := [60; 100; 111; 117; 98; 108; 101; 95; 113; 117; 111; 116; 101; 100; 62]%N.   (* <double_quoted> *)
  Definition squoted : bytes := [60; 115; 105; 110; 103; 108; 101; 95; 113; 117; 111; 116; 101; 100; 62]%N.   (* <single_quoted> *)
  Definition grave : bytes := [60; 103; 114; 97; 118; 101; 95; 113; 117; 111; 116; 101; 100; 62]%N.     (* <grave_quoted> *)
End PH.

(* pattern ids: 1 curly | 2 square | 3 parenthesized | 4 double quoted | 5 single quoted | 6 grave quoted *)
Inductive kind := KOpen (p : Z) | KClose (p : Z) | KQuote (p : Z) | KOther.

Section Tokenizer.
Variable has : Z -> bool.            (* hasPattern(t.patterns, p) *)
Variable data : bytes.

Definition classify (c : byte) : kind :=
  if beq c 123%N && has 1 then KOpen 1 else
  if beq c 125%N && has 1 then KClose 1 else
  if beq c 91%N && has 2 then KOpen 2 else
  if beq c 93%N && has 2 then KClose 2 else
  if beq c 40%N && has 3 then KOpen 3 else
  if beq c 41%N && has 3 then KClose 3 else
  if beq c 34%N && has 4 then KQuote 4 else
  if beq c 39%N && has 5 then KQuote 5 else
  if beq c 96%N && has 6 then KQuote 6 else KOther.

(* for i := from; i < len(data) && data[i] == c; i++ { n++ } *)
Fixpoint run_len (fuel : nat) (c : byte) (i n : Z) : res Z :=
  match fuel with
  | O => OutOfFuel
  | S f =>
      if i <? len data then
        x <- idx data i ;;
        if beq x c then run_len f c (i + 1) (n + 1) else Ok n
      else Ok n
  end.
Definition quote_run (c : byte) (from : Z) : res Z := run_len (S (length data)) c from 0.

(* tokenizer.nextToken from position i with the per-call state (curPattern, counter, startPattern);
   Some (pattern, begin, end): a token, t.pos = end afterwards; None: end of data *)
Fixpoint next_loop (fuel : nat) (i cur counter start : Z) : res (option (Z * Z * Z)) :=
  if len data <=? i then
    (if cur =? 0 then Ok None else Ok (Some (cur, start, len data)))     (* last partial token *)
  else
  match fuel with
  | O => OutOfFuel
  | S f =>
      c <- idx data i ;;
      match classify c with
      | KOpen p =>                                                         (* processOpenBracket *)
          if cur =? 0 then next_loop f (i + 1) p 1 i
          else if cur =? p then next_loop f (i + 1) cur (counter + 1) start
          else next_loop f (i + 1) cur counter start
      | KClose p =>                                                        (* processCloseBracket *)
          if negb (cur =? p) then next_loop f (i + 1) cur counter start
          else if 0 <? counter - 1 then next_loop f (i + 1) cur (counter - 1) start
          else Ok (Some (p, start, i + 1))
      | KQuote p =>                                                        (* processQuotes *)
          if cur =? 0 then
            k <- quote_run c (i + 1) ;;
            next_loop f (i + k + 1) p (1 + k) i
          else if cur =? p then
            esc <- (if 0 <? i then x <- idx data (i - 1) ;; Ok (beq x BSL) else Ok false) ;;
            if esc then next_loop f (i + 1) cur counter start
            else
              k <- quote_run c (i + 1) ;;
              if 0 <? counter - 1 - k then next_loop f (i + k + 1) cur counter start
              else Ok (Some (p, start, i + counter))
          else next_loop f (i + 1) cur counter start
      | KOther => next_loop f (i + 1) cur counter start
      end
  end.
Definition next_token (pos : Z) : res (option (Z * Z * Z)) := next_loop (S (length data)) pos 0 0 0.

Definition placeholder (p : Z) : bytes :=
  match p with
  | 1 => PH.curly | 2 => PH.square | 3 => PH.paren | 4 => PH.dquoted | 5 => PH.squoted | _ => PH.grave
  end.

(* normalizeByTokenizer: out += data[prevEnd:t.begin] + placeholder; prevEnd = t.end; ...; out += data[prevEnd:] *)
Fixpoint norm_loop (fuel : nat) (pos : Z) (acc : list bytes) : res (list bytes) :=
  match fuel with
  | O => OutOfFuel
  | S f =>
      t <- next_token pos ;;
      match t with
      | None => tail <- slice_from data pos ;; Ok (tail :: acc)
      | Some (p, b, e) => pre <- slice data pos b ;; norm_loop f e (placeholder p :: pre :: acc)
      end
  end.
Definition normalize_by_tokenizer : res bytes :=
  acc <- norm_loop (S (S (length data))) 0 [] ;; Ok (concat (rev' acc)).
End Tokenizer.
