(* Tree-level models of Do of the actions whose index arithmetic is modelled: parse_re2, split,
   convert_utf8_bytes, hash, modify (with the filters of Model/Actions/Subst.v), json_extract.
   What third-party or library code answers (regexp matches, xxhash, unicode.IsGraphic, the parse
   of the embedded document, number formatting) enters as arguments.  No proofs here. *)
From Verif Require Import Base.Sx Base.GoSem Base.Json Model.Decoders.Common
  Model.Actions.Tree Model.Actions.Subst Model.Actions.ConvertUtf8 Model.Actions.HashNorm.

(* ---- parse_re2 -------------------------------------------------------------------------------
     jsonNode := Dig(field); if nil -> Pass
     sm := re.FindSubmatch(jsonNode.AsBytes()); if len(sm) == 0 -> Pass
     jsonNode.Suicide(); fields := re.SubexpNames()
     for i := 1; i < len(fields); i++ { if fields[i] == "" {continue}; root.AddField(prefix+fields[i]).MutateToBytes(sm[i]) }
     MergeToRoot(event.Root, root)                                                                  *)
Fixpoint re2_fields (prefix : bytes) (names : list bytes) (sm : list bytes) (i : Z)
  : res (list (bytes * json)) :=
  match names with
  | [] => Ok []
  | n :: rest =>
      match n with
      | [] => re2_fields prefix rest sm (i + 1)
      | _ :: _ =>
          v <- idx sm i ;;
          r <- re2_fields prefix rest sm (i + 1) ;;
          Ok ((prefix ++ n, JStr v) :: r)
      end
  end.

Definition parse_re2_do (root : json) (path : list bytes) (prefix : bytes) (names : list bytes)
  (sm : list bytes) : res json :=
  match jdig root path with
  | None => Ok root
  | Some _ =>
      match sm with
      | [] => Ok root
      | _ :: _ =>
          fields <- re2_fields prefix (tl names) sm 1 ;;
          Ok (merge_to_root (jremove root path) fields)
      end
  end.

(* ---- split ------------------------------------------------------------------------------------
   (result, children): 0 = ActionPass, 4 = ActionBreak after Spawn(event, children)               *)
Definition is_obj (j : json) : bool := match j with JObj _ => true | _ => false end.
Definition split_do (is_child : bool) (root : json) (path : list bytes) : res (Z * list json) :=
  if is_child then Ok (0, []) else
  match jdig root path with
  | Some (JArr l) =>
      match filter is_obj l with
      | [] => Ok (0, [])
      | ch => Ok (4, ch)
      end
  | _ => Ok (0, [])
  end.

(* ---- convert_utf8_bytes ----------------------------------------------------------------------- *)
Definition convert_field (is_graphic : Z -> bool) (replace : bool) (root : json) (path : list bytes) : res json :=
  match jdig root path with
  | Some (JStr s) =>
      r <- convert is_graphic replace s ;;
      match r with
      | None => Ok root
      | Some b => Ok (jupdate root path (fun _ => JStr b))
      end
  | _ => Ok root
  end.
Fixpoint convert_do (is_graphic : Z -> bool) (replace : bool) (root : json) (paths : list (list bytes)) : res json :=
  match paths with
  | [] => Ok root
  | p :: rest => r1 <- convert_field is_graphic replace root p ;; convert_do is_graphic replace r1 rest
  end.

(* ---- hash -------------------------------------------------------------------------------------
   fields: (path, normalize?, max_size); the first field that exists and is no array / object is
   hashed:  data[:hashSize]  with hashSize = min(len data, max_size) when max_size > 0.
   [hash_of] stands for xxhash.Sum64 (after the normaliser when the format is normalize).           *)
Fixpoint hash_pick (root : json) (fields : list (list bytes * bool * Z)) : option (json * bool * Z) :=
  match fields with
  | [] => None
  | (p, norm, mx) :: rest =>
      match jdig root p with
      | Some (JArr _) | Some (JObj _) | None => hash_pick root rest
      | Some v => Some (v, norm, mx)
      end
  end.

Definition hash_do (hash_of : bool -> bytes -> Z) (root : json) (fields : list (list bytes * bool * Z))
  (result_path : list bytes) : res json :=
  match hash_pick root fields with
  | None => Ok root
  | Some (v, norm, mx) =>
      let data := as_string (Some v) in
      let size := if (0 <? mx) && (mx <? len data) then mx else len data in
      d <- slice_to data size ;;
      Ok (create_nested root result_path (JNum (format_uint (hash_of norm d))))
  end.

(* ---- modify -----------------------------------------------------------------------------------
   a substitution is a list of ops: raw text | field (path, filters); filters without regexp here  *)
Inductive ffilter :=
| FCut (first : bool) (count : Z)
| FTrimTo (mode : Z) (cutset : bytes)
| FTrim (mode : Z) (cutset : bytes).
Inductive sop := SRaw (b : bytes) | SField (path : list bytes) (fl : list ffilter).

Definition apply_filter (f : ffilter) (src : bytes) : res bytes :=
  match f with
  | FCut first count => cut_apply first count src
  | FTrimTo mode cs => trim_to_apply mode cs src
  | FTrim mode cs => Ok (trim_apply mode cs src)
  end.
Fixpoint apply_filters (fl : list ffilter) (src : bytes) : res bytes :=
  match fl with [] => Ok src | f :: r => s1 <- apply_filter f src ;; apply_filters r s1 end.

Fixpoint subst_ops (root : json) (ops : list sop) (acc : list bytes) : res (list bytes) :=
  match ops with
  | [] => Ok acc
  | SRaw b :: r => subst_ops root r (b :: acc)
  | SField p fl :: r =>
      v <- apply_filters fl (as_string (jdig root p)) ;;
      subst_ops root r (v :: acc)
  end.

Fixpoint modify_do (skip_empty : bool) (root : json) (fops : list (list bytes * list sop)) : res json :=
  match fops with
  | [] => Ok root
  | (field, ops) :: rest =>
      acc <- subst_ops root ops [] ;;
      let buf := concat (rev' acc) in
      let root1 := if skip_empty && (len buf =? 0) then root else create_nested root field (JStr buf) in
      modify_do skip_empty root1 rest
  end.

(* ---- json_extract -----------------------------------------------------------------------------
   pathTree.add, pathNodes.find, extract over the parsed embedded document                          *)
Inductive ptree := PNode (data : bytes) (children : list ptree).
Definition pt_data (n : ptree) := match n with PNode d _ => d end.
Definition pt_children (n : ptree) := match n with PNode _ c => c end.

Fixpoint pt_find (l : list ptree) (k : bytes) : option ptree :=
  match l with
  | [] => None
  | n :: r => if bytes_eqb (pt_data n) k then Some n else pt_find r k
  end.

(* the chain of new nodes  for i := depth; i < len(path); i++  *)
Fixpoint pt_chain (path : list bytes) : list ptree :=
  match path with
  | [] => []
  | k :: r => [PNode k (pt_chain r)]
  end.

(* (l *pathTree) add(path), on the children of the current node. While more than one element is
   left (depth < len(path)-1) an existing child named path[depth] is entered; the rest of the path
   is appended as a chain of new nodes. path[depth] is an [idx]. *)
(* the search  for _, c := range cur.children { if c.data == path[depth] { cur = c; ... } }  with the
   rest of add performed on the child found ([rec]); None: no child has that name *)
Fixpoint pt_enter (rec : list ptree -> res (list ptree)) (k : bytes) (cs : list ptree)
  : res (option (list ptree)) :=
  match cs with
  | [] => Ok None
  | PNode d sub :: r =>
      if bytes_eqb d k then
        sub' <- rec sub ;; Ok (Some (PNode d sub' :: r))
      else
        r' <- pt_enter rec k r ;;
        match r' with Some r'' => Ok (Some (PNode d sub :: r'')) | None => Ok None end
  end.

Fixpoint pt_add (fuel : nat) (children : list ptree) (path : list bytes) (depth : Z) : res (list ptree) :=
  match fuel with
  | O => OutOfFuel
  | S f =>
      if depth <? len path - 1 then
        k <- idx path depth ;;
        o <- pt_enter (fun sub => pt_add f sub path (depth + 1)) k children ;;
        match o with
        | Some cs' => Ok cs'
        | None => rest <- slice_from path depth ;; Ok (children ++ pt_chain rest)
        end
      else rest <- slice_from path depth ;; Ok (children ++ pt_chain rest)
  end.

Fixpoint pt_add_all (children : list ptree) (paths : list (list bytes)) : res (list ptree) :=
  match paths with
  | [] => Ok children
  | p :: r => c1 <- pt_add (S (length p)) children p 0 ;; pt_add_all c1 r
  end.

(* Start: every extract_fields entry, then the deprecated extract_field unless it is listed *)
Definition extract_tree (extract_fields : list (list bytes)) (extract_field : list bytes) (dup : bool)
  : res (list ptree) :=
  pt_add_all [] (extract_fields ++ (if dup then [] else [extract_field])).

(* addField: the value goes into the root under prefix+name. Numbers are re-formatted by
   strconv (Int64, else Float64): [fmt_num] stands for that. *)
Section Extract.
Variable fmt_num : bytes -> bytes.
Variable prefix : bytes.

Definition conv_value (v : json) : json :=
  match v with JNum r => JNum (fmt_num r) | _ => v end.

Definition root_add (root : json) (k : bytes) (v : json) : json :=
  match root with JObj fs => JObj (set_field fs k v) | _ => root end.

(* the loop over the object's fields in document order; [processed] counts the path nodes of this
   level still to be found; [rec] = extract on the nested value *)
Fixpoint ext_iter (rec : json -> json -> list ptree -> res json) (fields : list ptree)
  (fs : list (bytes * json)) (root : json) (processed : Z) : res json :=
  match fs with
  | [] => Ok root
  | (k, v) :: r =>
      match pt_find fields k with
      | None => ext_iter rec fields r root processed
      | Some n =>
          root1 <- (match pt_children n with
                    | [] => Ok (root_add root (prefix ++ pt_data n) (conv_value v))
                    | sub => rec root v sub
                    end) ;;
          if processed - 1 =? 0 then Ok root1 else ext_iter rec fields r root1 (processed - 1)
      end
  end.

(* extract(root, decoder, fields, prefix) *)
Fixpoint extract (fuel : nat) (root : json) (doc : json) (fields : list ptree) : res json :=
  match fuel with
  | O => OutOfFuel
  | S f =>
      match doc with
      | JObj fs => ext_iter (extract f) fields fs root (len fields)
      | _ => Ok root
      end
  end.
End Extract.

Fixpoint jdepth (j : json) : nat :=
  match j with
  | JArr l => S (fold_right (fun x m => Nat.max (jdepth x) m) O l)
  | JObj fs => S (fold_right (fun kv m => Nat.max (jdepth (snd kv)) m) O fs)
  | _ => O
  end.

(* Do: jsonNode := Dig(field); if nil -> Pass; decoder over jsonNode.AsBytes(); [doc] = its parse
   (None: not a JSON document, extract stops at the first error: only a prefix may be extracted,
   which the value-level model does not follow) *)
Definition json_extract_do (fmt_num : bytes -> bytes) (prefix : bytes) (root : json) (path : list bytes)
  (doc : json) (fields : list ptree) : res json :=
  match jdig root path with
  | None => Ok root
  | Some _ => extract fmt_num prefix (S (jdepth doc)) root doc fields
  end.
