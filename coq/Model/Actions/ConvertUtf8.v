(* plugin/action/convert_utf8_bytes/convert_utf8_bytes.go  Plugin.convert, line for line, in the
   result monad of Base/GoSem.v.  Go strings are byte lists; every nodeStr[i], nodeStr[a:b] is an
   [idx] / [slice] (Panic when out of range).  strconv.ParseUint (base 16 / 8), hex.DecodeString,
   utf16.IsSurrogate / DecodeRune and the conversion string(rune) are modelled directly;
   unicode.IsGraphic is a parameter (it only matters with replace_non_graphic).  No proofs here. *)
From Verif Require Import Base.Sx Base.GoSem Model.Decoders.Common.

Definition BSL : byte := 92%N.   (* backslash *)

Definition hex_val (c : byte) : option Z :=
  if (48 <=? c)%N && (c <=? 57)%N then Some (Z.of_N c - 48)
  else if (97 <=? c)%N && (c <=? 102)%N then Some (Z.of_N c - 87)
  else if (65 <=? c)%N && (c <=? 70)%N then Some (Z.of_N c - 55)
  else None.

(* strconv.ParseUint(s, 16, 64) for at most 8 digits (no sign, no underscore, no prefix in base 16) *)
Fixpoint parse_hex_from (l : bytes) (x : Z) : option Z :=
  match l with
  | [] => Some x
  | c :: r => match hex_val c with Some d => parse_hex_from r (x * 16 + d) | None => None end
  end.
Definition parse_hex (l : bytes) : option Z :=
  match l with [] => None | _ :: _ => parse_hex_from l 0 end.

(* strconv.ParseUint(s, 8, 64) *)
Fixpoint parse_oct_from (l : bytes) (x : Z) : option Z :=
  match l with
  | [] => Some x
  | c :: r => if (48 <=? c)%N && (c <=? 55)%N then parse_oct_from r (x * 8 + (Z.of_N c - 48)) else None
  end.
Definition parse_oct (l : bytes) : option Z :=
  match l with [] => None | _ :: _ => parse_oct_from l 0 end.

(* hex.DecodeString of an even-length string *)
Fixpoint hex_decode (l : bytes) : option bytes :=
  match l with
  | [] => Some []
  | a :: b :: r =>
      match hex_val a, hex_val b, hex_decode r with
      | Some x, Some y, Some t => Some (Z.to_N (x * 16 + y) :: t)
      | _, _, _ => None
      end
  | _ => None
  end.

(* rune(u) for a uint64 below 2^32: conversion to int32 wraps *)
Definition to_rune (u : Z) : Z := if u <? 2147483648 then u else u - 4294967296.

Definition is_surrogate (r : Z) : bool := (55296 <=? r) && (r <? 57344).

(* utf16.DecodeRune *)
Definition decode_rune (r1 r2 : Z) : Z :=
  if (55296 <=? r1) && (r1 <? 56320) && (56320 <=? r2) && (r2 <? 57344)
  then (r1 - 55296) * 1024 + (r2 - 56320) + 65536
  else 65533.

(* string(rune): UTF-8, U+FFFD for anything that is not a Unicode scalar value *)
Definition utf8_encode (r : Z) : bytes :=
  let r := if (r <? 0) || (1114111 <? r) || is_surrogate r then 65533 else r in
  if r <? 128 then [Z.to_N r]
  else if r <? 2048 then [Z.to_N (192 + r / 64); Z.to_N (128 + r mod 64)]
  else if r <? 65536 then [Z.to_N (224 + r / 4096); Z.to_N (128 + (r / 64) mod 64); Z.to_N (128 + r mod 64)]
  else [Z.to_N (240 + r / 262144); Z.to_N (128 + (r / 4096) mod 64); Z.to_N (128 + (r / 64) mod 64); Z.to_N (128 + r mod 64)].

Section Convert.
Variable is_graphic : Z -> bool.      (* unicode.IsGraphic *)
Variable replace_non_graphic : bool.

(* the run of "\xHH" continuations:  for { if len(s)-pos >= 4 && s[pos:pos+2] == `\x` { sb += s[pos+2:pos+4]; pos += 4; continue }; break } *)
Fixpoint hex_run (fuel : nat) (s sb_rev : bytes) (pos : Z) : res (bytes * Z) :=
  match fuel with
  | O => OutOfFuel
  | S f =>
      if 4 <=? len s - pos then
        p2 <- slice s pos (pos + 2) ;;
        if bytes_eqb p2 [BSL; 120%N] then
          d <- slice s (pos + 2) (pos + 4) ;;
          hex_run f s (rev_append d sb_rev) (pos + 4)
        else Ok (sb_rev, pos)
      else Ok (sb_rev, pos)
  end.

(* one pass through the switch: [s] starts with the character after a backslash; returns the
   chunks appended to buf (in reverse order) and the rest of the string *)
Definition convert_switch (s : bytes) (acc : list bytes) : res (list bytes * bytes) :=
  ch <- idx s 0 ;;
  if beq ch BSL then
    s1 <- slice_from s 1 ;;
    Ok ([BSL; BSL] :: acc, s1)
  else if beq ch 117%N || beq ch 85%N then                       (* 'u' 'U' *)
    s1 <- slice_from s 1 ;;
    let size := if beq ch 85%N then 8 else 4 in
    if len s1 <? size then Ok ([BSL; ch] :: acc, s1) else
    ss <- slice_to s1 size ;;
    match parse_hex ss with
    | None => Ok ([BSL; ch] :: acc, s1)
    | Some u0 =>
        s2 <- slice_from s1 size ;;
        let u := if negb (is_graphic (to_rune u0)) && replace_non_graphic then 65533 else u0 in
        if (size =? 8) || negb (is_surrogate (to_rune u)) then Ok (utf8_encode (to_rune u) :: acc, s2)
        else if len s2 <? 6 then Ok (ss :: [BSL; 117%N] :: acc, s2)
        else
          p2 <- slice_to s2 2 ;;
          if negb (bytes_eqb p2 [BSL; 117%N]) then Ok (ss :: [BSL; 117%N] :: acc, s2)
          else
            h2 <- slice s2 2 6 ;;
            match parse_hex h2 with
            | None => Ok (ss :: [BSL; 117%N] :: acc, s2)
            | Some u2 =>
                s3 <- slice_from s2 6 ;;
                Ok (utf8_encode (decode_rune (to_rune u) (to_rune u2)) :: acc, s3)
            end
    end
  else if beq ch 120%N then                                       (* 'x' *)
    s1 <- slice_from s 1 ;;
    if len s1 <? 2 then Ok ([BSL; 120%N] :: acc, s1) else
    sb0 <- slice_to s1 2 ;;
    ' (sb_rev, pos) <- hex_run (S (length s1)) s1 (rev_append sb0 []) 2 ;;
    rest <- slice_from s1 pos ;;
    match hex_decode (rev_append sb_rev []) with
    | None => raw <- slice_to s1 pos ;; Ok (raw :: [BSL; 120%N] :: acc, rest)
    | Some hb => Ok (hb :: acc, rest)
    end
  else if (48 <=? ch)%N && (ch <=? 51)%N then                     (* '0'..'3' *)
    if len s <? 3 then Ok ([BSL] :: acc, s) else
    o <- slice_to s 3 ;;
    match parse_oct o with
    | None => Ok ([BSL] :: acc, s)
    | Some u => s1 <- slice_from s 3 ;; Ok ([Z.to_N (u mod 256)] :: acc, s1)
    end
  else Ok ([BSL] :: acc, s).

(* for nodeStr != "" { switch ...; idx = IndexByte(nodeStr, '\\'); if idx < 0 { buf += nodeStr; break };
                       buf += nodeStr[:idx]; nodeStr = nodeStr[idx+1:] } *)
Fixpoint convert_loop (fuel : nat) (s : bytes) (acc : list bytes) : res (list bytes) :=
  match s with
  | [] => Ok acc
  | _ :: _ =>
      match fuel with
      | O => OutOfFuel
      | S f =>
          ' (acc1, s1) <- convert_switch s acc ;;
          let i := index_byte s1 BSL in
          if i <? 0 then Ok (s1 :: acc1)
          else
            pre <- slice_to s1 i ;;
            s2 <- slice_from s1 (i + 1) ;;
            convert_loop f s2 (pre :: acc1)
      end
  end.

(* None: no backslash, the node is left alone; Some b: node.MutateToString(b) *)
Definition convert (s : bytes) : res (option bytes) :=
  let i := index_byte s BSL in
  if i <? 0 then Ok None
  else
    pre <- slice_to s i ;;
    s1 <- slice_from s (i + 1) ;;
    acc <- convert_loop (S (length s1)) s1 [pre] ;;
    Ok (Some (concat (rev' acc))).
End Convert.
