(* Tree-level models of Do of the action plugins that are pure insane-json mutations and library
   calls: rename, move, flatten, json_encode, json_decode, convert_log_level, set_time, convert_date,
   parse_es, add_host, add_file_name, discard, debug, cardinality.  Each definition follows the Go
   code of /repo/plugin/action/<name>/<name>.go line by line (quoted above it); what library code
   answers (the parse of an embedded document, the encoder's text, strings.ToLower / TrimSpace, the
   clock, time parsing / formatting, os.Hostname) enters as an argument.  A result is
   (ActionResult, event tree):  0 Pass | 1 Collapse | 2 Discard | 3 Hold | 4 Break.  No proofs here. *)
From Verif Require Import Base.Sx Base.GoSem Base.Json Model.Decoders.Common
  Model.Actions.Tree Model.Actions.ExtraTree.

Definition APass : Z := 0.
Definition ACollapse : Z := 1.
Definition ADiscard : Z := 2.
Definition result_defined (r : Z) : bool := (0 <=? r) && (r <=? 4).

(* ---- rename -------------------------------------------------------------------------------------
     for index, path := range p.paths {
       if p.preserveFields { if event.Root.Dig(p.names[index]) != nil { continue } }
       node := event.Root.Dig(path...); if node == nil { continue }
       node.Suicide()
       event.Root.AddFieldNoAlloc(event.Root, p.names[index]).MutateToNode(node) }
     return ActionPass
   The name is ONE key of the root (never parsed as a selector).  On an EMPTY path Dig() answers the
   root itself, Suicide spares it, and MutateToNode copies the root's field list into the new field of
   the root: the node arrays form a cycle, the event is no finite document any more; the model function
   answers Err 1 there.  No accepted configuration has an empty path (rename_ops below: Start drops
   the key that is empty after unescaping; before fix 4232b91 the key "_" slipped through, finding
   C13-rename-empty-path-cycle). *)
Definition rename_step (preserve : bool) (root : json) (pn : list bytes * bytes) : res json :=
  let '(path, name) := pn in
  if preserve && is_some (jdig root [name]) then Ok root else
  match jdig root path with
  | None => Ok root
  | Some v =>
      match path with
      | [] => match root with JObj _ => Err 1 | _ => Ok root end
      | _ :: _ => Ok (obj_set name v (jremove root path))
      end
  end.

Fixpoint rename_loop (preserve : bool) (root : json) (ops : list (list bytes * bytes)) : res json :=
  match ops with
  | [] => Ok root
  | pn :: rest => r1 <- rename_step preserve root pn ;; rename_loop preserve r1 rest
  end.

Definition rename_do (preserve : bool) (ops : list (list bytes * bytes)) (root : json) : res (Z * json) :=
  r <- rename_loop preserve root ops ;; Ok (APass, r).

(* Start: what becomes of the configuration's (key, name) pairs (override already taken out):
     unescapeMap: if key != "" && key[0] == '_' { key = key[1:] }; if key == "" { return }; newConfig.Append(key, value)
     conf.ForEach: p.paths = append(p.paths, cfg.ParseFieldSelector(path)); p.names = append(p.names, name)
   [sel] stands for cfg.ParseFieldSelector. *)
Definition unescape_key (k : bytes) : bytes := match k with 95%N :: r => r | _ => k end.
Fixpoint unescape_map (cfg : list (bytes * bytes)) : list (bytes * bytes) :=
  match cfg with
  | [] => []
  | (k, v) :: r =>
      match unescape_key k with
      | [] => unescape_map r
      | k' => (k', v) :: unescape_map r
      end
  end.
Definition rename_ops (sel : bytes -> list bytes) (cfg : list (bytes * bytes)) : list (list bytes * bytes) :=
  map (fun kv => (sel (fst kv), snd kv)) (unescape_map cfg).
Definition rename_cfg_do (sel : bytes -> list bytes) (preserve : bool) (cfg : list (bytes * bytes)) (root : json)
  : res (Z * json) := rename_do preserve (rename_ops sel cfg) root.

(* ---- move ---------------------------------------------------------------------------------------
     targetNode := pipeline.CreateNestedField(event.Root, p.config.Target_)
     moveNode := func(name, node) { node.Suicide(); targetNode.AddFieldNoAlloc(event.Root, name).MutateToNode(node) }
     allow: for _, field := range p.allowFields {
              if node := event.Root.Dig(field...); node != nil && node != targetNode { moveNode(field[len(field)-1], node) } }
     block: the loop of Model/Actions/ExtraTree.v (block_loop)
   State of the allow loop: the event and whether the target node still hangs in it.  When the node
   that is moved is an ancestor of the target (fields: [a], target: a.b) the whole branch, target
   included, leaves the event; the target then receives the later fields where nobody sees them.
   With a root that is not an object CreateNestedField answers nil: every field found is removed and
   attached to nothing.  node == targetNode is a pointer comparison: on trees without duplicate keys
   it holds exactly when the field's path is the target's path (every node on it is an object). *)
Definition move_allow_step (target : list bytes) (st : json * bool) (field : list bytes) : res (json * bool) :=
  let '(root, alive) := st in
  match jdig root field with
  | None => Ok st
  | Some v =>
      if alive && path_eqb field target then Ok st else
      name <- idx field (len field - 1) ;;
      if alive && negb (path_proper_prefix field target)
      then Ok (jupdate (jremove root field) target (obj_set name v), true)
      else Ok (jremove root field, false)
  end.

Fixpoint move_allow_loop (target : list bytes) (st : json * bool) (fields : list (list bytes)) : res (json * bool) :=
  match fields with
  | [] => Ok st
  | f :: rest => st1 <- move_allow_step target st f ;; move_allow_loop target st1 rest
  end.

Definition move_allow_do (target : list bytes) (fields : list (list bytes)) (root : json) : res (Z * json) :=
  let root1 := ensure_nested root target in
  st <- move_allow_loop target (root1, is_object root1) fields ;;
  Ok (APass, fst st).

(* block mode: validation makes the target one key of the root *)
Definition move_block_do (target : bytes) (blocked : list bytes) (root : json) : res (Z * json) :=
  match ensure_nested root [target] with
  | JObj fs =>
      match field_index fs target 0 with
      | Some tid =>
          let tfs := match nth_error fs tid with Some (_, JObj s) => s | _ => [] end in
          let '(cur, tfs') := block_loop blocked tid (tagged fs) (tagged fs) tfs in
          Ok (APass, JObj (untag tid tfs' cur))
      | None => Ok (APass, JObj fs)
      end
  | r => Ok (APass, r)
  end.

(* ---- flatten ------------------------------------------------------------------------------------
     node := event.Root.Dig(p.config.Field_...); if !node.IsObject() { return ActionPass }
     node.Suicide()
     for _, field := range node.AsFields() { field.MutateToField(prefix + field.AsString()) }
     pipeline.MergeToRoot(event.Root, node); return ActionPass                                      *)
Definition flatten_do (path : list bytes) (prefix : bytes) (root : json) : res (Z * json) :=
  match jdig root path with
  | Some (JObj fs) => Ok (APass, merge_to_root (jremove root path) (prefix_fields prefix fs))
  | _ => Ok (APass, root)
  end.

(* ---- json_encode --------------------------------------------------------------------------------
     node := event.Root.Dig(p.config.Field_...); if node == nil { return ActionPass }
     s := len(event.Buf); event.Buf = node.Encode(event.Buf); node.MutateToString(event.Buf[s:])
   [enc] stands for the text the library's encoder writes for the node. *)
Definition json_encode_do (path : list bytes) (enc : bytes) (root : json) : res (Z * json) :=
  match jdig root path with
  | None => Ok (APass, root)
  | Some _ => Ok (APass, jupdate root path (fun _ => JStr enc))
  end.

(* ---- json_decode --------------------------------------------------------------------------------
     jsonNode := event.Root.Dig(p.config.Field_...); if jsonNode == nil { return ActionPass }
     node, err := event.Root.DecodeBytesAdditional(jsonNode.AsBytes()); if err != nil { ...log...; return ActionPass }
     if !node.IsObject() { return ActionPass }
     jsonNode.Suicide()
     if p.config.Prefix != "" { for every field: MutateToField(prefix + name) }
     pipeline.MergeToRoot(event.Root, node)
   [doc] stands for the library's parse of the field's text: None = an error. *)
Definition json_decode_do (path : list bytes) (prefix : bytes) (doc : option json) (root : json) : res (Z * json) :=
  match jdig root path with
  | None => Ok (APass, root)
  | Some _ =>
      match doc with
      | Some (JObj fs) => Ok (APass, merge_to_root (jremove root path) (prefix_fields prefix fs))
      | _ => Ok (APass, root)
      end
  end.

(* ---- convert_log_level --------------------------------------------------------------------------
   pipeline.ParseLevelAsNumber: switch strings.ToLower(strings.TrimSpace(level)) { ... };  [norm]
   stands for ToLower . TrimSpace; -1 = LevelUnknown.  ParseLevelAsString indexes levelNames. *)
Definition level_table : list (Z * list bytes) :=
  [ (0, [(*0*) [48]%N; (*emergency*) [101; 109; 101; 114; 103; 101; 110; 99; 121]%N; (*emerg*) [101; 109; 101; 114; 103]%N; (*fatal*) [102; 97; 116; 97; 108]%N; (*panic*) [112; 97; 110; 105; 99]%N; (*dpanic*) [100; 112; 97; 110; 105; 99]%N]);
    (1, [(*1*) [49]%N; (*alert*) [97; 108; 101; 114; 116]%N]);
    (2, [(*2*) [50]%N; (*critical*) [99; 114; 105; 116; 105; 99; 97; 108]%N; (*crit*) [99; 114; 105; 116]%N]);
    (3, [(*3*) [51]%N; (*error*) [101; 114; 114; 111; 114]%N; (*err*) [101; 114; 114]%N]);
    (4, [(*4*) [52]%N; (*warning*) [119; 97; 114; 110; 105; 110; 103]%N; (*warn*) [119; 97; 114; 110]%N]);
    (5, [(*5*) [53]%N; (*notice*) [110; 111; 116; 105; 99; 101]%N]);
    (6, [(*6*) [54]%N; (*informational*) [105; 110; 102; 111; 114; 109; 97; 116; 105; 111; 110; 97; 108]%N; (*info*) [105; 110; 102; 111]%N]);
    (7, [(*7*) [55]%N; (*debug*) [100; 101; 98; 117; 103]%N]) ].

Fixpoint level_lookup (t : list (Z * list bytes)) (s : bytes) : Z :=
  match t with
  | [] => -1
  | (n, names) :: r => if mem_bytes s names then n else level_lookup r s
  end.
Definition level_number (s : bytes) : Z := level_lookup level_table s.

Definition level_names : list bytes :=
  [(*emergency*) [101; 109; 101; 114; 103; 101; 110; 99; 121]%N; (*alert*) [97; 108; 101; 114; 116]%N; (*critical*) [99; 114; 105; 116; 105; 99; 97; 108]%N; (*error*) [101; 114; 114; 111; 114]%N; (*warning*) [119; 97; 114; 110; 105; 110; 103]%N; (*notice*) [110; 111; 116; 105; 99; 101]%N; (*informational*) [105; 110; 102; 111; 114; 109; 97; 116; 105; 111; 110; 97; 108]%N; (*debug*) [100; 101; 98; 117; 103]%N].
Definition k_delete := (*delete*) [100; 101; 108; 101; 116; 101]%N.
Definition k_update := (*update*) [117; 112; 100; 97; 116; 101]%N.
Definition k_index := (*index*) [105; 110; 100; 101; 120]%N.
Definition k_create := (*create*) [99; 114; 101; 97; 116; 101]%N.

(*   node := event.Root.Dig(p.config.Field_...)
     if node == nil { if DefaultLevel == "" { return ActionPass }
                      node = pipeline.CreateNestedField(event.Root, p.config.Field_); node.MutateToString(DefaultLevel) }
     level := node.AsString(); if level == "" && DefaultLevel != "" { level = DefaultLevel }
     string style: parsed := ParseLevelAsString(level); fail = parsed == ""; if !fail { node.MutateToString(parsed) }
     number style: parsed := ParseLevelAsNumber(level); fail = parsed == LevelUnknown; if !fail { node.MutateToInt(int(parsed)) }
     if fail && RemoveOnFail { node.Suicide() }; return ActionPass                                  *)
Section LogLevel.
Variable norm : bytes -> bytes.

Definition convert_log_level_do (path : list bytes) (style_string : bool) (default : bytes)
  (remove_on_fail : bool) (root : json) : res (Z * json) :=
  let found := jdig root path in
  if negb (is_some found) && (len default =? 0) then Ok (APass, root) else
  let root1 := if is_some found then root else create_nested root path (JStr default) in
  let level0 := as_string (jdig root1 path) in
  let level := if (len level0 =? 0) && negb (len default =? 0) then default else level0 in
  let n := level_number (norm level) in
  if n <? 0 then Ok (APass, if remove_on_fail then jremove root1 path else root1)
  else if style_string then
    name <- idx level_names n ;;                         (* levelNames[parsed] *)
    Ok (APass, jupdate root1 path (fun _ => JStr name))
  else Ok (APass, jupdate root1 path (fun _ => JNum (format_uint n))).
End LogLevel.

(* ---- set_time -----------------------------------------------------------------------------------
     dateNode := event.Root.Dig(p.config.Field)                     (one key, not a selector)
     if dateNode != nil && !p.config.Override { return ActionPass }
     if dateNode == nil { dateNode = event.Root.AddFieldNoAlloc(event.Root, p.config.Field) }
     dateNode.MutateToInt64(...) | dateNode.MutateToString(t.Format(...))
   [value] stands for the formatted clock reading (a number or a string node). *)
Definition set_time_do (field : bytes) (override : bool) (value : json) (root : json) : res (Z * json) :=
  match jdig root [field] with
  | Some _ => Ok (APass, if override then jupdate root [field] (fun _ => value) else root)
  | None => Ok (APass, obj_set field value root)
  end.

(* ---- add_host: event.Root.AddFieldNoAlloc(event.Root, p.config.Field).MutateToString(p.hostname) *)
Definition add_host_do (field host : bytes) (root : json) : res (Z * json) :=
  Ok (APass, obj_set field (JStr host) root).

(* ---- add_file_name: pipeline.CreateNestedField(event.Root, p.config.Field_).MutateToString(event.SourceName) *)
Definition add_file_name_do (path : list bytes) (source : bytes) (root : json) : res (Z * json) :=
  Ok (APass, match path with [] => JStr source | _ :: _ => create_nested root path (JStr source) end).

(* ---- convert_date -------------------------------------------------------------------------------
     dateNode := event.Root.Dig(p.config.Field_...); if dateNode == nil { return ActionPass }
     if dateNode.IsString() || dateNode.IsNumber() {
        date := dateNode.AsString()
        for _, format := range SourceFormats_ { t, err := xtime.ParseTime(format, date)
           if err == nil { dateNode.MutateToInt(...) | dateNode.MutateToString(t.Format(target)); return ActionPass } } }
     if RemoveOnFail { dateNode.Suicide() }; return ActionPass
   [table]: per source format, None = ParseTime failed, Some v = the node the target format makes of
   the parsed time. *)
Fixpoint first_some {A} (l : list (option A)) : option A :=
  match l with [] => None | Some x :: _ => Some x | None :: r => first_some r end.

Definition convert_date_do (path : list bytes) (remove_on_fail : bool) (table : list (option json))
  (root : json) : res (Z * json) :=
  match jdig root path with
  | None => Ok (APass, root)
  | Some v =>
      let valid := match v with JStr _ | JNum _ => true | _ => false end in
      match (if valid then first_some table else None) with
      | Some nv => Ok (APass, jupdate root path (fun _ => nv))
      | None => Ok (APass, if remove_on_fail then jremove root path else root)
      end
  end.

(* ---- discard, debug ---------------------------------------------------------------------------- *)
Definition discard_do (root : json) : res (Z * json) := Ok (ADiscard, root).
(* debug: logs a sample of event.Root.EncodeToString(); the event is not written *)
Definition debug_do (root : json) : res (Z * json) := Ok (APass, root).

(* ---- parse_es -----------------------------------------------------------------------------------
   state (passNext, discardNext); an input is a time-out event (None) or a tree.
     if event.IsTimeoutKind() { return ActionDiscard }
     if p.passNext && p.discardNext { p.logger.Panicf("wrong state") }
     if p.passNext { p.passNext = false; return ActionPass }
     if p.discardNext { p.discardNext = false; return ActionCollapse }
     if root.Dig("delete") != nil { return ActionCollapse }
     if root.Dig("update") != nil { p.discardNext = true; return ActionCollapse }
     if root.Dig("index") != nil  { p.passNext = true; return ActionCollapse }
     if root.Dig("create") != nil { p.passNext = true; return ActionCollapse }
     return ActionDiscard                                                                           *)
Definition es_state := (bool * bool)%type.
Definition parse_es_do (st : es_state) (ev : option json) : res (Z * es_state) :=
  let '(pass_next, discard_next) := st in
  match ev with
  | None => Ok (ADiscard, st)
  | Some root =>
      if pass_next && discard_next then Panic 3
      else if pass_next then Ok (APass, (false, discard_next))
      else if discard_next then Ok (ACollapse, (pass_next, false))
      else if is_some (jdig root [k_delete]) then Ok (ACollapse, st)
      else if is_some (jdig root [k_update]) then Ok (ACollapse, (pass_next, true))
      else if is_some (jdig root [k_index]) then Ok (ACollapse, (true, discard_next))
      else if is_some (jdig root [k_create]) then Ok (ACollapse, (true, discard_next))
      else Ok (ADiscard, st)
  end.

Fixpoint parse_es_run (st : es_state) (evs : list (option json)) : res (list Z * es_state) :=
  match evs with
  | [] => Ok ([], st)
  | e :: rest =>
      '(r, st1) <- parse_es_do st e ;;
      '(rs, st2) <- parse_es_run st1 rest ;;
      Ok (r :: rs, st2)
  end.

(* ---- cardinality --------------------------------------------------------------------------------
   cache = the set of full keys seen so far (no entry expires: ttl beyond the run; the expiry path
   runs an asynchronous delete and is not modelled).  parsedFields.appendTo:
     "[]" when there are no fields, else "[" name ":" value { " " name ":" value } "]"             *)
Fixpoint append_fields (names vals : list bytes) (first : bool) : bytes :=
  match names, vals with
  | n :: ns, v :: vs => (if first then [] else [32%N]) ++ n ++ [58%N] ++ v ++ append_fields ns vs false
  | _, _ => []
  end.
Definition append_to (names vals : list bytes) : bytes := [91%N] ++ append_fields names vals true ++ [93%N].

Definition count_prefix (cache : list bytes) (prefix : bytes) : Z :=
  len (filter (fun k => has_prefix k prefix) cache).

(*   for i, key := range p.keys.fields { p.keys.valsBuf[i] = event.Root.Dig(key.value...).AsString() }
     prefixKey := p.keys.appendTo(...); keysCount := p.cache.CountPrefix(prefixKey)
     if p.config.Limit >= 0 && keysCount >= p.config.Limit {
        switch Action { case "discard": return ActionDiscard
                        case "remove_fields": for _, key := range p.fields.fields { event.Root.Dig(key.value...).Suicide() }; return ActionPass } }
     for i, key := range p.fields.fields { p.fields.valsBuf[i] = event.Root.Dig(key.value...).AsString() }
     p.cache.Set(prefixKey + p.fields.appendTo()); ...metric...; return ActionPass
   action: 0 nothing | 1 discard | 2 remove_fields *)
Definition card_do (keys fields : list (bytes * list bytes)) (limit action : Z)
  (cache : list bytes) (root : json) : res (Z * json * list bytes) :=
  let kvals := map (fun kf => as_string (jdig root (snd kf))) keys in
  let prefix := append_to (map fst keys) kvals in
  let count := count_prefix cache prefix in
  if (0 <=? limit) && (limit <=? count) && (action =? 1) then Ok (ADiscard, root, cache)
  else if (0 <=? limit) && (limit <=? count) && (action =? 2) then
    Ok (APass, fold_left (fun r kf => jremove r (snd kf)) fields root, cache)
  else
    let fvals := map (fun kf => as_string (jdig root (snd kf))) fields in
    let full := prefix ++ append_to (map fst fields) fvals in
    Ok (APass, root, if mem_bytes full cache then cache else full :: cache).

Fixpoint card_run (keys fields : list (bytes * list bytes)) (limit action : Z)
  (cache : list bytes) (evs : list json) : res (list (Z * json)) :=
  match evs with
  | [] => Ok []
  | e :: rest =>
      '(r, t, cache1) <- card_do keys fields limit action cache e ;;
      outs <- card_run keys fields limit action cache1 rest ;;
      Ok ((r, t) :: outs)
  end.
