(* Value-level model of the insane-json tree operations the modelled actions use (Dig with array
   indices, Suicide, AddFieldNoAlloc + Mutate*, pipeline.CreateNestedField, pipeline.MergeToRoot)
   over the trees of Base/Json.v, and the well-formedness predicate of the property ("the event
   still is a well-formed JSON document").  insane-json is third-party: these are oracle models,
   compared with the real library by the tree-level differential streams.  Assumption carried by
   those streams: objects have at most 16 fields or no duplicate keys (above MapUseThreshold
   insane-json looks a key up in a map, which finds the LAST duplicate instead of the first).
   No proofs here. *)
From Verif Require Import Base.Sx Base.GoSem Base.Json Model.Decoders.Common.

(* strconv.Atoi as Dig uses it for array indices: optional sign, decimal digits *)
Definition atoi_signed (l : bytes) : option Z :=
  match l with
  | 43%N :: r => atoi r                                     (* '+' *)
  | 45%N :: r => match atoi r with Some x => Some (- x) | None => None end
  | _ => atoi l
  end.

(* Node.Dig(path...) *)
Fixpoint jdig (j : json) (path : list bytes) : option json :=
  match path with
  | [] => Some j
  | k :: rest =>
      match j with
      | JObj fs => match field_get fs k with Some v => jdig v rest | None => None end
      | JArr l =>
          match atoi_signed k with
          | Some i => if (0 <=? i) && (i <? len l)
                      then match nth_error l (Z.to_nat i) with Some x => jdig x rest | None => None end
                      else None
          | None => None
          end
      | _ => None
      end
  end.

(* the node Dig finds, replaced by [f node] *)
Fixpoint jupdate (j : json) (path : list bytes) (f : json -> json) : json :=
  match path with
  | [] => f j
  | k :: rest =>
      match j with
      | JObj fs =>
          match field_index fs k 0 with
          | Some i => match nth_error fs i with
                      | Some (k', v) => JObj (set_at fs i (k', jupdate v rest f))
                      | None => j
                      end
          | None => j
          end
      | JArr l =>
          match atoi_signed k with
          | Some i => if (0 <=? i) && (i <? len l)
                      then match nth_error l (Z.to_nat i) with
                           | Some x => JArr (set_at l (Z.to_nat i) (jupdate x rest f))
                           | None => j
                           end
                      else j
          | None => j
          end
      | _ => j
      end
  end.

(* Dig(path).Suicide(): an object loses the field by swap-remove, an array keeps its order *)
Fixpoint jremove (j : json) (path : list bytes) : json :=
  match path with
  | [] => j                                                  (* the root is immortal *)
  | [k] =>
      match j with
      | JObj fs => match field_index fs k 0 with Some i => JObj (swap_remove fs i) | None => j end
      | JArr l =>
          match atoi_signed k with
          | Some i => if (0 <=? i) && (i <? len l) then JArr (remove_at l (Z.to_nat i)) else j
          | None => j
          end
      | _ => j
      end
  | k :: rest =>
      match jdig j [k] with
      | Some _ => jupdate j [k] (fun v => jremove v rest)
      | None => j
      end
  end.

(* obj.AddFieldNoAlloc(root, k) followed by a Mutate* to [v]: the first field named k, else a new last field *)
Definition set_field (fs : list (bytes * json)) (k : bytes) (v : json) : list (bytes * json) :=
  match field_index fs k 0 with
  | Some i => set_at fs i (k, v)
  | None => fs ++ [(k, v)]
  end.

(* node.AsString() / AsBytes() of what Dig returned (nil included) *)
Definition as_string (o : option json) : bytes :=
  match o with
  | Some (JStr s) => s
  | Some (JNum r) => r
  | Some (JBool true) => [116; 114; 117; 101]%N
  | Some (JBool false) => [102; 97; 108; 115; 101]%N
  | Some JNull => [110; 117; 108; 108]%N
  | _ => []
  end.

(* pipeline.CreateNestedField(root, path) followed by a Mutate* of the returned node to [leaf]:
   every node on the path becomes an object (a non-object value is replaced); nothing happens
   when the root is not an object (AddFieldNoAlloc answers nil, every later call is nil-safe) *)
Fixpoint create_nested (j : json) (path : list bytes) (leaf : json) : json :=
  match path with
  | [] => leaf
  | k :: rest =>
      match j with
      | JObj fs =>
          let sub := match field_get fs k with Some (JObj s) => JObj s | _ => JObj [] end in
          JObj (set_field fs k (create_nested sub rest leaf))
      | _ => j
      end
  end.

(* pipeline.MergeToRoot(root, src): both must be objects *)
Definition merge_to_root (root : json) (src : list (bytes * json)) : json :=
  match root with
  | JObj fs => JObj (fold_left (fun acc kv => set_field acc (fst kv) (snd kv)) src fs)
  | _ => root
  end.

(* ---- the property's well-formedness: a number node carries a JSON number ------------------------ *)
Definition is_digit19 (c : byte) : bool := (49 <=? c)%N && (c <=? 57)%N.
Fixpoint skip_digits (l : bytes) : bytes :=
  match l with c :: r => if is_digit c then skip_digits r else l | [] => [] end.
Definition digits1 (l : bytes) : option bytes :=           (* one or more digits, the rest *)
  match l with c :: r => if is_digit c then Some (skip_digits r) else None | [] => None end.

(* the JSON number grammar: optional minus, 0 or a digit 1-9 followed by digits, optional fraction
   (dot and one or more digits), optional exponent (e or E, optional sign, one or more digits) *)
Definition json_number_ok (raw : bytes) : bool :=
  let l := match raw with c :: r => if beq c 45%N then r else raw | [] => raw end in
  let after_int := match l with
                   | c :: r => if beq c 48%N then Some r
                               else if is_digit19 c then Some (skip_digits r) else None
                   | [] => None
                   end in
  match after_int with
  | None => false
  | Some l1 =>
      let after_frac := match l1 with
                        | c :: r => if beq c 46%N then digits1 r else Some l1
                        | [] => Some l1
                        end in
      match after_frac with
      | None => false
      | Some l2 =>
          match l2 with
          | [] => true
          | c :: r =>
              if beq c 101%N || beq c 69%N then
                let r1 := match r with s :: r' => if beq s 43%N || beq s 45%N then r' else r | [] => [] end in
                match digits1 r1 with Some [] => true | _ => false end
              else false
          end
      end
  end.

Fixpoint wf_json (j : json) : bool :=
  match j with
  | JNum r => json_number_ok r
  | JArr l => forallb wf_json l
  | JObj fs => forallb (fun kv => wf_json (snd kv)) fs
  | _ => true
  end.

(* strconv.FormatUint(n, 10) for n >= 0 *)
Fixpoint dec_digits (fuel : nat) (n : Z) (acc : bytes) : bytes :=
  match fuel with
  | O => acc
  | S f => if n <? 10 then Z.to_N (48 + n) :: acc
           else dec_digits f (n / 10) (Z.to_N (48 + n mod 10) :: acc)
  end.
Definition format_uint (n : Z) : bytes := dec_digits 64 n [].
