(* C13 runner entry (action-plugin part): dispatch of one (which, case, observed) line.
     0..29  generic layer: one chain of real plugins on adversarial events; the model's answer is the
            constant (1) = "every Do returned a defined result, nothing panicked, every event that
            went on encodes, is valid JSON, re-parses to the same tree and is unchanged afterwards"
     30 cut filter        case (first count #src)                 obs (0 #out) | (2) | (7) rejected by validation (count <= 0)
     31 trim_to filter    case (mode #cutset #src)                obs (0 #out) | (2) | (7) rejected (empty cutset)
     32 trim filter       case (mode #cutset #src)                obs (0 #out) | (2)
     33 re filter         case (#re limit (group ...) #sep emptyOnNotMatched #src)
                          obs  (nsub ((i ...) ...) out)           the regexp's answer is the oracle part
   Tree-level streams: the case carries the action's config JSON and the event tree; what the
   collector's own helpers made of the config (parsed selectors = (#seg ...), sub-expression names,
   regexp matches, ...) comes back in the observation as the oracle part; out = (0 tree) | (2).
     34 parse_re2 Do      case (#cfg tree)                        obs ((#seg ...) #prefix (#name ...) sm out)
                                                                  sm = (#group ...), () when there is no match
     35 convert_utf8 Do   case (#cfg tree)                        obs (replace ((#seg ...) ...) (graphic-code-point ...) out)
     36 hash normaliser   case (mask #data)                       obs (0 #out) | (2)         mask bit p-1 = pattern p
     37 split Do          case (isChild #cfg tree)                obs ((#seg ...) (0 (result (child ...))) | (2))
     38 json_extract Do   case (#cfg tree)                        obs ((#seg ...) ((#seg ...) ...) (#seg ...) dup #prefix doc out)
     39 hash Do           case (#cfg tree)                        obs ((((#seg ...) normalize maxSize) ...) (#seg ...) h out)
     40 modify Do         case (skipEmpty #target (op ...) tree)  obs ((#seg ...) ((#seg ...) ...) out)
                          op = (0 #raw) | (1 #selector (filter ...)); filter = (0 first count) | (1 mode #cutset) | (2 mode #cutset)
                          the harness prints the substitution in the documented syntax; the second list of
                          the observation = the parsed selector of every field op, in order
     41 modify Do, ONE instance over several events (its buffers are reused: long then short values)
                          case (skipEmpty #target (op ...) (tree ...))  obs ((#seg ...) ((#seg ...) ...) (out ...))
                          every (tree, out) pair is judged as a case of 40; the first verdict that is not Agree is the answer
     42..49 rename, move, flatten, json_encode, json_decode, convert_log_level, set_time / add_host / add_file_name /
            convert_date / discard / debug (48), parse_es / cardinality over event sequences (49): formats at the
            head of Model/Actions/ExtraEntry.v
   No proofs here.
   >>> which >= 50 (processor-level time-out delivery) is added by the coordinator in c13_entry; the
   >>> default branch below answers BadCase. *)
From Verif Require Import Base.Sx Base.GoSem Base.Json Model.Decoders.Common
  Model.Actions.Tree Model.Actions.Subst Model.Actions.ConvertUtf8 Model.Actions.HashNorm Model.Actions.Plugins
  Model.Actions.ExtraEntry.

Definition is_panic_obs (o : sx) : bool := match o with SL (SZ 2 :: _) => true | _ => false end.

(* a differential sub-model: a panic observed violates the property whatever the model says; a
   different value without a panic is a correspondence failure *)
Definition diff_verdict (model obs : sx) : verdict :=
  if is_panic_obs obs then Violates model
  else if sx_eqb model obs then Agree else Differ model.

Definition sx_res_bytes (r : res bytes) : sx := sx_of_res SB r.
Definition sx_res_json (r : res json) : sx := sx_of_res sx_of_json r.

Definition as_path (s : sx) : option (list bytes) := as_list as_B s.

(* observed tree of a tree-level stream must itself be well formed *)
Definition out_tree_wf (out : sx) : bool :=
  match out with
  | SL [SZ 0; t] => match json_of_sx t with Some j => wf_json j | None => false end
  | _ => true
  end.
Definition tree_verdict (model out : sx) : verdict :=
  if is_panic_obs out || negb (out_tree_wf out) then Violates model
  else if sx_eqb model out then Agree else Differ model.

Definition generic_run (case obs : sx) : verdict :=
  match case with
  | SL [SL _; SL _] => exact_verdict (SL [SZ 1]) obs
  | _ => BadCase
  end.

Definition cut_run (case obs : sx) : verdict :=
  match case with
  | SL [f; SZ count; SB src] =>
      match as_bool f with
      | Some first =>
          if count <=? 0 then diff_verdict (SL [SZ 7]) obs      (* parseCutFilter: must be greater than 0 *)
          else diff_verdict (sx_res_bytes (cut_apply first count src)) obs
      | None => BadCase
      end
  | _ => BadCase
  end.

Definition trim_to_run (case obs : sx) : verdict :=
  match case with
  | SL [SZ mode; SB cutset; SB src] =>
      match cutset with
      | [] => diff_verdict (SL [SZ 7]) obs                       (* parseTrimToFilter: must be non-empty *)
      | _ :: _ => diff_verdict (sx_res_bytes (trim_to_apply mode cutset src)) obs
      end
  | _ => BadCase
  end.

Definition trim_run (case obs : sx) : verdict :=
  match case with
  | SL [SZ mode; SB cutset; SB src] => diff_verdict (sx_res_bytes (Ok (trim_apply mode cutset src))) obs
  | _ => BadCase
  end.

Definition re_run (case obs : sx) : verdict :=
  match case, obs with
  | SL [SB _; SZ _; gs; SB sep; e; SB src], SL [SZ nsub; SL idxs; out] =>
      match as_list as_Z gs, as_bool e, opt_map (as_list as_Z) idxs with
      | Some groups, Some emp, Some indexes =>
          (* the oracle hypotheses of c13_modify_re_total *)
          if groups_ok nsub groups && forallb (index_ok nsub (len src)) indexes then
            diff_verdict (sx_res_bytes (re_apply groups sep emp indexes src src)) out
          else BadCase
      | _, _, _ => BadCase
      end
  | _, _ => BadCase
  end.

Definition parse_re2_run (case obs : sx) : verdict :=
  match case, obs with
  | SL [SB _; t], SL [p; SB prefix; ns; sm; out] =>
      match json_of_sx t, as_path p, as_list as_B ns, as_list as_B sm with
      | Some root, Some path, Some names, Some sm =>
          (* oracle hypothesis: a match has one entry per sub-expression name *)
          if (len sm =? 0) || (len sm =? len names) then
            tree_verdict (sx_res_json (parse_re2_do root path prefix names sm)) out
          else BadCase
      | _, _, _, _ => BadCase
      end
  | _, _ => BadCase
  end.

Definition mem_Z (l : list Z) (x : Z) : bool := existsb (Z.eqb x) l.

Definition convert_run (case obs : sx) : verdict :=
  match case, obs with
  | SL [SB _; t], SL [r; ps; gr; out] =>
      match as_bool r, json_of_sx t, as_list as_path ps, as_list as_Z gr with
      | Some replace, Some root, Some paths, Some graphic =>
          tree_verdict (sx_res_json (convert_do (mem_Z graphic) replace root paths)) out
      | _, _, _, _ => BadCase
      end
  | _, _ => BadCase
  end.

Definition norm_run (case obs : sx) : verdict :=
  match case with
  | SL [SZ mask; SB data] =>
      if (0 <=? mask) && (mask <? 64) then
        let has := fun p => Z.testbit mask (p - 1) in
        diff_verdict (sx_res_bytes (normalize_by_tokenizer has data)) obs
      else BadCase
  | _ => BadCase
  end.

Definition split_run (case obs : sx) : verdict :=
  match case, obs with
  | SL [c; SB _; t], SL [p; out] =>
      match as_bool c, json_of_sx t, as_path p with
      | Some is_child, Some root, Some path =>
          let m := sx_of_res (fun rc => SL [SZ (fst rc); SL (map sx_of_json (snd rc))]) (split_do is_child root path) in
          diff_verdict m out
      | _, _, _ => BadCase
      end
  | _, _ => BadCase
  end.

Definition extract_run (case obs : sx) : verdict :=
  match case, obs with
  | SL [SB _; t], SL [p; efs; ef; d; SB prefix; doc; out] =>
      match json_of_sx t, as_path p, as_list as_path efs, as_path ef, as_bool d, json_of_sx doc with
      | Some root, Some path, Some efs, Some ef, Some dup, Some doc =>
          let m := match extract_tree efs ef dup with
                   | Ok fields => json_extract_do (fun r => r) prefix root path doc fields
                   | Err e => Err e
                   | Panic q => Panic q
                   end in
          tree_verdict (sx_res_json m) out
      | _, _, _, _, _, _ => BadCase
      end
  | _, _ => BadCase
  end.

Definition as_hash_field (s : sx) : option (list bytes * bool * Z) :=
  match s with
  | SL [p; n; SZ mx] =>
      match as_path p, as_bool n with Some p, Some n => Some (p, n, mx) | _, _ => None end
  | _ => None
  end.

Definition hash_run (case obs : sx) : verdict :=
  match case, obs with
  | SL [SB _; t], SL [fs; rp; SZ h; out] =>
      match json_of_sx t, as_list as_hash_field fs, as_path rp with
      | Some root, Some fields, Some rpath =>
          tree_verdict (sx_res_json (hash_do (fun _ _ => h) root fields rpath)) out
      | _, _, _ => BadCase
      end
  | _, _ => BadCase
  end.

Definition as_filter (s : sx) : option ffilter :=
  match s with
  | SL [SZ 0; f; SZ count] => match as_bool f with Some f => Some (FCut f count) | None => None end
  | SL [SZ 1; SZ mode; SB cs] => Some (FTrimTo mode cs)
  | SL [SZ 2; SZ mode; SB cs] => Some (FTrim mode cs)
  | _ => None
  end.
(* field ops: the selector text is in the case, its parse in the observation *)
Fixpoint as_sops (ops : list sx) (paths : list (list bytes)) : option (list sop) :=
  match ops with
  | [] => match paths with [] => Some [] | _ => None end
  | SL [SZ 0; SB raw] :: r =>
      match as_sops r paths with Some l => Some (SRaw raw :: l) | None => None end
  | SL [SZ 1; SB _; fl] :: r =>
      match paths with
      | p :: ps =>
          match as_list as_filter fl, as_sops r ps with
          | Some fl, Some l => Some (SField p fl :: l)
          | _, _ => None
          end
      | [] => None
      end
  | _ => None
  end.

Definition modify_run (case obs : sx) : verdict :=
  match case, obs with
  | SL [se; SB _; SL ops; t], SL [tp; fps; out] =>
      match as_bool se, json_of_sx t, as_path tp, as_list as_path fps with
      | Some skip_empty, Some root, Some target, Some fpaths =>
          match as_sops ops fpaths with
          | Some sops => tree_verdict (sx_res_json (modify_do skip_empty root [(target, sops)])) out
          | None => BadCase
          end
      | _, _, _, _ => BadCase
      end
  | _, _ => BadCase
  end.

(* 41: pure glue over modify_run (the model is a function of the event only: an instance has no state
   that may show in its output) *)
Fixpoint modify_seq_fold (se tgt ops tp fps : sx) (trees outs : list sx) : verdict :=
  match trees, outs with
  | [], [] => Agree
  | t :: ts, o :: os =>
      match modify_run (SL [se; tgt; ops; t]) (SL [tp; fps; o]) with
      | Agree => modify_seq_fold se tgt ops tp fps ts os
      | v => v
      end
  | _, _ => BadCase
  end.
Definition modify_seq_run (case obs : sx) : verdict :=
  match case, obs with
  | SL [se; tgt; ops; SL trees], SL [tp; fps; SL outs] => modify_seq_fold se tgt ops tp fps trees outs
  | _, _ => BadCase
  end.

Definition c13_actions_entry (which : Z) (case obs : sx) : verdict :=
  if (0 <=? which) && (which <? 30) then generic_run case obs else
  match which with
  | 30 => cut_run case obs
  | 31 => trim_to_run case obs
  | 32 => trim_run case obs
  | 33 => re_run case obs
  | 34 => parse_re2_run case obs
  | 35 => convert_run case obs
  | 36 => norm_run case obs
  | 37 => split_run case obs
  | 38 => extract_run case obs
  | 39 => hash_run case obs
  | 40 => modify_run case obs
  | 41 => modify_seq_run case obs
  (* 42..49: rename, move, flatten, json_encode, json_decode, convert_log_level, one-step plugins, sequences
     (Model/Actions/ExtraEntry.v) *)
  | 42 | 43 | 44 | 45 | 46 | 47 | 48 | 49 => c13_extra_entry which case obs
  (* >>> coordinator: which >= 50 = processor-level time-out delivery goes here <<< *)
  | _ => BadCase
  end.
