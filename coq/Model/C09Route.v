(* C09, sub-model which = 2 — "a failed batch goes exactly ONE way", for the real output plugins behind a Router
   (harness/c09/route.go).  Executable specification of WHICH way a batch goes as a function of
   (plugin kind, dead queue?, retry count, fatal / strict / split_batch flags, the far end's answer history).
   No proofs here (Proofs/C09Route.v).

   kinds   0 elasticsearch, 1 http, 2 splunk, 3 loki (HTTP: the answer is a status code; 0 = connection refused),
           4 socket, 5 clickhouse, 6 gelf (connection-oriented: 1 = accepted, 0 = connection refused)
   out() of a plugin classifies one attempt:
     AOk    delivered: out() returns nil                                  -> the retry loop ends, main commits
     ADrop  non-retryable answer: out() logs and returns nil, undelivered -> the retry loop ends, main commits (drop)
     ARetry out() returns the error                                       -> retried, or given up when exhausted        *)
From Verif Require Import Base.Sx.
From Coq Require Import List ZArith Bool.
Import ListNotations.
Local Open Scope Z_scope.

Inductive acls : Type := AOk | ADrop | ARetry.

(* an answer of the far end is one number a = status + 1000 * body class (a < 1000: the historical body {"code":0}).
   Body classes (harness/c09/route.go rBodies): 0 {"code":0}; 1 not JSON at all; 2 elasticsearch bulk answer with
   "errors":true and per-item errors; 3 "errors":true with empty "items"; 4 "errors":true, items without "index" / with a
   status >= 400 and no "error"; 5 "errors":false *)
Definition a_status (a : Z) : Z := a mod 1000.
Definition a_body (a : Z) : Z := a / 1000.

(* xhttp.Client.DoTimeout: an answer is a success iff 200 <= status <= 202 ... *)
Definition ok2xx (s : Z) : bool := (200 <=? s) && (s <=? 202).

(* ... and, when the plugin passes a processResponse function, iff that function accepts the body:
   elasticsearch with process_response (reportESErrors): everything that decodes as JSON is accepted — indexing errors
   reported by elasticsearch are logged and the batch counts as delivered; a body that does not decode is an error
   (with the 2xx status, which out() retries).  splunk (parseSplunkError): a JSON object with "code" <= 0.
   http passes no function; loki / the connection-oriented kinds never look at a body. *)
Definition body_ok (kind : Z) (presp : bool) (b : Z) : bool :=
  if kind =? 0 then negb presp || negb (b =? 1)
  else if kind =? 2 then b =? 0
  else true.

Definition classify (kind : Z) (presp : bool) (a : Z) : acls :=
  let s := a_status a in
  if (kind =? 0) || (kind =? 1) then          (* elasticsearch.go / http.go out(): 400 and 413 are not retried *)
    if ok2xx s then (if body_ok kind presp (a_body a) then AOk else ARetry)
    else if (s =? 400) || (s =? 413) then ADrop else ARetry
  else if kind =? 2 then                      (* splunk.go out(): only 400 is not retried *)
    if ok2xx s then (if body_ok kind presp (a_body a) then AOk else ARetry)
    else if s =? 400 then ADrop else ARetry
  else if kind =? 3 then                      (* loki.go send(): success is 204 and nothing else; out(): 400 is not retried *)
    if s =? 204 then AOk else if s =? 400 then ADrop else ARetry
  else                                        (* socket / clickhouse / gelf: connected and written, or an error *)
    if s =? 1 then AOk else ARetry.

(* the far end: request k is answered with the k-th element of pre, later ones with tail *)
Record src : Type := { pre : list Z; tail : Z }.
Definition next (s : src) : Z * src :=
  match pre s with
  | [] => (tail s, s)
  | x :: r => (x, {| pre := r; tail := tail s |})
  end.

(* a far end that gives the same answer for ever *)
Definition const_src (a : Z) : src := {| pre := []; tail := a |}.

(* what the fake HTTP server counts: requests that reached it (a refused connection does not; the connection-oriented
   far ends do not count) *)
Definition seen (kind st : Z) : nat := if (kind <=? 3) && negb (st =? 0) then 1%nat else 0%nat.

(* presp: elasticsearch's process_response option (bit 0 of the optional 12th element of a case; the other bits are
   options the way of a batch must NOT depend on: gzip, authorisation, ingest pipeline, index name pattern, event size,
   TLS — the specification ignores them) *)
Record rcfg : Type := {
  kind : Z; dq : bool; retry : Z; fatal : bool; strict : bool; split : bool; bsize : nat; nbatch : nat; presp : bool }.

Definition strict_on (c : rcfg) : bool := strict c && (kind c <=? 1).
Definition split_on (c : rcfg) : bool := split c && (kind c <=? 1).

(* sendSplit(left, right) of elasticsearch.go / http.go on cnt = right - left events: one request; on 413 with more than
   one event the halves [left, middle) and [middle, right), middle = (left + right) / 2, the second only when the first
   succeeded.  Result: (status, failed?, requests seen, rest of the script) *)
Fixpoint send_split (fuel : nat) (k : Z) (pr : bool) (cnt : nat) (s : src) : option (Z * bool * nat * src) :=
  match fuel with
  | O => None
  | S f =>
      if Nat.eqb cnt 0 then Some (200, false, 0%nat, s) else
      let '(a, s1) := next s in
      let st := a_status a in
      if ok2xx st && body_ok k pr (a_body a) then Some (200, false, seen k st, s1)
      else if (st =? 413) && Nat.ltb 1 cnt then
        let mid := Nat.div2 cnt in
        match send_split f k pr mid s1 with
        | None => None
        | Some (st1, true, n1, s2) => Some (st1, true, (seen k st + n1)%nat, s2)
        | Some (_, false, n1, s2) =>
            match send_split f k pr (cnt - mid) s2 with
            | None => None
            | Some (st2, e2, n2, s3) => Some (st2, e2, (seen k st + n1 + n2)%nat, s3)
            end
        end
      else Some (st, true, seen k st, s1)   (* a 2xx whose body the plugin rejects: error with the 2xx status *)
  end.

(* one call of the plugin's out() on a batch of bsize events: class, requests seen, rest of the script *)
Definition attempt (c : rcfg) (s : src) : option (acls * nat * src) :=
  if split_on c then
    match send_split (S (bsize c)) (kind c) (presp c) (bsize c) s with
    | None => None
    | Some (st, err, n, s') =>
        Some (if err then (if (st =? 400) || (st =? 413) then ADrop else ARetry) else AOk, n, s')
    end
  else
    let '(a, s') := next s in Some (classify (kind c) (presp c) a, seen (kind c) (a_status a), s').

(* the way a batch goes *)
Inductive way : Type :=
| WMain   (* delivered by the main output, committed by it *)
| WDrop   (* non-retryable answer: dropped, committed by the main output *)
| WDead   (* retries exhausted, dead queue configured: every event handed to it once and committed by it alone *)
| WErr.   (* retries exhausted, no dead queue: error callback, committed by the main output *)

(* RetriableBatcher.Out around out(): give up when 0 <= AttemptNum < numTries *)
Fixpoint batch_loop (fuel : nat) (c : rcfg) (tries : nat) (s : src) (reqs : nat) : option (way * nat * nat * src) :=
  match fuel with
  | O => None
  | S f =>
      match attempt c s with
      | None => None
      | Some (AOk, n, s') => Some (WMain, tries, (reqs + n)%nat, s')
      | Some (ADrop, n, s') => Some (WDrop, tries, (reqs + n)%nat, s')
      | Some (ARetry, n, s') =>
          if (0 <=? retry c) && (retry c <? Z.of_nat tries)
          then Some (if dq c then WDead else WErr, tries, (reqs + n)%nat, s')
          else batch_loop f c (S tries) s' (reqs + n)%nat
      end
  end.

Definition batch_fuel (c : rcfg) (s : src) : nat := (length (pre s) + Z.to_nat (retry c) + 3)%nat.

(* the batches of a case, one worker: the script is consumed batch after batch *)
Fixpoint batches (nb : nat) (c : rcfg) (s : src) (reqs : nat) : option (list (way * nat) * nat) :=
  match nb with
  | O => Some ([], reqs)
  | S nb' =>
      match batch_loop (batch_fuel c s) c 0 s reqs with
      | None => None
      | Some (w, t, reqs', s') =>
          match batches nb' c s' reqs' with
          | None => None
          | Some (ws, r) => Some ((w, t) :: ws, r)
          end
      end
  end.

(* Fatal-level log entries: the give-up callback without a dead queue under fatal_on_failed_insert; a non-retryable
   answer under `strict` *)
Definition fatal_of (c : rcfg) (w : way) : Z :=
  match w with
  | WErr => if fatal c then 1 else 0
  | WDrop => if strict_on c then 1 else 0
  | _ => 0
  end.

(* per event: (commits by the main output, times handed to the dead queue, commits by the dead queue) *)
Definition ev_obs (w : way) : Z * Z * Z :=
  match w with WDead => (0, 1, 1) | _ => (1, 0, 0) end.

Definition ev_sx (t : Z * Z * Z) : sx := let '(m, h, d) := t in SL [SZ m; SZ h; SZ d].

Fixpoint sumZ (l : list Z) : Z := match l with [] => 0 | x :: r => x + sumZ r end.

Definition route_obs (c : rcfg) (ws : list (way * nat)) (reqs : nat) : sx :=
  SL [SZ (Z.of_nat reqs); SZ (sumZ (map (fun wt => fatal_of c (fst wt)) ws));
      SL (concat (map (fun wt => repeat (ev_sx (ev_obs (fst wt))) (bsize c)) ws))].

Definition route_model (c : rcfg) (s : src) : option sx :=
  match batches (nbatch c) c s 0 with
  | None => None
  | Some (ws, reqs) => Some (route_obs c ws reqs)
  end.

(* ---- the property's own predicate on an observable -------------------------------------------------------------
   every event: committed once by the main output and never near the dead queue, or handed to the dead queue once and
   committed once by it alone — the latter only when a dead queue is configured; the number of events is the number
   sent; with a dead queue (and without `strict`) nothing is fatal *)
Definition ev_ok (c : rcfg) (e : sx) : bool :=
  match e with
  | SL [SZ m; SZ h; SZ d] =>
      ((m =? 1) && (h =? 0) && (d =? 0)) || ((m =? 0) && (h =? 1) && (d =? 1) && dq c)
  | _ => false
  end.

Definition one_way_ok (c : rcfg) (o : sx) : bool :=
  match o with
  | SL [SZ reqs; SZ fatals; SL evs] =>
      forallb (ev_ok c) evs && Nat.eqb (length evs) (nbatch c * bsize c) &&
      (0 <=? fatals) && (negb (dq c && negb (strict_on c)) || (fatals =? 0))
  | _ => false
  end.

(* ---- glue ---------------------------------------------------------------------------------------------------- *)
Definition rcase_mk (k : Z) (d : sx) (r : Z) (f st sp b nb p : sx) (tl eopts : Z) : option (rcfg * src) :=
  match as_bool d, as_bool f, as_bool st, as_bool sp, as_nat b, as_nat nb, as_list as_Z p with
  | Some d', Some f', Some st', Some sp', Some b', Some nb', Some p' =>
      if 0 <=? eopts then
        Some ({| kind := k; dq := d'; retry := r; fatal := f'; strict := st'; split := sp'; bsize := b'; nbatch := nb';
                 presp := Z.odd eopts && (k =? 0) |},
              {| pre := p'; tail := tl |})
      else None
  | _, _, _, _, _, _, _ => None
  end.

(* 11 elements: the historical case (no options); 12: + the option bits *)
Definition rcase_of_sx (cs : sx) : option (rcfg * src) :=
  match cs with
  | SL [SZ k; d; SZ r; f; st; sp; SZ _workers; b; nb; p; SZ tl] => rcase_mk k d r f st sp b nb p tl 0
  | SL [SZ k; d; SZ r; f; st; sp; SZ _workers; b; nb; p; SZ tl; SZ eopts] => rcase_mk k d r f st sp b nb p tl eopts
  | _ => None
  end.

Definition c09_route_run (case obs : sx) : verdict :=
  match rcase_of_sx case with
  | None => BadCase
  | Some (c, s) =>
      match route_model c s with
      | None => BadCase       (* retry forever against a far end that never accepts: the generator does not ask for it *)
      | Some m =>
          if sx_eqb m obs then Agree
          else if one_way_ok c obs then Differ m else Violates m
      end
  end.
