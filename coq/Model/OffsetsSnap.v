(* OffsetsSnap.v — commits and saves of the file input plugin as a labelled transition system at
   mutex-region granularity (plugin/input/file/provider.go: commit; offset.go: save / snapshotJobs).
   One label = one critical section: commit stores an offset under job.mu; save copies the job list under
   jobsMu.RLock, then for every job, under that job's mu, appends the job's whole offsets map to the
   shared buffer, then writes the buffer out (Model/FsCrash.v covers how).  No proofs here. *)
From Verif Require Import Base.Sx Base.GoSem.

(* pipeline.SliceMap: stream name -> offset, Get returns 0 for an absent name *)
Definition smap := list (bytes * Z).
Fixpoint sget (m : smap) (k : bytes) : Z :=
  match m with
  | [] => 0
  | (k', v) :: r => if bytes_eqb k' k then v else sget r k
  end.
Fixpoint sset (m : smap) (k : bytes) (v : Z) : smap :=
  match m with
  | [] => [(k, v)]
  | (k', v') :: r => if bytes_eqb k' k then (k', v) :: r else (k', v') :: sset r k v
  end.

(* jobs: source id -> offsets *)
Definition table := list (N * smap).
Fixpoint tget (t : table) (j : N) : option smap :=
  match t with
  | [] => None
  | (j', m) :: r => if N.eqb j' j then Some m else tget r j
  end.
Fixpoint tset (t : table) (j : N) (m : smap) : table :=      (* replaces an existing job's map *)
  match t with
  | [] => []
  | (j', m') :: r => if N.eqb j' j then (j', m) :: r else (j', m') :: tset r j m
  end.

(* Several saves of ONE offsetDB may be in flight (persistence_mode sync: every committing goroutine calls
   save; the async saver may overlap stop()).  They share o.buf; o.mu serialises them.  A save: takes o.mu,
   resets o.buf, visits the jobs of its snapshot appending their blocks, then writes o.buf to its own temp
   file and renames it over the offsets file.  [hold] = does the save keep o.mu until after the rename
   (Gen/SaveProtocol.v: save_holds_mu_until_rename, read off the Go AST)?  With hold = false the lock is
   released once the buffer is built, before the write. *)
Inductive label :=
| LAddJob (j : N)                       (* a file is discovered: jobs[j] = a job without offsets *)
| LCommit (j : N) (s : bytes) (v : Z)   (* jobProvider.commit: job.offsets.Set(s, v) under job.mu *)
| LSaveBegin (i : nat)                  (* save i: o.mu.Lock, snapshotJobs under jobsMu.RLock, o.buf = o.buf[:0] *)
| LSaveJob (i : nat)                    (* save i: lock the next job of its snapshot, append its offsets to o.buf *)
| LSaveBuilt (i : nat)                  (* save i: every job visited (hold = false: o.mu.Unlock here) *)
| LSaveWrite (i : nat)                  (* save i: file.Write(o.buf) + Sync — whatever o.buf holds NOW *)
| LSaveRename (i : nat).                (* save i: its temp file replaces the offsets file (hold = true: o.mu.Unlock) *)

Inductive phase :=
| Building (rest : list N)              (* jobs of the snapshot still to visit *)
| Ready                                 (* buffer built, not yet written *)
| Written (tmp : table).                (* content of the temp file *)

Record cst := {
  live : table;                          (* the committed offsets, now *)
  mu : option nat;                       (* which save holds o.mu *)
  buf : table;                           (* the shared o.buf *)
  saves : list (nat * phase);            (* saves in flight *)
  file : table;                          (* content of the offsets file *)
  renamed : bool;                        (* ghost: some save has replaced the offsets file *)
  built : list (nat * table);            (* ghost: the complete serialisation each save produced *)
  hist : list table                      (* ghost: every earlier value of [live], newest first *)
}.
Definition cst0 : cst :=
  {| live := []; mu := None; buf := []; saves := []; file := []; renamed := false; built := []; hist := [] |}.

Fixpoint sv_get (l : list (nat * phase)) (i : nat) : option phase :=
  match l with
  | [] => None
  | (i', p) :: r => if Nat.eqb i' i then Some p else sv_get r i
  end.
Fixpoint sv_del (l : list (nat * phase)) (i : nat) : list (nat * phase) :=
  match l with
  | [] => []
  | (i', p) :: r => if Nat.eqb i' i then sv_del r i else (i', p) :: sv_del r i
  end.
Definition sv_set (l : list (nat * phase)) (i : nat) (p : phase) : list (nat * phase) := (i, p) :: sv_del l i.

Definition holds_mu (c : cst) (i : nat) : bool :=
  match mu c with Some k => Nat.eqb k i | None => false end.

Definition step (hold : bool) (c : cst) (l : label) : option cst :=
  match l with
  | LAddJob j =>
      match tget (live c) j with
      | Some _ => None
      | None => Some {| live := live c ++ [(j, [])]; mu := mu c; buf := buf c; saves := saves c; file := file c;
                        renamed := renamed c; built := built c; hist := live c :: hist c |}
      end
  | LCommit j s v =>
      match tget (live c) j with
      | None => Some c                                       (* unknown source: commit returns *)
      | Some m =>
          if sget m s <? v                                   (* otherwise commit panics "offset corruption" *)
          then Some {| live := tset (live c) j (sset m s v); mu := mu c; buf := buf c; saves := saves c;
                       file := file c; renamed := renamed c; built := built c; hist := live c :: hist c |}
          else None
      end
  | LSaveBegin i =>
      match mu c, sv_get (saves c) i with
      | None, None =>
          Some {| live := live c; mu := Some i; buf := []; saves := sv_set (saves c) i (Building (map fst (live c)));
                  file := file c; renamed := renamed c; built := built c; hist := hist c |}
      | _, _ => None                                         (* o.mu is held by another save *)
      end
  | LSaveJob i =>
      match sv_get (saves c) i with
      | Some (Building (j :: rest)) =>
          if holds_mu c i then
            let buf' := match tget (live c) j with
                        | Some ((_ :: _) as m) => buf c ++ [(j, m)]
                        | _ => buf c                         (* len(job.offsets) == 0: skipped *)
                        end in
            Some {| live := live c; mu := mu c; buf := buf'; saves := sv_set (saves c) i (Building rest);
                    file := file c; renamed := renamed c; built := built c; hist := hist c |}
          else None
      | _ => None
      end
  | LSaveBuilt i =>
      match sv_get (saves c) i with
      | Some (Building []) =>
          if holds_mu c i then
            Some {| live := live c; mu := if hold then mu c else None; buf := buf c;
                    saves := sv_set (saves c) i Ready; file := file c; renamed := renamed c;
                    built := (i, buf c) :: built c; hist := hist c |}
          else None
      | _ => None
      end
  | LSaveWrite i =>
      match sv_get (saves c) i with
      | Some Ready =>
          Some {| live := live c; mu := mu c; buf := buf c; saves := sv_set (saves c) i (Written (buf c));
                  file := file c; renamed := renamed c; built := built c; hist := hist c |}
      | _ => None
      end
  | LSaveRename i =>
      match sv_get (saves c) i with
      | Some (Written tmp) =>
          Some {| live := live c; mu := if hold then None else mu c; buf := buf c; saves := sv_del (saves c) i;
                  file := tmp; renamed := true; built := built c; hist := hist c |}
      | _ => None
      end
  end.

Fixpoint run_lts (hold : bool) (c : cst) (ls : list label) : option cst :=
  match ls with
  | [] => Some c
  | l :: r => match step hold c l with Some c' => run_lts hold c' r | None => None end
  end.

(* the offsets file is one COMPLETE snapshot: untouched, or exactly what one save serialised *)
Definition file_complete (c : cst) : Prop :=
  if renamed c then exists i, In (i, file c) (built c) else file c = [].

(* ---- executable predicate used on runs of the real commit / save ---------------------------------
   one committer applies [script] (stream, offset) to a job in order; every state the job's map goes
   through: *)
Fixpoint job_states (m : smap) (script : list (bytes * Z)) : list smap :=
  m :: match script with [] => [] | (s, v) :: r => job_states (sset m s v) r end.
