(* OffsetsSnap.v — commits and saves of the file input plugin as a labelled transition system at
   mutex-region granularity (plugin/input/file/provider.go: commit; offset.go: save / snapshotJobs).
   One label = one critical section: commit stores an offset under job.mu; save copies the job list under
   jobsMu.RLock, then for every job, under that job's mu, appends the job's whole offsets map to its
   buffer, then writes the buffer out (Model/FsCrash.v covers how).  No proofs here. *)
From Verif Require Import Base.Sx Base.GoSem.

(* pipeline.SliceMap: stream name -> offset, Get returns 0 for an absent name *)
Definition smap := list (bytes * Z).
Fixpoint sget (m : smap) (k : bytes) : Z :=
  match m with
  | [] => 0
  | (k', v) :: r => if bytes_eqb k' k then v else sget r k
  end.
Fixpoint sset (m : smap) (k : bytes) (v : Z) : smap :=
  match m with
  | [] => [(k, v)]
  | (k', v') :: r => if bytes_eqb k' k then (k', v) :: r else (k', v') :: sset r k v
  end.

(* jobs: source id -> offsets *)
Definition table := list (N * smap).
Fixpoint tget (t : table) (j : N) : option smap :=
  match t with
  | [] => None
  | (j', m) :: r => if N.eqb j' j then Some m else tget r j
  end.
Fixpoint tset (t : table) (j : N) (m : smap) : table :=      (* replaces an existing job's map *)
  match t with
  | [] => []
  | (j', m') :: r => if N.eqb j' j then (j', m) :: r else (j', m') :: tset r j m
  end.

Inductive label :=
| LAddJob (j : N)                       (* a file is discovered: jobs[j] = a job without offsets *)
| LCommit (j : N) (s : bytes) (v : Z)   (* jobProvider.commit: job.offsets.Set(s, v) under job.mu *)
| LSaveBegin                            (* offsetDB.save: o.mu.Lock, snapshotJobs under jobsMu.RLock *)
| LSaveJob                              (* save: lock the next job of the snapshot, append its offsets *)
| LSaveEnd.                             (* save: the buffer has replaced the offsets file *)

Record cst := {
  live : table;                          (* the committed offsets, now *)
  pending : option (list N * table);     (* a save in progress: jobs still to visit, buffer so far *)
  file : table;                          (* content of the offsets file *)
  hist : list table                      (* ghost: every earlier value of [live], newest first *)
}.
Definition cst0 : cst := {| live := []; pending := None; file := []; hist := [] |}.

Definition step (c : cst) (l : label) : option cst :=
  match l with
  | LAddJob j =>
      match tget (live c) j with
      | Some _ => None
      | None => Some {| live := live c ++ [(j, [])]; pending := pending c; file := file c; hist := live c :: hist c |}
      end
  | LCommit j s v =>
      match tget (live c) j with
      | None => Some c                                       (* unknown source: commit returns *)
      | Some m =>
          if sget m s <? v                                   (* otherwise commit panics "offset corruption" *)
          then Some {| live := tset (live c) j (sset m s v); pending := pending c; file := file c;
                       hist := live c :: hist c |}
          else None
      end
  | LSaveBegin =>
      match pending c with
      | Some _ => None                                       (* o.mu is held by the running save *)
      | None => Some {| live := live c; pending := Some (map fst (live c), []); file := file c; hist := hist c |}
      end
  | LSaveJob =>
      match pending c with
      | Some (j :: rest, buf) =>
          let buf' := match tget (live c) j with
                      | Some ((_ :: _) as m) => buf ++ [(j, m)]
                      | _ => buf                             (* len(job.offsets) == 0: skipped *)
                      end in
          Some {| live := live c; pending := Some (rest, buf'); file := file c; hist := hist c |}
      | _ => None
      end
  | LSaveEnd =>
      match pending c with
      | Some ([], buf) => Some {| live := live c; pending := None; file := buf; hist := hist c |}
      | _ => None
      end
  end.

Fixpoint run_lts (c : cst) (ls : list label) : option cst :=
  match ls with
  | [] => Some c
  | l :: r => match step c l with Some c' => run_lts c' r | None => None end
  end.

(* ---- executable predicate used on runs of the real commit / save ---------------------------------
   one committer applies [script] (stream, offset) to a job in order; every state the job's map goes
   through: *)
Fixpoint job_states (m : smap) (script : list (bytes * Z)) : list smap :=
  m :: match script with [] => [] | (s, v) :: r => job_states (sset m s v) r end.
