(* Model of the kill / restart (and truncation) behaviour of the file input plugin
   (plugin/input/file/{file.go, provider.go, worker.go, offset.go}). No proofs here (Proofs/FileResume.v).

   A watched file (one inode = one job) is abstracted to its list of COMPLETE lines, each with the byte
   offset of its end (= event.Offset, C06) and its stream name (the pipeline's stream field), plus the
   length of an unterminated fragment after the last complete line.

   Go                                               model
   -----------------------------------------------  -------------------------------------------------
   job.offsets (pipeline.SliceMap)                  cur : offsets            lookup / set_off
   the job's entry in the offsets file              disk : option offsets    (None = no entry)
   job.curOffset, job.tail                          pos (end of the last complete line read), tail (length)
   initJobOffset(continue): seek(min saved offset)  seek_of
   Plugin.PassEvent                                 pass_event (on the LIVE job.offsets, as the code does)
   stream.put: per-stream SeqID; job.lastEventSeq   seqs, last_seq (SeqID of the last ACCEPTED line: a line for which
                                                    In returns EventSeqIDError = 0 leaves it alone; 0 = none yet)
   jobProvider.commit                               ACommit (ignoreEventsLE, "offset corruption" panic, Set)
   offsetDB.save (any instant: async; after every   ASave   (jobs without offsets are not written)
     commit: sync)
   SIGKILL + start with the persisted file          ACrash
   worker.processEOF -> truncateJob                 ATruncate (detected: bytes read > new size)
   events between In and Commit                     flight (in read order; delivered flag)

   lines the pipeline rejects before PassEvent      AReadJunk (empty / undecodable / over max_event_size: In returns
     (checkInputBytes, decoder error)                 EventSeqIDError; the repaired worker keeps job.lastEventSeq, so
                                                      the step changes nothing — before the repair it reset it to 0)
   lines PassEvent rejects (already committed)      ARead, second branch: the reader moves on, In returns
                                                      EventSeqIDError, job.lastEventSeq is kept as well

   Interface taken from C01/C02 (pipeline) and C07 (offsets file): an event is committed after the output
   got it, commits of one stream of one source come in read order, a save writes the live offsets.
   Ghost fields: ever (lines the output received in any run, current content generation), gone (lines a
   restart skipped over without their having been delivered), fresh (a save happened since the last
   truncation), e_old (event read before the last truncation).
   [step] is total on what the code can do (it also models the "offset corruption" panic); [adm] selects the
   histories the positive theorems speak about; the refutation witnesses run through [run] (no [adm]).   *)
From Verif Require Import Base.Sx.

Definition stream := bytes.
Definition stream_eqb : stream -> stream -> bool := N_eqb_list.

Record line := mkL { l_id : Z; l_end : Z; l_stream : stream }.
Definition line_eqb (a b : line) : bool :=
  Z.eqb (l_id a) (l_id b) && Z.eqb (l_end a) (l_end b) && stream_eqb (l_stream a) (l_stream b).
Definition mem (l : line) (ls : list line) : bool := existsb (line_eqb l) ls.

(* ---- pipeline.SliceMap -------------------------------------------------------------------------- *)
Definition offsets := list (stream * Z).
Fixpoint lookup (s : stream) (o : offsets) : option Z :=
  match o with
  | [] => None
  | (k, v) :: r => if stream_eqb k s then Some v else lookup s r
  end.
Fixpoint set_off (s : stream) (v : Z) (o : offsets) : offsets :=
  match o with
  | [] => [(s, v)]
  | (k, x) :: r => if stream_eqb k s then (k, v) :: r else (k, x) :: set_off s v r
  end.

(* ---- initJobOffset (offsets_op: continue) and PassEvent ----------------------------------------- *)
Definition MaxInt64 : Z := 9223372036854775807.
Fixpoint min_off (o : offsets) : Z :=
  match o with [] => MaxInt64 | (_, v) :: r => Z.min v (min_off r) end.
Definition seek_of (d : option offsets) : Z := match d with None => 0 | Some o => min_off o end.
Definition loaded (d : option offsets) : offsets := match d with None => [] | Some o => o end.
Definition pass_event (cur : offsets) (l : line) : bool :=
  match lookup (l_stream l) cur with None => true | Some o => o <? l_end l end.

(* what a process started with the offsets entry [d] hands to the pipeline out of [content] *)
Definition resume_delivered (content : list line) (d : option offsets) : list line :=
  filter (fun l => (seek_of d <? l_end l) && pass_event (loaded d) l) content.

(* the property's predicate: every complete line is in [a] (delivered before the kill) or in [b] *)
Definition no_loss_b (content a b : list line) : bool :=
  forallb (fun l => mem l a || mem l b) content.
(* interface predicate: an entry (s, o) covers only lines that were delivered (or are in [acc]) *)
Definition snap_sound_b (content acc : list line) (o : offsets) : bool :=
  forallb (fun kv => forallb (fun l =>
     negb (stream_eqb (l_stream l) (fst kv) && (l_end l <=? snd kv)) || mem l acc) content) o.
(* the lines a restart with entry [d] skips although they were never delivered *)
Definition skipped (content acc : list line) (d : option offsets) : list line :=
  filter (fun l => (l_end l <=? seek_of d) && negb (mem l acc)) content.

(* ---- the job as a transition system --------------------------------------------------------------- *)
Record ev := mkE { e_seq : Z; e_line : line; e_done : bool; e_old : bool }.

Record state := mkS {
  content : list line; partial : Z;
  pos : Z; tail : Z;
  cur : offsets; disk : option offsets;
  flight : list ev;
  seqs : offsets; last_seq : Z; ign : Z;
  panicked : bool;
  ever : list line; gone : list line; out : list line; fresh : bool }.

Definition init : state :=
  {| content := []; partial := 0; pos := 0; tail := 0; cur := []; disk := None; flight := [];
     seqs := []; last_seq := 0; ign := 0; panicked := false; ever := []; gone := []; out := []; fresh := true |}.

Inductive act :=
| AAppend (ls : list line) (part : Z)    (* the writer appends complete lines, then [part] bytes of a fragment *)
| ARead                                  (* the worker hands the next complete line to Pipeline.In *)
| AReadEOF                               (* the worker reaches EOF: the fragment goes to job.tail *)
| AReadJunk                              (* the worker hands over an empty / undecodable line: In returns EventSeqIDError,
                                            job.lastEventSeq keeps the SeqID of the last accepted line *)
| ADeliver (k : nat)                     (* the output receives the k-th event in flight *)
| ACommit (k : nat)                      (* Plugin.Commit of the k-th event in flight *)
| ASave                                  (* offsetDB.save *)
| ACrash                                 (* SIGKILL, then start with the persisted offsets file *)
| ATruncate (ls : list line) (part : Z). (* the file is truncated and rewritten; detected at EOF *)

Fixpoint sorted_from (lo : Z) (ls : list line) : bool :=
  match ls with [] => true | l :: r => (lo <? l_end l) && sorted_from (l_end l) r end.
Fixpoint top (lo : Z) (ls : list line) : Z :=
  match ls with [] => lo | l :: r => top (l_end l) r end.
Definition fsize (st : state) : Z := top 0 (content st) + partial st.

Definition next_line (st : state) : option line := find (fun l => pos st <? l_end l) (content st).
Definition next_seq (s : stream) (q : offsets) : Z := match lookup s q with Some n => n + 1 | None => 1 end.
Definition same_stream (s : stream) (e : ev) : bool := stream_eqb (l_stream (e_line e)) s.

Definition upd (st : state) content' partial' pos' tail' cur' disk' flight' seqs' last' ign' pan' ever' gone' out' fresh' :=
  {| content := content'; partial := partial'; pos := pos'; tail := tail'; cur := cur'; disk := disk';
     flight := flight'; seqs := seqs'; last_seq := last'; ign := ign'; panicked := pan';
     ever := ever'; gone := gone'; out := out'; fresh := fresh' |}.

Definition step (st : state) (a : act) : option state :=
  if panicked st then
    match a with
    | ACrash =>
        let sk := seek_of (disk st) in
        Some (upd st (content st) (partial st) sk 0 (loaded (disk st)) (disk st) [] [] 0 0 false
                  (ever st) (skipped (content st) (ever st) (disk st) ++ gone st) [] (fresh st))
    | AAppend ls part =>
        if sorted_from (fsize st) ls && (0 <=? part) then
          Some (upd st (content st ++ ls) (match ls with [] => partial st + part | _ => part end) (pos st) (tail st)
                    (cur st) (disk st) (flight st) (seqs st) (last_seq st) (ign st) true (ever st) (gone st) (out st) (fresh st))
        else None
    | _ => None
    end
  else
  match a with
  | AAppend ls part =>
      if sorted_from (fsize st) ls && (0 <=? part) then
        Some (upd st (content st ++ ls) (match ls with [] => partial st + part | _ => part end) (pos st) (tail st)
                  (cur st) (disk st) (flight st) (seqs st) (last_seq st) (ign st) false (ever st) (gone st) (out st) (fresh st))
      else None
  | ARead =>
      match next_line st with
      | None => None
      | Some l =>
          if pass_event (cur st) l then
            let q := next_seq (l_stream l) (seqs st) in
            Some (upd st (content st) (partial st) (l_end l) 0 (cur st) (disk st)
                      (flight st ++ [mkE q l false false]) (set_off (l_stream l) q (seqs st)) q (ign st) false
                      (ever st) (gone st) (out st) (fresh st))
          else
            Some (upd st (content st) (partial st) (l_end l) 0 (cur st) (disk st) (flight st) (seqs st) (last_seq st) (ign st) false
                      (ever st) (gone st) (out st) (fresh st))
      end
  | AReadEOF =>
      match next_line st with
      | Some _ => None
      | None => Some (upd st (content st) (partial st) (pos st) (partial st) (cur st) (disk st) (flight st) (seqs st)
                          (last_seq st) (ign st) false (ever st) (gone st) (out st) (fresh st))
      end
  | AReadJunk =>
      Some (upd st (content st) (partial st) (pos st) (tail st) (cur st) (disk st) (flight st) (seqs st)
                (last_seq st) (ign st) false (ever st) (gone st) (out st) (fresh st))
  | ADeliver k =>
      match nth_error (flight st) k with
      | Some e =>
          if e_done e then None else
          let e' := mkE (e_seq e) (e_line e) true (e_old e) in
          Some (upd st (content st) (partial st) (pos st) (tail st) (cur st) (disk st)
                    (firstn k (flight st) ++ e' :: skipn (S k) (flight st)) (seqs st) (last_seq st) (ign st) false
                    (if e_old e then ever st else e_line e :: ever st) (gone st) (e_line e :: out st) (fresh st))
      | None => None
      end
  | ACommit k =>
      match nth_error (flight st) k with
      | Some e =>
          let s := l_stream (e_line e) in
          if e_done e && forallb (fun e' => negb (same_stream s e')) (firstn k (flight st)) then
            let fl := firstn k (flight st) ++ skipn (S k) (flight st) in
            if e_seq e <=? ign st then
              Some (upd st (content st) (partial st) (pos st) (tail st) (cur st) (disk st) fl (seqs st) (last_seq st)
                        (ign st) false (ever st) (gone st) (out st) (fresh st))
            else
              match lookup s (cur st) with
              | Some v =>
                  if l_end (e_line e) <=? v then      (* value >= event.Offset: Panicf("offset corruption") *)
                    Some (upd st (content st) (partial st) (pos st) (tail st) (cur st) (disk st) fl (seqs st) (last_seq st)
                              (ign st) true (ever st) (gone st) (out st) (fresh st))
                  else
                    Some (upd st (content st) (partial st) (pos st) (tail st) (set_off s (l_end (e_line e)) (cur st)) (disk st)
                              fl (seqs st) (last_seq st) (ign st) false (ever st) (gone st) (out st) (fresh st))
              | None =>
                  Some (upd st (content st) (partial st) (pos st) (tail st) (set_off s (l_end (e_line e)) (cur st)) (disk st)
                            fl (seqs st) (last_seq st) (ign st) false (ever st) (gone st) (out st) (fresh st))
              end
          else None
      | None => None
      end
  | ASave =>
      Some (upd st (content st) (partial st) (pos st) (tail st) (cur st)
                (match cur st with [] => None | _ :: _ => Some (cur st) end)
                (flight st) (seqs st) (last_seq st) (ign st) false (ever st) (gone st) (out st) true)
  | ACrash =>
      let sk := seek_of (disk st) in
      Some (upd st (content st) (partial st) sk 0 (loaded (disk st)) (disk st) [] [] 0 0 false
                (ever st) (skipped (content st) (ever st) (disk st) ++ gone st) [] (fresh st))
  | ATruncate ls part =>
      if sorted_from 0 ls && (0 <=? part) && (top 0 ls + part <? pos st + tail st) then
        Some (upd st ls part 0 0 (map (fun kv => (fst kv, 0)) (cur st)) (disk st)
                  (map (fun e => mkE (e_seq e) (e_line e) (e_done e) true) (flight st))
                  (seqs st) (last_seq st) (last_seq st) false [] [] (out st) false)
      else None
  end.

(* admissible histories of the theorems: at a truncation every event of the file still in flight has a SeqID <=
   job.lastEventSeq (so that truncateJob's ignoreEventsLE really covers it — in particular: nothing in flight; with ONE
   stream per file it always holds, Proofs: truncate_inflight_single_stream), and the process is not killed between a
   truncation and the next save (the documented loss window) *)
Definition trunc_safe (st : state) : bool := forallb (fun e => e_seq e <=? last_seq st) (flight st).
Definition adm (st : state) (a : act) : bool :=
  match a with
  | ACrash => fresh st
  | ATruncate _ _ => trunc_safe st
  | _ => true
  end.

Fixpoint run (st : state) (acts : list act) : option state :=
  match acts with
  | [] => Some st
  | a :: r => match step st a with Some st' => run st' r | None => None end
  end.
Fixpoint run_adm (st : state) (acts : list act) : option state :=
  match acts with
  | [] => Some st
  | a :: r => if adm st a then match step st a with Some st' => run_adm st' r | None => None end else None
  end.

(* histories restricted by the kill window only: truncations at ANY instant, whatever is in flight *)
Definition adm_kill (st : state) (a : act) : bool :=
  match a with ACrash => fresh st | _ => true end.
Fixpoint run_kill (st : state) (acts : list act) : option state :=
  match acts with
  | [] => Some st
  | a :: r => if adm_kill st a then match step st a with Some st' => run_kill st' r | None => None end else None
  end.

Definition act_lines (a : act) : list line :=
  match a with AAppend ls _ => ls | ATruncate ls _ => ls | _ => [] end.
Definition acts_single (s0 : stream) (acts : list act) : bool :=
  forallb (fun a => forallb (fun l => stream_eqb (l_stream l) s0) (act_lines a)) acts.
Definition no_truncate (acts : list act) : bool :=
  forallb (fun a => match a with ATruncate _ _ => false | _ => true end) acts.

(* ===================================================================================================
   Exchange glue (harness/c03): the case is a script of file operations and kill/restart phases, the
   observable is what every run delivered and the offsets file it left. See harness/c03/main.go.      *)
Record lspec := { ls_stream : stream; ls_len : Z;
                  ls_fill : bool (* kind 2: empty lines, kind 3: an undecodable line — dropped by the pipeline *) }.
Inductive fop :=
| FAppend (name : Z) (ls : list lspec) (cut : Z)
| FRename (name to : Z)
| FTrunc (name : Z) (ls : list lspec) (cut : Z)
| FRemove (name : Z)            (* unlink: the file keeps its identity (the offsets file may still list it) but leaves the
                                   set of watched files: nothing of it is promised from then on. Represented by the
                                   negative name -1 - ident, which no operation can address *)
| FLink (name target : Z).      (* symlink name -> target (created or re-pointed): no content changes. The harness keeps
                                   target files outside the watched directory, the generator appends only to files a
                                   symlink points to *)

Record wfile := { w_ident : Z; w_name : Z; w_lines : list line (* newest first *); w_size : Z;
                  w_pend : option (Z * Z * stream) (* id, bytes still to write, stream *);
                  w_trunc : bool (* truncated while the process was down, before this run *) }.
Record world := { files : list wfile; next_id : Z; next_ident : Z }.

Definition lspec_of_sx (s : sx) : option lspec :=
  match s with
  | SL [SB st; SZ len; SZ kind; SZ _] => Some {| ls_stream := st; ls_len := len; ls_fill := Z.eqb kind 2 || Z.eqb kind 3 |}
  | _ => None
  end.
Definition fop_of_sx (s : sx) : option fop :=
  match s with
  | SL [SZ 0; SZ n; ls; SZ cut] => match as_list lspec_of_sx ls with Some l => Some (FAppend n l cut) | None => None end
  | SL [SZ 1; SZ n; SZ m] => Some (FRename n m)
  | SL [SZ 2; SZ n; ls; SZ cut] => match as_list lspec_of_sx ls with Some l => Some (FTrunc n l cut) | None => None end
  | SL [SZ 3; SZ n] => if 0 <=? n then Some (FRemove n) else None
  | SL [SZ 6; SZ n] => if 0 <=? n then Some (FRemove n) else None     (* removed by file.d itself (remove_after); the harness makes sure it is gone *)
  | SL [SZ 4; SZ n; SZ m] => Some (FLink n m)
  | SL [SZ 5; SZ n; SZ m; SZ _] => Some (FLink n m)     (* the link's name is chosen by the harness (colliding source id) *)
  | _ => None
  end.

(* write the specs after position [p]; returns (new complete lines newest first, size, pending, next id) *)
Fixpoint write_lines (specs : list lspec) (cut : Z) (p : Z) (id : Z) (acc : list line)
  : list line * Z * option (Z * Z * stream) * Z :=
  match specs with
  | [] => (acc, p, None, id)
  | s :: r =>
      if ls_fill s then write_lines r cut (p + ls_len s) (id + 1) acc else
      match r with
      | [] =>
          if (0 <? cut) && (cut <? ls_len s)
          then (acc, p + cut, Some (id, ls_len s - cut, ls_stream s), id + 1)
          else (mkL id (p + ls_len s) (ls_stream s) :: acc, p + ls_len s, None, id + 1)
      | _ :: _ => write_lines r cut (p + ls_len s) (id + 1) (mkL id (p + ls_len s) (ls_stream s) :: acc)
      end
  end.

Definition find_file (name : Z) (fs : list wfile) : option wfile :=
  find (fun f => Z.eqb (w_name f) name) fs.
Definition replace_file (f : wfile) (fs : list wfile) : list wfile :=
  map (fun g => if Z.eqb (w_ident g) (w_ident f) then f else g) fs.

(* returns the new world and the lines completed by the operation: (file identity, line) *)
Definition apply_fop (live : bool) (w : world) (o : fop) : option (world * list (Z * line)) :=
  let wr (f : wfile) (trunc : bool) (specs : list lspec) (cut : Z) :=
    let base := if trunc then [] else w_lines f in
    let '(p0, pend0) := if trunc then (0, None) else (w_size f, w_pend f) in
    let '(acc0, p1) := match pend0 with
                       | Some (id, rest, s) => ([mkL id (p0 + rest) s], p0 + rest)
                       | None => ([], p0)
                       end in
    let '(acc, p2, pend, nid) := write_lines specs cut p1 (next_id w) acc0 in
    let f' := {| w_ident := w_ident f; w_name := w_name f; w_lines := acc ++ base; w_size := p2; w_pend := pend;
                 w_trunc := if trunc then negb live || w_trunc f else w_trunc f |} in
    (f', nid, map (fun l => (w_ident f, l)) acc) in
  match o with
  | FRename n m =>
      match find_file n (files w), find_file m (files w) with
      | Some f, None =>
          let f' := {| w_ident := w_ident f; w_name := m; w_lines := w_lines f; w_size := w_size f; w_pend := w_pend f;
                       w_trunc := w_trunc f |} in
          Some ({| files := replace_file f' (files w); next_id := next_id w; next_ident := next_ident w |}, [])
      | _, _ => None
      end
  | FAppend n specs cut =>
      match find_file n (files w) with
      | Some f =>
          let '(f', nid, fresh) := wr f false specs cut in
          Some ({| files := replace_file f' (files w); next_id := nid; next_ident := next_ident w |}, fresh)
      | None =>
          let f0 := {| w_ident := next_ident w; w_name := n; w_lines := []; w_size := 0; w_pend := None; w_trunc := false |} in
          let '(f', nid, fresh) := wr f0 false specs cut in
          Some ({| files := files w ++ [f']; next_id := nid; next_ident := next_ident w + 1 |}, fresh)
      end
  | FTrunc n specs cut =>
      match find_file n (files w) with
      | Some f =>
          let '(f', nid, fresh) := wr f true specs cut in
          Some ({| files := replace_file f' (files w); next_id := nid; next_ident := next_ident w |}, fresh)
      | None => None
      end
  | FRemove n =>
      match find_file n (files w) with
      | Some f =>
          let f' := {| w_ident := w_ident f; w_name := -1 - w_ident f; w_lines := w_lines f; w_size := w_size f;
                       w_pend := None; w_trunc := w_trunc f |} in
          Some ({| files := replace_file f' (files w); next_id := next_id w; next_ident := next_ident w |}, [])
      | None => None
      end
  | FLink _ _ => Some (w, [])
  end.

(* ---- observations --------------------------------------------------------------------------------- *)
Definition entry_of_sx (s : sx) : option (stream * Z) :=
  match s with SL [SB n; SZ o] => Some (n, o) | _ => None end.
Definition snap_of_sx (s : sx) : option (list (Z * offsets)) :=
  as_list (fun e => match e with
                    | SL [SZ ident; es] => match as_list entry_of_sx es with Some l => Some (ident, l) | None => None end
                    | _ => None
                    end) s.
Definition deliv_of_sx (s : sx) : option (list (Z * Z)) :=
  as_list (fun e => match e with SL [SZ id; SZ off] => Some (id, off) | _ => None end) s.
Record runobs := { r_status : Z; r_deliv : list (Z * Z); r_snap : list (Z * offsets) }.
Definition runobs_of_sx (s : sx) : option runobs :=
  match s with
  | SL [SZ st; d; sn] =>
      match deliv_of_sx d, snap_of_sx sn with
      | Some dl, Some snp => Some {| r_status := st; r_deliv := dl; r_snap := snp |}
      | _, _ => None
      end
  | _ => None
  end.

Record phase := { p_down : list fop; p_mode : Z; p_live : list (Z * fop) }.
Definition phase_of_sx (s : sx) : option phase :=
  match s with
  | SL [dn; SL [SZ mode; SZ _; SZ _]; lv] =>
      match as_list fop_of_sx dn,
            as_list (fun x => match x with
                              | SL [SZ wt; o] => match fop_of_sx o with Some f => Some (wt, f) | None => None end
                              | _ => None
                              end) lv with
      | Some d, Some l => Some {| p_down := d; p_mode := mode; p_live := l |}
      | _, _ => None
      end
  | _ => None
  end.

Definition snap_entry (ident : Z) (snap : list (Z * offsets)) : option offsets :=
  match find (fun e => Z.eqb (fst e) ident) snap with Some e => Some (snd e) | None => None end.

Definition watched (f : wfile) : bool := 0 <=? w_name f.       (* not removed *)
Definition all_lines (w : world) : list line := flat_map (fun f => w_lines f) (filter watched (files w)).
Definition every_line (w : world) : list line := flat_map (fun f => w_lines f) (files w).   (* removed files included *)
Definition line_by_id (id : Z) (ls : list line) : option line := find (fun l => Z.eqb (l_id l) id) ls.

Fixpoint strictly_sorted_ids (prev : Z) (d : list (Z * Z)) : bool :=
  match d with [] => true | (id, _) :: r => (prev <? id) && strictly_sorted_ids id r end.
(* which = 2 only: a line may be delivered more than once within ONE run (the property promises "at least once"): a file
   renamed while file.d runs can lose its job to the maintenance pass and get a new one that reads it from the start *)
Fixpoint sorted_ids (prev : Z) (d : list (Z * Z)) : bool :=
  match d with [] => true | (id, _) :: r => (prev <=? id) && sorted_ids id r end.

(* bookkeeping across the phases *)
Record acc := { a_world : world; a_ever : list line; a_gone : list line; a_expl : list line;
                a_snap : list (Z * offsets); a_first : bool; a_corr : bool; a_alive : bool; a_void : bool;
                a_lastq : bool; a_pred : list line }.

Fixpoint apply_fops (live : bool) (w : world) (ops : list fop) (fresh : list (Z * line)) : option (world * list (Z * line)) :=
  match ops with
  | [] => Some (w, fresh)
  | o :: r => match apply_fop live w o with
              | Some (w', fr) => apply_fops live w' r (fr ++ fresh)
              | None => None
              end
  end.

(* the entry a job of this run starts from: none in the first run, none for a file created or (detectably)
   truncated while down; [None] on the outside = the truncation is not detectable (promise void) *)
Definition start_entry (first : bool) (snap : list (Z * offsets)) (f : wfile) : option (option offsets) :=
  if first then Some None else
  match snap_entry (w_ident f) snap with
  | None => Some None
  | Some o =>
      if w_size f <? min_off o then Some None      (* first EOF check: offset > size, truncateJob, read from 0 *)
      else if w_trunc f then None
      else Some (Some o)
  end.

Definition clear_trunc (w : world) : world :=
  {| files := map (fun f => {| w_ident := w_ident f; w_name := w_name f; w_lines := w_lines f; w_size := w_size f;
                              w_pend := w_pend f; w_trunc := false |}) (files w);
     next_id := next_id w; next_ident := next_ident w |}.

Definition phase_step (dups : bool) (a : acc) (ph : phase) (o : runobs) : option acc :=
  match apply_fops false (a_world a) (p_down ph) [] with
  | None => None
  | Some (w1, _) =>
      (* restart: what each job skips, what it will hand over *)
      let starts := map (fun f => (f, start_entry (a_first a) (a_snap a) f)) (filter watched (files w1)) in
      let void := existsb (fun fe => match snd fe with None => true | Some _ => false end) starts in
      let acc_all := a_ever a ++ a_gone a in
      let lost := flat_map (fun fe => match snd fe with
                                       | Some d => skipped (w_lines (fst fe)) acc_all d
                                       | None => [] end) starts in
      let expl := flat_map (fun fe => match snd fe with
                                       | Some (Some d) => filter (fun l => match lookup (l_stream l) d with None => true | Some _ => false end)
                                                               (skipped (w_lines (fst fe)) acc_all (Some d))
                                       | _ => [] end) starts in
      let pred0 := flat_map (fun fe => match snd fe with
                                        | Some d => resume_delivered (w_lines (fst fe)) d
                                        | None => [] end) starts in
      let w1c := clear_trunc w1 in
      match apply_fops true w1c (map snd (p_live ph)) [] with
      | None => None
      | Some (w2, freshl) =>
          let pred := map snd freshl ++ pred0 in
          let quiet := Z.eqb (p_mode ph) 0 in
          (* a live truncation is detected iff the new size is below what the reader had consumed: the harness
             performs it at quiescence and writes less than the first old line, so it always is *)
          let lines2 := all_lines w2 in
          (* a line delivered in this run may belong to a file that was removed later in the run, or to a content
             generation between two truncations of the same run: look it up in the removed files and in everything the
             live operations wrote as well *)
          let dl := map (fun d => match line_by_id (fst d) (all_lines w1c ++ every_line w2 ++ map snd freshl) with
                                  | Some l => if Z.eqb (l_end l) (snd d) then Some l else None
                                  | None => None end) (r_deliv o) in
          let dlines := flat_map (fun x => match x with Some l => [l] | None => [] end) dl in
          let offs_ok := forallb (fun x => match x with Some _ => true | None => false end) dl in
          let nodup := if dups then sorted_ids (-1) (r_deliv o) else strictly_sorted_ids (-1) (r_deliv o) in
          let sub := forallb (fun l => mem l pred) dlines in
          (* lines that a live truncation removed before the end of the run are not promised *)
          let sup := forallb (fun l => negb (mem l lines2) || mem l dlines) pred in
          let ever' := dlines ++ a_ever a in
          let gone' := lost ++ a_gone a in
          let snap_ok := forallb (fun e =>
                           match find (fun f => Z.eqb (w_ident f) (fst e)) (files w2) with
                           | Some f => snap_sound_b (w_lines f) (ever' ++ gone') (snd e)
                                       && negb (match snd e with [] => true | _ => false end)
                           | None => false
                           end) (r_snap o) in
          let corr := offs_ok && nodup && sub && (negb quiet || sup) && snap_ok in
          Some {| a_world := w2; a_ever := ever'; a_gone := gone'; a_expl := expl ++ a_expl a;
                  a_snap := r_snap o; a_first := false;
                  a_corr := a_corr a && (void || corr); a_alive := a_alive a && Z.eqb (r_status o) 0;
                  a_void := a_void a || void; a_lastq := quiet; a_pred := pred |}
      end
  end.

Fixpoint phases_run (dups : bool) (a : acc) (phs : list phase) (obs : list runobs) : option acc :=
  match phs, obs with
  | [], [] => Some a
  | ph :: pr, o :: or => match phase_step dups a ph o with Some a' => phases_run dups a' pr or | None => None end
  | _, _ => None
  end.

Definition acc0 : acc :=
  {| a_world := {| files := []; next_id := 0; next_ident := 0 |}; a_ever := []; a_gone := []; a_expl := [];
     a_snap := []; a_first := true; a_corr := true; a_alive := true; a_void := false; a_lastq := true; a_pred := [] |}.

Definition ids (ls : list line) : sx := SL (map (fun l => SZ (l_id l)) ls).

(* which = 0: the full property; which = 1: losses of the known multi-stream pattern tolerated;
   which = 2: the full property, the correspondence part accepts repeated deliveries of a line within one run *)
Definition c03_entry (which : Z) (case obs : sx) : verdict :=
  match case with
  | SL [_; phs] =>
      match as_list phase_of_sx phs, as_list runobs_of_sx obs with
      | Some phases, Some robs =>
          if existsb (fun o => Z.eqb (r_status o) 2) robs then BadCase else
          match phases_run (Z.eqb which 2) acc0 phases robs with
          | None => BadCase
          | Some a =>
              if negb (a_lastq a) then BadCase else
              if a_void a then (if a_alive a then Agree else Violates (SL [SZ 9])) else
              let content := all_lines (a_world a) in
              let missing := filter (fun l => negb (mem l (a_ever a))) content in
              let unexplained := filter (fun l => negb (mem l (a_expl a))) missing in
              let explained := match unexplained with [] => true | _ => false end in
              let code := if explained && a_corr a && a_alive a then 1 else 0 in
              let m := SL [ids (a_pred a); ids missing; SZ code] in
              let full := no_loss_b content (a_ever a) [] in
              let tolerant := no_loss_b content (a_ever a) (a_expl a) in
              let pred_ok := a_alive a && (if Z.eqb which 1 then tolerant else full) in
              if pred_ok then (if a_corr a then Agree else Differ m) else Violates m
          end
      | _, _ => BadCase
      end
  | _ => BadCase
  end.
