(* FsCrash.v — a crash-semantics file system for the "write tmp, fsync, rename over cur" protocol of
   plugin/input/file/offset.go (offsetDB.save) and offset/offset.go (Offset.Save).  No proofs here.

   Two directory names: [cur] (the offsets file, initially a good durable file with content [old]) and
   [tmp].  The protocol creates ONE new inode through [tmp]; it has a volatile content (what a reader or
   a later process sees) and a durable content (what a power loss keeps).  write changes the volatile
   content only; fsync makes durable := volatile; rename re-binds [cur] to the new inode atomically and
   carries whatever — possibly non-durable — content the inode has; nobody fsyncs the directory, so after
   a power loss [cur] may be bound to the old or to the new inode; an inode whose volatile and durable
   contents differ may hold ANY bytes after a power loss.  Every call may fail. *)
From Verif Require Import Base.Sx Base.GoSem.

Inductive fsop := OpOpen | OpWrite | OpSync | OpRename | OpClose | OpRemove.

Definition fsop_eqb (a b : fsop) : bool :=
  match a, b with
  | OpOpen, OpOpen | OpWrite, OpWrite | OpSync, OpSync | OpRename, OpRename
  | OpClose, OpClose | OpRemove, OpRemove => true
  | _, _ => false
  end.

(* ---- the protocol skeleton the translator emits (Gen/SaveProtocol.v) -----------------------------
   one entry per file-system call in program order (deferred calls placed where they run);
   handler = what the code does when THIS call returns an error:
     None     the error is only logged / ignored, execution continues with the next call
     Some cl  the function returns; [cl] are the calls still made on that path (os.Remove, deferred Close) *)
Definition handler := option (list fsop).
Definition protocol := list (fsop * handler).

(* ---- state -------------------------------------------------------------------------------------- *)
Record fs := {
  fd_open   : bool;      (* the descriptor returned by open is valid *)
  tmp_bound : bool;      (* the name tmp is bound to the new inode *)
  vol       : bytes;     (* new inode: volatile content *)
  dur       : bytes;     (* new inode: durable content *)
  cur_new   : bool;      (* cur is bound to the new inode (a rename succeeded) *)
  ws_failed : bool;      (* ghost: some write or fsync has failed *)
  bad       : bool       (* ghost: cur was re-bound to an inode that is not (volatile = durable = new) after
                            no failed write/fsync, or the inode was touched again after the rename *)
}.

Definition fs0 : fs :=
  {| fd_open := false; tmp_bound := false; vol := []; dur := []; cur_new := false; ws_failed := false; bad := false |}.

(* one call and how it ended; [part] = number of bytes a FAILED (or interrupted) write transferred *)
Record ev := { eop : fsop; eok : bool; part : nat }.

(* a call on an invalid descriptor / a missing name fails whatever the device does *)
Definition precond (s : fs) (op : fsop) : bool :=
  match op with
  | OpOpen => true
  | OpWrite | OpSync | OpClose => fd_open s
  | OpRename | OpRemove => tmp_bound s
  end.

Definition good_inode (new : bytes) (s : fs) : bool :=
  bytes_eqb (vol s) new && bytes_eqb (dur s) new && negb (ws_failed s).

Definition fs_step (new : bytes) (s : fs) (e : ev) : fs :=
  let touched := bad s || cur_new s in       (* writing to / re-creating the inode after the rename *)
  if eok e then
    match eop e with
    | OpOpen   => {| fd_open := true; tmp_bound := true; vol := []; dur := []; cur_new := cur_new s;
                     ws_failed := ws_failed s; bad := touched |}           (* O_CREATE|O_TRUNC *)
    | OpWrite  => {| fd_open := fd_open s; tmp_bound := tmp_bound s; vol := vol s ++ new; dur := dur s;
                     cur_new := cur_new s; ws_failed := ws_failed s; bad := touched |}
    | OpSync   => {| fd_open := fd_open s; tmp_bound := tmp_bound s; vol := vol s; dur := vol s;
                     cur_new := cur_new s; ws_failed := ws_failed s; bad := bad s |}
    | OpRename => {| fd_open := fd_open s; tmp_bound := false; vol := vol s; dur := dur s;
                     cur_new := true; ws_failed := ws_failed s; bad := bad s || negb (good_inode new s) |}
    | OpClose  => {| fd_open := false; tmp_bound := tmp_bound s; vol := vol s; dur := dur s;
                     cur_new := cur_new s; ws_failed := ws_failed s; bad := bad s |}
    | OpRemove => {| fd_open := fd_open s; tmp_bound := false; vol := vol s; dur := dur s;
                     cur_new := cur_new s; ws_failed := ws_failed s; bad := bad s |}
    end
  else
    match eop e with
    | OpWrite  => {| fd_open := fd_open s; tmp_bound := tmp_bound s;
                     vol := if fd_open s then vol s ++ firstn (part e) new else vol s; dur := dur s;
                     cur_new := cur_new s; ws_failed := true; bad := touched |}
    | OpSync   => {| fd_open := fd_open s; tmp_bound := tmp_bound s; vol := vol s; dur := dur s;
                     cur_new := cur_new s; ws_failed := true; bad := bad s |}
    | OpClose  => {| fd_open := false; tmp_bound := tmp_bound s; vol := vol s; dur := dur s;
                     cur_new := cur_new s; ws_failed := ws_failed s; bad := bad s |}
    | OpOpen   => {| fd_open := false; tmp_bound := tmp_bound s; vol := vol s; dur := dur s;
                     cur_new := cur_new s; ws_failed := ws_failed s; bad := bad s |}
    | OpRename | OpRemove => s
    end.

Definition fs_run (new : bytes) (s : fs) (evs : list ev) : fs := fold_left (fs_step new) evs s.

(* ---- what can be read from cur ------------------------------------------------------------------- *)
(* now (another process, or this one after it was killed) *)
Definition reader_sees (old : bytes) (s : fs) : bytes := if cur_new s then vol s else old.
(* after a power loss in state s *)
Definition after_crash (old : bytes) (s : fs) (c : bytes) : Prop :=
  c = old \/ (cur_new s = true /\ (c = dur s \/ vol s <> dur s)).

(* ---- running a protocol against a device that decides, call by call, success or failure ---------
   oracle: one entry per executed call, None = the device lets it succeed, Some n = it fails after
   transferring n bytes (n only matters for write); an exhausted oracle lets everything succeed. *)
Definition oracle := list (option nat).
Definition next (o : oracle) : option nat * oracle :=
  match o with [] => (None, []) | x :: r => (x, r) end.

Definition mk_ev (s : fs) (op : fsop) (d : option nat) : ev :=
  match d with
  | None => {| eop := op; eok := precond s op; part := 0 |}
  | Some n => {| eop := op; eok := false; part := n |}
  end.

Fixpoint run_cleanup (new : bytes) (cl : list fsop) (o : oracle) (s : fs) : list ev :=
  match cl with
  | [] => []
  | op :: r =>
      let '(d, o') := next o in
      let e := mk_ev s op d in
      e :: run_cleanup new r o' (fs_step new s e)
  end.

Fixpoint run_proto (new : bytes) (p : protocol) (o : oracle) (s : fs) : list ev :=
  match p with
  | [] => []
  | (op, h) :: r =>
      let '(d, o') := next o in
      let e := mk_ev s op d in
      let s' := fs_step new s e in
      e :: (if eok e then run_proto new r o' s'
            else match h with
                 | None => run_proto new r o' s'
                 | Some cl => run_cleanup new cl o' s'
                 end)
  end.

(* the states the file system goes through: one per crash point *)
Fixpoint states (new : bytes) (s : fs) (evs : list ev) : list fs :=
  s :: match evs with [] => [] | e :: r => states new (fs_step new s e) r end.

(* ---- the decision procedure used by Properties/C07.v on the GENERATED protocol -------------------
   abstract interpretation: the inode's contents are tracked only as "empty / exactly new / other" *)
Inductive vabs := VEmpty | VFull | VOther.
Record afs := {
  a_open : bool; a_tmp : bool; a_vol : vabs; a_durfull : bool; a_cur : bool; a_wsf : bool; a_bad : bool
}.
Definition afs0 : afs :=
  {| a_open := false; a_tmp := false; a_vol := VEmpty; a_durfull := false; a_cur := false; a_wsf := false; a_bad := false |}.

Definition aprecond (a : afs) (op : fsop) : bool :=
  match op with
  | OpOpen => true
  | OpWrite | OpSync | OpClose => a_open a
  | OpRename | OpRemove => a_tmp a
  end.

Definition vfull (v : vabs) : bool := match v with VFull => true | _ => false end.

(* [ok] = the device lets the call succeed *)
Definition astep (a : afs) (op : fsop) (ok : bool) : afs :=
  let touched := a_bad a || a_cur a in
  if ok && aprecond a op then
    match op with
    | OpOpen   => {| a_open := true; a_tmp := true; a_vol := VEmpty; a_durfull := false; a_cur := a_cur a;
                     a_wsf := a_wsf a; a_bad := touched |}
    | OpWrite  => {| a_open := a_open a; a_tmp := a_tmp a;
                     a_vol := match a_vol a with VEmpty => VFull | _ => VOther end;
                     a_durfull := a_durfull a; a_cur := a_cur a; a_wsf := a_wsf a; a_bad := touched |}
    | OpSync   => {| a_open := a_open a; a_tmp := a_tmp a; a_vol := a_vol a; a_durfull := vfull (a_vol a);
                     a_cur := a_cur a; a_wsf := a_wsf a; a_bad := a_bad a |}
    | OpRename => {| a_open := a_open a; a_tmp := false; a_vol := a_vol a; a_durfull := a_durfull a;
                     a_cur := true; a_wsf := a_wsf a;
                     a_bad := a_bad a || negb (vfull (a_vol a) && a_durfull a && negb (a_wsf a)) |}
    | OpClose  => {| a_open := false; a_tmp := a_tmp a; a_vol := a_vol a; a_durfull := a_durfull a;
                     a_cur := a_cur a; a_wsf := a_wsf a; a_bad := a_bad a |}
    | OpRemove => {| a_open := a_open a; a_tmp := false; a_vol := a_vol a; a_durfull := a_durfull a;
                     a_cur := a_cur a; a_wsf := a_wsf a; a_bad := a_bad a |}
    end
  else
    match op with
    | OpWrite  => {| a_open := a_open a; a_tmp := a_tmp a; a_vol := VOther; a_durfull := a_durfull a;
                     a_cur := a_cur a; a_wsf := true; a_bad := touched |}
    | OpSync   => {| a_open := a_open a; a_tmp := a_tmp a; a_vol := a_vol a; a_durfull := a_durfull a;
                     a_cur := a_cur a; a_wsf := true; a_bad := a_bad a |}
    | OpClose | OpOpen =>
                  {| a_open := false; a_tmp := a_tmp a; a_vol := a_vol a; a_durfull := a_durfull a;
                     a_cur := a_cur a; a_wsf := a_wsf a; a_bad := a_bad a |}
    | OpRename | OpRemove => a
    end.

Fixpoint acheck_cleanup (cl : list fsop) (a : afs) : bool :=
  negb (a_bad a) &&
  match cl with
  | [] => true
  | op :: r => acheck_cleanup r (astep a op true) && acheck_cleanup r (astep a op false)
  end.

(* every branch of successes and failures keeps [a_bad] false *)
Fixpoint acheck (p : protocol) (a : afs) : bool :=
  negb (a_bad a) &&
  match p with
  | [] => true
  | (op, h) :: r =>
      let fail_path :=
        match h with
        | None => acheck r (astep a op false)
        | Some cl => acheck_cleanup cl (astep a op false)
        end in
      (* a call on a closed descriptor / missing name cannot succeed: only the failure path exists *)
      if aprecond a op then acheck r (astep a op true) && fail_path else fail_path
  end.

(* the all-success path ends with cur bound to the new inode *)
Fixpoint afinal_ok (p : protocol) (a : afs) : afs :=
  match p with
  | [] => a
  | (op, h) :: r =>
      if aprecond a op then afinal_ok r (astep a op true)
      else match h with
           | None => afinal_ok r (astep a op false)
           | Some cl => fold_left (fun a op => astep a op true) cl (astep a op false)
           end
  end.

Definition protocol_safe (p : protocol) : bool :=
  acheck p afs0 && a_cur (afinal_ok p afs0).

(* ---- executable predicate on an OBSERVED trace (the harness' strace log) ------------------------- *)
Definition trace_safe (new : bytes) (evs : list ev) : bool := negb (bad (fs_run new fs0 evs)).

(* ---- the save protocols as they were BEFORE the repairs (kept for the refutation lemmas) -----------
   offsetDB.save: write and fsync errors were only logged, the rename followed in any case;
   Offset.Save:   no fsync at all between the write and the rename. *)
Definition legacy_filed_protocol : protocol :=
  [(OpOpen, Some []); (OpWrite, None); (OpSync, None); (OpRename, None); (OpClose, None)].
Definition legacy_generic_protocol : protocol :=
  [(OpOpen, Some []); (OpWrite, Some [OpClose]); (OpClose, None); (OpRename, Some [])].

(* ---- recovery: what a restarted process LOADS after a crash ------------------------------------------
   The directory after a crash: the offsets file ([dcur], None = no such name: the crash hit the very FIRST
   save) and whatever is left under the temp name(s) ([dtmp]: absent, empty, a torn prefix, the complete new
   snapshot, bytes of an older interrupted save, garbage after a power loss — unconstrained).
   [old] : option bytes, None = no committed offsets file yet. *)
Record dir := { dcur : option bytes; dtmp : option bytes }.

(* the directories a crash in state [s] may leave: the name cur is still bound to what it was bound to
   before the save, or (after the rename) to the new inode, which holds its durable content — or anything
   if it was not synced; nothing is said about the temp name *)
Definition crash_dir (old : option bytes) (s : fs) (d : dir) : Prop :=
  dcur d = old \/ (cur_new s = true /\ exists c, dcur d = Some c /\ (c = dur s \/ vol s <> dur s)).

(* the process is killed in state [s] (no power loss): exactly what the two names hold *)
Definition kill_dir (old : option bytes) (s : fs) : dir :=
  {| dcur := if cur_new s then Some (vol s) else old;
     dtmp := if tmp_bound s then Some (vol s) else None |}.

(* the loader of both savers (offsetDB.load, Offset.Load): it reads ONLY the committed file; a missing file
   is the empty state.  [decode] = the parser / the callback's Load. *)
Definition load_dir {A : Type} (decode : bytes -> A) (empty : A) (d : dir) : A :=
  match dcur d with None => empty | Some b => decode b end.

(* a loader that falls back to the temp file when the offsets file is missing (refuted in Proofs/FsCrash.v) *)
Definition load_dir_fallback {A : Type} (decode : bytes -> A) (empty : A) (d : dir) : A :=
  match dcur d with
  | Some b => decode b
  | None => match dtmp d with Some b => decode b | None => empty end
  end.

(* what recovery may yield: the state committed before the save (empty when there was none) or the new one *)
Definition load_old {A : Type} (decode : bytes -> A) (empty : A) (old : option bytes) : A :=
  match old with None => empty | Some b => decode b end.

(* ---- crash points the harness can realise on the real code ---------------------------------------------
   CBefore        before the first call
   CWrite cut     the temp file is open and the write was interrupted after [cut] bytes (0 = nothing written)
   CBeforeRename  every call before the rename was made (written, synced if the protocol syncs)
   CDone          the save ran to its end *)
Inductive crashpt := CBefore | CWrite (cut : nat) | CBeforeRename | CDone.

Fixpoint before_op (op : fsop) (evs : list ev) : list ev :=
  match evs with
  | [] => []
  | e :: r => if fsop_eqb (eop e) op then [] else e :: before_op op r
  end.

Definition crash_oracle (p : protocol) (new : bytes) (cp : crashpt) : oracle :=
  match cp with
  | CWrite cut => repeat None (length (before_op OpWrite (run_proto new p [] fs0))) ++ [Some cut]
  | _ => []
  end.

(* the calls completed when the crash happens: a prefix of a run of the protocol *)
Definition crash_evs (p : protocol) (new : bytes) (cp : crashpt) : list ev :=
  let clean := run_proto new p [] fs0 in
  match cp with
  | CBefore => []
  | CWrite _ => firstn (S (length (before_op OpWrite clean))) (run_proto new p (crash_oracle p new cp) fs0)
  | CBeforeRename => before_op OpRename clean
  | CDone => clean
  end.

Definition crash_state (p : protocol) (new : bytes) (cp : crashpt) : fs := fs_run new fs0 (crash_evs p new cp).

(* the generic saver's protocol as a literal (subject of the fallback-loader refutation) *)
Definition tmp_sync_rename_protocol : protocol :=
  [(OpOpen, Some []); (OpWrite, Some [OpClose]); (OpSync, Some [OpClose]); (OpClose, None); (OpRename, Some [])].
