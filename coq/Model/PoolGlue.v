(* Exchange glue + raw-trace monitors for the event-pool component (serves C05 and C04).
   case = (kind cap intervalMs gates threads), obs = ((kind a b c) ...), see harness/pooldrv. *)
From Verif Require Import Base.Sx Model.Pool Gen.PoolGen.

Definition lm_cfg (n : Z) : pcfg :=
  {| cap := n; fits := pool_lm_fits; avail := pool_lm_avail; tickc := pool_lm_tick_cond |}.
Definition std_cfg (n : Z) : pcfg :=
  {| cap := n; fits := pool_lm_fits; avail := pool_std_avail; tickc := pool_std_tick_cond |}.
(* the same pool with the opposite availability test in the heartbeat (the defect repaired in
   fixes/C04-lowmem-wakeup.patch); used by the refutation theorem only *)
Definition lm_cfg_inverted (n : Z) : pcfg :=
  {| cap := n; fits := pool_lm_fits; avail := pool_lm_avail; tickc := fun w a => w && negb a |}.

(* the heartbeat's life cycle (Model/Pool.v, "the heartbeat's life cycle") with the two facts regenerated from the Go AST *)
Definition lm_hcfg : hcfg := {| hb_starts := pool_lm_hb_starts; hb_forever := pool_lm_hb_forever |}.
Definition std_hcfg : hcfg := {| hb_starts := pool_std_hb_starts; hb_forever := pool_std_hb_forever |}.
(* a heartbeat that has a way out of its loop (what the translator reports as hb_forever = false); refutation theorem only *)
Definition hcfg_exiting : hcfg := {| hb_starts := true; hb_forever := false |}.

Record entry := { ekind : Z; eargs : list Z }.
Definition entry_of_sx (s : sx) : option entry :=
  match s with
  | SL (SZ k :: rest) => match opt_map as_Z rest with Some a => Some {| ekind := k; eargs := a |} | None => None end
  | _ => None
  end.

Definition zb (z : Z) : bool := negb (z =? 0).

Definition llabel_of (e : entry) : option llabel :=
  match ekind e, eargs e with
  | 40, g :: r :: _ => Some (LmInc g r)
  | 41, g :: _ => Some (LmEnter g)
  | 42, g :: _ => Some (LmDec g)
  | 43, g :: _ => Some (LmWInc g)
  | 44, g :: _ => Some (LmLock g)
  | 45, g :: b :: _ => Some (LmCheck g (zb b))
  | 46, g :: _ => Some (LmReg g)
  | 47, g :: _ => Some (LmWake g)
  | 48, g :: _ => Some (LmUnlock g)
  | 49, g :: _ => Some (LmWDec g)
  | 50, h :: _ => Some (LmBDec h)
  | 51, h :: _ => Some (LmBBc h)
  | 52, w :: _ => Some (LmTickW w)
  | 53, a :: _ => Some (LmTickA (zb a))
  | 54, _ => Some LmTickFire
  | 55, _ => Some LmTickEnd
  | 211, _ => Some LmEnvBc
  | _, _ => None
  end.

Definition slabel_of (e : entry) : option slabel :=
  match ekind e, eargs e with
  | 60, g :: x :: _ => Some (SClaim g x)
  | 61, g :: x :: ok :: _ => Some (SCas g x (zb ok))
  | 62, g :: _ => Some (SWInc g)
  | 63, g :: _ => Some (SLock g)
  | 64, g :: _ => Some (SReg g)
  | 65, g :: _ => Some (SWake g)
  | 66, g :: _ => Some (SUnlock g)
  | 67, g :: _ => Some (SWDec g)
  | 68, g :: x :: e :: _ => Some (STake g x e)
  | 69, g :: _ => Some (SF2 g)
  | 70, g :: _ => Some (SInc g)
  | 71, e :: y :: _ => Some (SBClaim e y)
  | 72, e :: y :: ok :: _ => Some (SBCas e y (zb ok))
  | 73, e :: _ => Some (SBPut e)
  | 74, e :: _ => Some (SBF1 e)
  | 75, e :: _ => Some (SBDec e)
  | 76, e :: _ => Some (SBBc e)
  | 77, w :: _ => Some (STickW w)
  | 78, a :: _ => Some (STickA (zb a))
  | 79, _ => Some STickFire
  | 80, _ => Some STickEnd
  | 211, _ => Some SEnvBc
  | _, _ => None
  end.

Definition tick_idle (t : tpc) : bool := match t with TIdle => true | _ => false end.
Definition hb_code (b : hbst) : Z := match b with HbNone => 0 | HbRun => 1 | HbGone => 2 end.

(* run the hook labels through the LTS with the heartbeat's life cycle on top (a tick label is accepted only while the
   heartbeat runs); harness-only entries (kind >= 200 except 211) are skipped.  [fin]: at the end-of-case record (213, which
   the harness writes only after the heartbeat iteration in progress had 250 ms to finish) the heartbeat is between two
   iterations - the model's heartbeat never stops in the middle of one.
   Returns (number of entries consumed, last state, accepted, fin) *)
Fixpoint lrun_entries (c : pcfg) (h : hcfg) (s : hst lst) (es : list entry) (n : Z) (fin : bool) : Z * hst lst * bool * bool :=
  match es with
  | [] => (n, s, true, fin)
  | e :: r =>
      match llabel_of e with
      | Some l => match lhstep c h s (HL l) with
                  | Some s' => lrun_entries c h s' r (n + 1) fin
                  | None => (n, s, false, fin)
                  end
      | None => if ekind e <? 200 then (n, s, false, fin)
                else lrun_entries c h s r (n + 1) (if ekind e =? 213 then tick_idle (l_tick (h_s s)) else fin)
      end
  end.

Fixpoint srun_entries (c : pcfg) (h : hcfg) (s : hst sst) (es : list entry) (n : Z) (fin : bool) : Z * hst sst * bool * bool :=
  match es with
  | [] => (n, s, true, fin)
  | e :: r =>
      match slabel_of e with
      | Some l => match shstep c h s (HL l) with
                  | Some s' => srun_entries c h s' r (n + 1) fin
                  | None => (n, s, false, fin)
                  end
      | None => if ekind e <? 200 then (n, s, false, fin)
                else srun_entries c h s r (n + 1) (if ekind e =? 213 then tick_idle (s_tick (h_s s)) else fin)
      end
  end.

(* ---- raw-trace monitors: the property's own predicates over what was observed ------------------- *)
Definition kind_is (k : Z) (e : entry) : bool := ekind e =? k.
Definition has_kind (k : Z) (es : list entry) : bool := existsb (kind_is k) es.

(* M1 (C05): at every instant the number of events held is at most the capacity.
   up/down: the label kinds that take an event out of / give it back to the pool *)
Fixpoint m_held_go (capz up down : Z) (es : list entry) (held : Z) : bool :=
  match es with
  | [] => true
  | e :: r =>
      if ekind e =? up then (held + 1 <=? capz) && m_held_go capz up down r (held + 1)
      else if ekind e =? down then m_held_go capz up down r (held - 1)
      else m_held_go capz up down r held
  end.

(* M2 (C05): no event object is owned by two holders at once or returned twice: per object, "handed
   out" and "given back" alternate, starting with "handed out" (standard pool: object id = 3rd/1st
   argument); for the anonymous objects of the low-memory pool: never more returns than admissions *)
Fixpoint m_alt_go (es : list entry) (out : list Z) : bool :=
  match es with
  | [] => true
  | e :: r =>
      match ekind e, eargs e with
      | 68, _ :: _ :: ev :: _ => negb (mem_z ev out) && m_alt_go r (ev :: out)
      | 71, ev :: _ => mem_z ev out && m_alt_go r (rem1 ev out)
      | _, _ => m_alt_go r out
      end
  end.
Fixpoint m_bal_go (up down : Z) (es : list entry) (n : Z) : bool :=
  match es with
  | [] => true
  | e :: r =>
      if ekind e =? up then m_bal_go up down r (n + 1)
      else if ekind e =? down then (1 <=? n) && m_bal_go up down r (n - 1)
      else m_bal_go up down r n
  end.

(* M3 (C05): when the harness reports quiescence (every script finished, nothing held), the pool's
   in-use count, raw counter and waiter count are zero; every case must end with a final record *)
Definition m_final (es : list entry) : bool :=
  match filter (kind_is 213) es with
  | [e] => match eargs e with
           | [q; inuse; raw; waiters; held] => (q =? 0) || ((inuse =? 0) && (raw =? 0) && (waiters =? 0) && (held =? 0))
           | _ => false
           end
  | _ => false
  end.

(* M4 (C04): no goroutine stayed inside get() for more than 20 heartbeat periods with capacity free;
   the case finished; no panic; in the directed prompt-wakeup cases the sleeper was woken by back() (216) *)
Definition m_live (es : list entry) : bool :=
  negb (has_kind 210 es) && negb (has_kind 215 es) && negb (has_kind 214 es) && negb (has_kind 216 es).

Definition pool_monitor (kind capz : Z) (es : list entry) : bool :=
  m_live es && m_final es && negb (has_kind 212 es) &&
  m_held_go capz 200 201 es 0 &&
  (if kind =? 10
   then m_held_go capz 41 50 es 0 && m_bal_go 41 50 es 0
   else m_held_go capz 68 71 es 0 && m_alt_go es []).

Definition final_counters (es : list entry) : option (Z * Z) :=
  match filter (kind_is 213) es with
  | [e] => match eargs e with [_; _; raw; waiters; _] => Some (raw, waiters) | _ => None end
  | _ => None
  end.

Definition pool_run (kind capz : Z) (es : list entry) : verdict :=
  let mon := pool_monitor kind capz es in
  if kind =? 10 then
    let c := lm_cfg capz in
    let '(n, hs, ok, fin) := lrun_entries c lm_hcfg lhinit es 0 false in
    let s := h_s hs in
    let same := match final_counters es with Some (raw, w) => (raw =? l_inuse s) && (w =? l_waiters s) | None => false end in
    let m := SL [of_bool ok; SZ n; SZ (l_inuse s); SZ (l_waiters s); SZ (len (l_holders s)); SZ (hb_code (h_hb hs)); of_bool fin] in
    if mon then (if ok && same && fin && negb (has_kind 217 es) then Agree else Differ m) else Violates m
  else
    let c := std_cfg capz in
    let '(n, hs, ok, fin) := srun_entries c std_hcfg (shinit c) es 0 false in
    let s := h_s hs in
    let same := match final_counters es with Some (raw, w) => (raw =? s_inuse s) && (w =? s_waiters s) | None => false end in
    let m := SL [of_bool ok; SZ n; SZ (s_inuse s); SZ (s_waiters s); SZ (len (s_holders s)); SZ (hb_code (h_hb hs)); of_bool fin] in
    if mon then (if ok && same && fin && negb (has_kind 217 es) then Agree else Differ m) else Violates m.

Definition pool_entry (which : Z) (case obs : sx) : verdict :=
  match case, as_list entry_of_sx obs with
  | SL [SZ kind; SZ capz; SZ _; SL _; SL _], Some es =>
      if (kind =? which) && ((kind =? 10) || (kind =? 11)) && (1 <=? capz) then pool_run kind capz es else BadCase
  | _, _ => BadCase
  end.
