(* C13 entry: which < 50 the action plugins (Model/Actions/Entry.v), which >= 50 the processor-level clause on pipeline traces *)
From Verif Require Import Base.Sx Model.Actions.Entry Model.PipeEntry.
Definition c13_full_entry (which : Z) (case obs : sx) : verdict :=
  if 50 <=? which then c13_pipe_entry which case obs else c13_actions_entry which case obs.
