(* C13 entry: which < 50 the action plugins (Model/Actions/Entry.v), 51 / 52 the join-template checks and the field
   selector parser (Model/Actions/Templates.v), 53 the per-processor instances of one action run concurrently
   (Model/Actions/Procs.v), every other which >= 50 the processor-level clause on pipeline traces *)
From Verif Require Import Base.Sx Model.Actions.Entry Model.Actions.Templates Model.Actions.Procs Model.PipeEntry.
Definition c13_full_entry (which : Z) (case obs : sx) : verdict :=
  if (which =? 51) || (which =? 52) then c13_cov_entry which case obs
  else if which =? 53 then c13_procs_entry which case obs
  else if 50 <=? which then c13_pipe_entry which case obs else c13_actions_entry which case obs.
