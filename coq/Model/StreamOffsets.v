(* Model of the consumer of the per-stream commit order: plugin/input/file/provider.go jobProvider.commit.
   The file input keeps, per source, one offset per stream name (Job.offsets).  A commit notification for an
   event of stream s at offset off
       value, has := job.offsets.Get(streamName)          (0 when the stream has no offset yet)
       if value >= event.Offset { Panicf("offset corruption ...") }
       job.offsets.Set(streamName, event.Offset)
   i.e. the stored offset of a stream only ever moves forward, and any commit that does not move it forward
   (an out-of-order commit, a repeated commit) takes the collector down.  A key is the stream of the trace
   (one stream object per (source, stream name) without spread routing).  Executable; no proofs here. *)
From Verif Require Import Base.Sx.

Definition fcst := list (Z * Z).          (* stream -> stored offset; at most one entry per stream *)

Fixpoint fc_get (t : fcst) (s : Z) : Z :=
  match t with [] => 0 | (k, v) :: r => if k =? s then v else fc_get r s end.
Fixpoint fc_set (t : fcst) (s v : Z) : fcst :=
  match t with [] => [(s, v)] | (k, w) :: r => if k =? s then (k, v) :: r else (k, w) :: fc_set r s v end.

(* one commit notification: None = the Panicf site *)
Definition fc_commit (t : fcst) (s off : Z) : option fcst :=
  if off <=? fc_get t s then None else Some (fc_set t s off).

Fixpoint fc_run (t : fcst) (cs : list (Z * Z)) : option fcst :=
  match cs with
  | [] => Some t
  | (s, off) :: r => match fc_commit t s off with Some t' => fc_run t' r | None => None end
  end.

(* the offsets of the commits of stream s, in order *)
Definition offs_of (s : Z) (cs : list (Z * Z)) : list Z :=
  flat_map (fun c : Z * Z => if fst c =? s then [snd c] else []) cs.

(* strictly increasing, above a floor *)
Fixpoint incr_from (lo : Z) (l : list Z) : bool :=
  match l with [] => true | x :: r => (lo <? x) && incr_from x r end.

Definition last_or (d : Z) (l : list Z) : Z := last l d.
