(* Model of pipeline/pipeline.go: Pipeline.checkInputBytes and the ordered refusal chain of
   Pipeline.In (everything between the call of checkInputBytes and streamEvent).
   No proofs here (Proofs/Admission.v). The glue for the exchange format is in Model/Antispam.v
   (c20_entry), because the stateful pipeline runner needs both models. *)
From Verif Require Import Base.Sx Base.GoSem.

Definition NL : byte := 10%N.

(* why In returned EventSeqIDError *)
Inductive reason := REmpty | ROversize | RCri | RCommitted | RSpam | RDecode.

(* result of checkInputBytes: (bytes, cutoff, ok) *)
Inductive outcome :=
| Refuse (why : reason)        (* ok = false *)
| Keep (b : bytes)             (* ok = true, cutoff = false, bytes unchanged *)
| Cut (b : bytes).             (* ok = true, cutoff = true *)

(* func (p *Pipeline) checkInputBytes(bytes, sourceName, meta) ([]byte, bool, bool)
     length == 0 || (bytes[0] == '\n' && length == 1)         -> refuse
     MaxEventSize != 0 && length > MaxEventSize:
         !CutOffEventByLimit                                   -> refuse
         wasNewLine := bytes[len-1] == '\n'; bytes = bytes[:MaxEventSize]; if wasNewLine append '\n'
   The index and the slice go through GoSem (a negative max_event_size makes bytes[:max] panic). *)
Definition admit_bytes (b : bytes) (max : Z) (cutoff : bool) : res outcome :=
  let n := len b in
  if (n =? 0) || (match b with [c] => N.eqb c NL | _ => false end) then Ok (Refuse REmpty)
  else if negb (max =? 0) && (max <? n) then
    if negb cutoff then Ok (Refuse ROversize)
    else
      last <- idx b (n - 1) ;;
      pre <- slice_to b max ;;
      Ok (Cut (if N.eqb last NL then pre ++ [NL] else pre))
  else Ok (Keep b).

(* ---- specification vocabulary (never executed by the runner) ------------------------------ *)
Definition ends_nl (b : bytes) : bool :=
  match rev b with c :: _ => N.eqb c NL | [] => false end.
Definition cut_spec (b : bytes) (max : Z) : bytes :=
  firstn (Z.to_nat max) b ++ (if ends_nl b then [NL] else []).

(* ---- the refusal chain of Pipeline.In -------------------------------------------------------
   settings that matter *)
Record in_cfg := {
  max_size : Z;          (* MaxEventSize *)
  cut_on : bool;         (* CutOffEventByLimit *)
  mark_on : bool;        (* CutOffEventByLimitField != "" *)
  as_thr : Z;            (* Antispam.Threshold *)
  is_cri : bool          (* the pipeline's decoder is CRI *)
}.

Inductive in_result :=
| Refused (why : reason)                 (* In returned EventSeqIDError *)
| Delivered (b : bytes) (mark : bool)    (* the bytes handed to the decoder; mark = cut-off field is set *)
| Crash.                                 (* run-time panic inside checkInputBytes *)

(* The external parts are parameters of the chain, applied to the bytes checkInputBytes let through:
     cri b       = None: DecodeCRI failed | Some partial   (decoders other than CRI: Some false)
     decode_ok b = the configured decoder accepted b
   and, for one call, cur = offsets.current, soff = the saved offset of the row's stream.
   Stage 1 = everything before the antispam is consulted. Its result says whether IsSpam is called
   at all (it is not for partial CRI rows and when Antispam.Threshold < 0). The "already committed"
   test (streamOffset > 0 && currentOffset < streamOffset) sits inside the same branch and, since
   the repair a380cb6, is applied to CRI rows only. *)
Inductive stage1 :=
| S1Refused (why : reason)
| S1Crash
| S1Go (b : bytes) (cut : bool) (consult : bool).

Definition in_stage1 (c : in_cfg) (cri : bytes -> option bool) (cur soff : Z) (b : bytes) : stage1 :=
  match admit_bytes b (max_size c) (cut_on c) with
  | Panic _ | Err _ => S1Crash
  | Ok (Refuse w) => S1Refused w
  | Ok o =>
      let '(b', cut) := match o with Cut x => (x, true) | Keep x => (x, false) | Refuse _ => ([], false) end in
      match cri b' with
      | None => S1Refused RCri
      | Some partial =>
          if negb partial && (0 <=? as_thr c) then
            if is_cri c && (0 <? soff) && (cur <? soff) then S1Refused RCommitted
            else S1Go b' cut true
          else S1Go b' cut false
      end
  end.

(* Stage 2: the antispam verdict (only looked at when it was consulted) and the decoder *)
Definition in_stage2 (c : in_cfg) (decode_ok : bytes -> bool) (b' : bytes) (cut consult spam : bool) : in_result :=
  if consult && spam then Refused RSpam
  else if decode_ok b' then Delivered b' (cut && mark_on c)
  else Refused RDecode.

Definition pipeline_in (c : in_cfg) (cri : bytes -> option bool) (decode_ok : bytes -> bool)
           (spam : bytes -> bool) (cur soff : Z) (b : bytes) : in_result :=
  match in_stage1 c cri cur soff b with
  | S1Refused w => Refused w
  | S1Crash => Crash
  | S1Go b' cut consult => in_stage2 c decode_ok b' cut consult (spam b')
  end.

(* property-level description of "may be refused" (the list in the property text) *)
Definition empty_record (b : bytes) : Prop := b = [] \/ b = [NL].
Definition oversize (c : in_cfg) (b : bytes) : Prop := max_size c <> 0 /\ max_size c < len b.
(* the bytes the later stages see *)
Definition seen_bytes (c : in_cfg) (b : bytes) : bytes :=
  if negb (max_size c =? 0) && (max_size c <? len b) then cut_spec b (max_size c) else b.
