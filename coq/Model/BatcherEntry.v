(* entry points bound to the generated constants *)
From Verif Require Import Base.Sx Model.Batcher Model.BatcherGlue Model.BatcherAge Gen.BatcherGen Model.C09Route.
(* c08_run_t = the untimed verdict of c08_run + the clocked staleness clause (Model/BatcherAge.v) *)
Definition c08_entry (which : Z) (case obs : sx) : verdict := c08_run_t batcher_atomic_push case obs.
(* C09: which = 0 batcher traces, 1 dead-queue wiring (both judged by the trace monitors of BatcherGlue), 2 the real output
   plugins behind a Router against scripted far ends (Model/C09Route.v) *)
Definition c09_entry (which : Z) (case obs : sx) : verdict :=
  if which =? 2 then c09_route_run case obs else c09_run batcher_atomic_push case obs.
