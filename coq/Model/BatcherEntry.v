(* entry points bound to the generated constants *)
From Verif Require Import Base.Sx Model.Batcher Model.BatcherGlue Gen.BatcherGen.
Definition c08_entry (which : Z) (case obs : sx) : verdict := c08_run batcher_atomic_push case obs.
Definition c09_entry (which : Z) (case obs : sx) : verdict := c09_run batcher_atomic_push case obs.
