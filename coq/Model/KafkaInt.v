(* Go's fixed-width integer arithmetic on mathematical integers, as far as the Kafka input's
   packing needs it.  A Go value of type [ty] is represented by its mathematical value in [Z]
   (so an int64 is in [-2^63, 2^63), a uint64 in [0, 2^64)); every operation returns the
   representative of the wrapped result, exactly what the Go spec prescribes ("integer overflow":
   unsigned = modulo 2^n, signed = two's complement wrap-around; conversions between integer types
   truncate / sign-extend; >> on a signed operand is an arithmetic shift, on an unsigned one logical).
   The translator harness/gen/kafka.go emits coq/Gen/KafkaGen.v in terms of these operators.
   No proofs here.  Used by property C10 only. *)
From Coq Require Import ZArith.
Open Scope Z_scope.

(* Go `int` is I64 and `uint` is U64: file.d is built for 64-bit targets (checked by the harness:
   strconv.IntSize). The narrow types are there for conversions such as int32(uint16(v)). *)
Inductive ity := I8 | I16 | I32 | I64 | U8 | U16 | U32 | U64.

Definition ity_bits (t : ity) : Z :=
  match t with I8 | U8 => 8 | I16 | U16 => 16 | I32 | U32 => 32 | I64 | U64 => 64 end.
Definition ity_signed (t : ity) : bool :=
  match t with I8 | I16 | I32 | I64 => true | U8 | U16 | U32 | U64 => false end.

Definition go_min (t : ity) : Z := if ity_signed t then - 2 ^ (ity_bits t - 1) else 0.
Definition go_max (t : ity) : Z := if ity_signed t then 2 ^ (ity_bits t - 1) - 1 else 2 ^ ity_bits t - 1.
Definition go_fits (t : ity) (z : Z) : bool := (go_min t <=? z) && (z <=? go_max t).

(* the value of type t congruent to z modulo 2^bits *)
Definition go_wrap (t : ity) (z : Z) : Z :=
  if ity_signed t
  then (z + 2 ^ (ity_bits t - 1)) mod 2 ^ ity_bits t - 2 ^ (ity_bits t - 1)
  else z mod 2 ^ ity_bits t.

Definition go_conv (t : ity) (z : Z) : Z := go_wrap t z.                 (* T(x) between integer types *)
Definition go_add (t : ity) (a b : Z) : Z := go_wrap t (a + b).
Definition go_sub (t : ity) (a b : Z) : Z := go_wrap t (a - b).
Definition go_mul (t : ity) (a b : Z) : Z := go_wrap t (a * b).          (* the low bits of the exact product *)
Definition go_shl (t : ity) (a k : Z) : Z := go_wrap t (Z.shiftl a k).   (* constant k >= 0 *)
Definition go_shr (t : ity) (a k : Z) : Z := Z.shiftr a k.               (* floor division: arithmetic / logical on the representative *)
Definition go_and (t : ity) (a b : Z) : Z := Z.land a b.                 (* two's complement of unbounded width agrees on in-range operands *)
Definition go_or  (t : ity) (a b : Z) : Z := Z.lor a b.
