(* OffsetsFmt.v — byte-level model of the offsets file of the file input plugin
   (plugin/input/file/offset.go): the writer part of offsetDB.save ([print_jobs]) and the line-oriented
   parser offsetDB.parse / parseOne / parseStreams / parseLine / parseOptionalLine ([parse]), with
   strconv.AppendUint/AppendInt/ParseUint/ParseInt in base 10.  No proofs here (Proofs/OffsetsFmt.v). *)
From Verif Require Import Base.Sx Base.GoSem.
From Coq Require Import Lia.

Definition NL : byte := 10%N.
Definition COLON : byte := 58%N.
Definition DASH : byte := 45%N.

Definition P_FILE    : bytes := [45; 32; 102; 105; 108; 101; 58; 32]%N.                       (* "- file: " *)
Definition P_INODE   : bytes := [32; 32; 105; 110; 111; 100; 101; 58; 32]%N.                  (* "  inode: " *)
Definition P_SID     : bytes := [32; 32; 115; 111; 117; 114; 99; 101; 95; 105; 100; 58; 32]%N. (* "  source_id: " *)
Definition P_TS      : bytes := [32; 32; 108; 97; 115; 116; 95; 114; 101; 97; 100; 95; 116; 105; 109; 101; 115;
                                 116; 97; 109; 112; 58; 32]%N.                                (* "  last_read_timestamp: " *)
Definition P_STREAMS : bytes := [32; 32; 115; 116; 114; 101; 97; 109; 115; 58]%N.              (* "  streams:" *)
Definition P_IND     : bytes := [32; 32; 32; 32]%N.                                           (* "    " *)

(* ---- strconv, base 10 ---------------------------------------------------------------------------- *)
(* little-endian decimal digits; 20 digits cover every uint64 *)
Fixpoint dec_le (fuel : nat) (n : N) : bytes :=
  match fuel with
  | O => []
  | S f => if (n <? 10)%N then [48 + n]%N else ((48 + n mod 10) :: dec_le f (n / 10))%N
  end.
Definition dec_N (n : N) : bytes := rev_append (dec_le 20 n) [].       (* strconv.AppendUint(_, n, 10), n < 10^20 *)
Definition dec_Z (z : Z) : bytes :=                                     (* strconv.AppendInt(_, z, 10) *)
  match z with Zneg p => DASH :: dec_N (Npos p) | _ => dec_N (Z.to_N z) end.

Definition is_digit (c : byte) : bool := (48 <=? c)%N && (c <=? 57)%N.
Fixpoint digits_val (s : bytes) (acc : N) : option N :=
  match s with
  | [] => Some acc
  | c :: r => if is_digit c then digits_val r (acc * 10 + (c - 48))%N else None
  end.
(* strconv.ParseUint(s, 10, 64): Some v, or None for a syntax or range error *)
Definition parse_uint64 (s : bytes) : option N :=
  match s with
  | [] => None
  | _ :: _ => match digits_val s 0%N with
              | Some v => if (v <? 2 ^ 64)%N then Some v else None
              | None => None
              end
  end.
(* strconv.ParseInt(s, 10, 64) *)
Definition parse_int64 (s : bytes) : option Z :=
  match s with
  | [] => None
  | c :: r =>
      let '(neg, body) := if N.eqb c 43 then (false, r) else if N.eqb c DASH then (true, r) else (false, s) in
      match parse_uint64 body with
      | None => None
      | Some un =>
          if neg then (if (un <=? 2 ^ 63)%N then Some (- Z.of_N un) else None)
          else (if (un <? 2 ^ 63)%N then Some (Z.of_N un) else None)
      end
  end.

(* ---- the job table and its printed form ---------------------------------------------------------- *)
Record job := {
  jfile : bytes;               (* job.filename *)
  jinode : N;                  (* job.inode (uint64) *)
  jsid : N;                    (* job.sourceID (uint64), the key of the jobs map *)
  jts : Z;                     (* job.eofReadInfo timestamp (int64) *)
  jstreams : list (bytes * Z)  (* job.offsets, a SliceMap: stream name -> offset (int64), insertion order *)
}.

Definition unlines (ls : list bytes) : bytes := concat (map (fun l => l ++ [NL]) ls).

(* uint64(offset) as AppendUint prints it *)
Definition off_u64 (off : Z) : N := Z.to_N (off mod 2 ^ 64).

Definition stream_line (so : bytes * Z) : bytes := P_IND ++ fst so ++ COLON :: 32%N :: dec_N (off_u64 (snd so)).

Definition job_lines (j : job) : list bytes :=
  (P_FILE ++ jfile j) :: (P_INODE ++ dec_N (jinode j)) :: (P_SID ++ dec_N (jsid j)) :: (P_TS ++ dec_Z (jts j))
  :: P_STREAMS :: map stream_line (jstreams j).

Definition has_streams (j : job) : bool := match jstreams j with [] => false | _ :: _ => true end.

(* the bytes save() writes for the jobs in the order its snapshot lists them; jobs without offsets are skipped *)
Definition print_jobs (js : list job) : bytes := unlines (flat_map job_lines (filter has_streams js)).

(* ---- the parser ----------------------------------------------------------------------------------
   The Go code walks the content with IndexByte('\n'); the model first cuts the content into its
   newline-terminated lines and the unterminated rest, then feeds the lines to a state machine whose
   states are the program points between the parseLine calls. *)
Fixpoint split_lines (b : bytes) : list bytes * bytes :=
  match b with
  | [] => ([], [])
  | c :: b' =>
      let '(ls, t) := split_lines b' in
      if N.eqb c NL then ([] :: ls, t)
      else match ls with
           | [] => ([], c :: t)
           | l :: ls' => ((c :: l) :: ls', t)
           end
  end.

Fixpoint strip_prefix (p l : bytes) : option bytes :=
  match p, l with
  | [], _ => Some l
  | _ :: _, [] => None
  | a :: p', b :: l' => if N.eqb a b then strip_prefix p' l' else None
  end.

(* what load() returns for one source: inodeOffsets{filename, sourceID, lastReadTimestamp, streams} *)
Record entry := {
  efile : bytes;
  esid : N;
  ets : option Z;              (* None: no timestamp in the file, the parser takes the current time *)
  estreams : list (bytes * Z)  (* file order *)
}.

Inductive pst :=
| PStart (done : list entry)                                   (* at the top of parse's loop *)
| PInode (done : list entry) (f : bytes)                       (* after "- file: " *)
| PSid (done : list entry) (f : bytes)                         (* after "  inode: " *)
| PTs (done : list entry) (f : bytes) (sid : N)                (* after "  source_id: ": optional timestamp *)
| PHdr (done : list entry) (f : bytes) (sid : N) (ts : option Z)   (* expecting "  streams:" *)
| PStreams (done : list entry) (f : bytes) (sid : N) (ts : option Z) (acc : list (bytes * Z)) (* inside parseStreams' loop *)
| PErr
| PPanic.

Definition close_entry (done : list entry) (f : bytes) (sid : N) (ts : option Z) (acc : list (bytes * Z)) : list entry :=
  {| efile := f; esid := sid; ets := ts; estreams := rev_append acc [] |} :: done.

Definition start_line (done : list entry) (l : bytes) : pst :=
  match strip_prefix P_FILE l with Some f => PInode done f | None => PErr end.

Definition hdr_line (done : list entry) (f : bytes) (sid : N) (ts : option Z) (l : bytes) : pst :=
  match strip_prefix P_STREAMS l with Some _ => PStreams done f sid ts [] | None => PErr end.

(* one iteration of parseStreams' loop on a line that does not start with '-' *)
Definition stream_entry (acc : list (bytes * Z)) (l : bytes) : res (list (bytes * Z)) :=
  if (len l <? 5) || negb (has_prefix l P_IND) then Err 1
  else
    let pos := last_index_byte l COLON in
    if pos <? 0 then Err 2
    else
      stream <- slice l 4 pos ;;
      (* repaired parser: an empty stream name is accepted (the writer emits it) *)
      if existsb (fun kv => bytes_eqb (fst kv) stream) acc then Err 4
      else
        offs <- slice_from l (pos + 2) ;;
        match parse_int64 offs with
        | Some off => Ok ((stream, off) :: acc)
        | None => Err 5
        end.

Definition pstep (st : pst) (l : bytes) : pst :=
  match st with
  | PStart done => start_line done l
  | PInode done f =>
      match strip_prefix P_INODE l with
      | Some s => match parse_uint64 s with Some _ => PSid done f | None => PErr end
      | None => PErr
      end
  | PSid done f =>
      match strip_prefix P_SID l with
      | Some s => match parse_uint64 s with
                  | Some sid => if existsb (fun e => N.eqb (esid e) sid) done then PErr else PTs done f sid
                  | None => PErr
                  end
      | None => PErr
      end
  | PTs done f sid =>
      match strip_prefix P_TS l with
      | Some [] => PHdr done f sid None                       (* empty value: treated as absent *)
      | Some (c :: s) => match parse_int64 (c :: s) with Some ts => PHdr done f sid (Some ts) | None => PErr end
      | None => hdr_line done f sid None l
      end
  | PHdr done f sid ts => hdr_line done f sid ts l
  | PStreams done f sid ts acc =>
      match l with
      | c :: _ => if N.eqb c DASH then start_line (close_entry done f sid ts acc) l
                  else match stream_entry acc l with
                       | Ok acc' => PStreams done f sid ts acc'
                       | Err _ => PErr
                       | Panic _ => PPanic
                       end
      | [] => PErr                                            (* an empty line: "no leading whitespaces" *)
      end
  | PErr => PErr
  | PPanic => PPanic
  end.

(* end of the lines; [t] = bytes after the last newline *)
Definition pfinish (st : pst) (t : bytes) : res (list entry) :=
  match st with
  | PPanic => Panic 1
  | PStart done => match t with [] => Ok (rev_append done []) | _ :: _ => Err 1 end
  | PStreams done f sid ts acc =>
      match t with [] => Ok (rev_append (close_entry done f sid ts acc) []) | _ :: _ => Err 1 end
  | _ => Err 1
  end.

Definition parse (content : bytes) : res (list entry) :=
  let '(ls, t) := split_lines content in pfinish (fold_left pstep ls (PStart [])) t.

(* what a table loads back to: the inode is written but not kept by load() *)
Definition view (j : job) : entry :=
  {| efile := jfile j; esid := jsid j; ets := Some (jts j); estreams := jstreams j |}.
Definition expected_load (js : list job) : list entry := map view (filter has_streams js).
